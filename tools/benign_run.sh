#!/bin/bash
# usage: benign_run.sh <k>...   runs all 20 quick checks against /repo HEAD + benign patch k
for k in "$@"; do
  work=/tmp/benign/run; copy=$work/repo; rm -rf $copy; mkdir -p $copy $work/ev $work/rp
  git -C /repo archive HEAD src Cargo.toml | tar -x -C $copy
  [ -f /repo/Cargo.lock ] && cp /repo/Cargo.lock $copy/
  (cd $copy && git init -q . && git apply /verif/benign/$k/patch.diff) || { echo "$k: patch does not apply"; continue; }
  for p in C01 C02 C03 C04 C05 C06 C07 C08 C09 C10 C11 C12 C13 C14 C15 C16 C17 C18 C19 C20; do
    out=$(cd /verif && VERIF_REPO=$copy VERIF_TARGET_DIR=$work/target VERIF_EVIDENCE_DIR=$work/ev VERIF_REPLAY_DIR=$work/rp ./check $p quick 2>&1)
    rc=$?
    nv=$(echo "$out" | grep -c '^VIOLATION')
    echo "benign $k $p rc=$rc violations=$nv"
    if [ $rc -ne 0 ]; then echo "$out" | grep -v WARNING | tail -5; mkdir -p $work/keep/$k; cp $work/rp/$p-* $work/keep/$k/ 2>/dev/null; fi
  done
done
