#!/usr/bin/env python3
"""Seeded-change bookkeeping.

  tools/seed.py import <src_dir> <id> <property>   confirm a sub-agent's change in a scratch worktree and store it as seeded/<id>/
  tools/seed.py detect <id> [prop ...]             apply seeded/<id>/patch.diff to /repo, run ./check <prop> quick, revert; record outcome
  tools/seed.py table                              print the detection table (markdown)

Confirmation (import) = in a fresh scratch worktree of /repo under /tmp: patch applies; crate builds in 3 feature sets;
`cargo test --offline --lib` passes all 42; doc tests pass; demo FAILS with the patch and PASSES without it.
"""
import json, os, shutil, subprocess, sys, tempfile, time

VERIF = os.path.dirname(os.path.dirname(os.path.abspath(__file__)))
SEEDED = os.path.join(VERIF, "seeded")
ENV = dict(os.environ, CARGO_NET_OFFLINE="true", CARGO_TERM_COLOR="never")


def sh(cmd, cwd=None, timeout=1800):
    p = subprocess.run(cmd, shell=True, cwd=cwd, env=ENV, stdout=subprocess.PIPE, stderr=subprocess.STDOUT, text=True, timeout=timeout)
    return p.returncode, p.stdout


def do_import_cfg(src, sid, prop):
    """like import, but the demo is run under the three feature configurations: it must pass in the default one (and is
    recorded for the others) on the pristine tree and fail with the patch in at least one in which it passed before (C19 seeds)"""
    dst = os.path.join(SEEDED, sid)
    wt = tempfile.mkdtemp(prefix="tzrs-confirm-", dir="/tmp")
    os.rmdir(wt)
    ran, ok = [], True
    cfgs = ["", "--no-default-features --features alloc", "--no-default-features"]
    try:
        rc, out = sh(f"git -C /repo worktree add --detach {wt} HEAD")
        assert rc == 0, out
        os.makedirs(os.path.join(wt, "tests"), exist_ok=True)
        shutil.copy(os.path.join(src, "demo.rs"), os.path.join(wt, "tests", "demo.rs"))
        def run(cmd):
            rc, out = sh(cmd, cwd=wt)
            tail = [l for l in out.strip().splitlines() if l.startswith("test result")][:3]
            ran.append({"cmd": cmd, "rc": rc, "tail": tail})
            return rc, out
        pristine = [run(f"cargo test --offline {c} --test demo")[0] for c in cfgs]
        ok &= pristine[0] == 0  # a demo that needs alloc cannot be built in the bare configuration: only the default one is required
        rc, _ = run(f"git apply {os.path.join(src, 'patch.diff')}")
        ok &= rc == 0
        builds = [run(f"cargo build --offline {c}")[0] for c in cfgs]
        rc, out = run("cargo test --offline --lib")
        ok &= rc == 0 and "42 passed" in out
        rc, _ = run("cargo test --offline --doc")
        ok &= rc == 0
        fails = [run(f"cargo test --offline {c} --test demo")[0] != 0 and pristine[i] == 0 for i, c in enumerate(cfgs)]
        ok &= any(fails) or any(b != 0 for b in builds[1:])
        ok &= builds[0] == 0
    finally:
        sh(f"git -C /repo worktree remove --force {wt}")
        shutil.rmtree(wt, ignore_errors=True)
    if not ok:
        print(f"NOT CONFIRMED {sid}:")
        print(json.dumps(ran, indent=1))
        return 1
    os.makedirs(dst, exist_ok=True)
    for f in ("patch.diff", "demo.rs"):
        shutil.copy(os.path.join(src, f), os.path.join(dst, f))
    meta = {}
    try:
        meta = json.load(open(os.path.join(src, "meta.json")))
    except Exception:
        pass
    json.dump({"id": sid, "property": prop, "summary": meta.get("summary", ""), "needs": meta.get("needs", ""), "witness": meta.get("witness", ""),
               "how_to_run_demo": meta.get("how_to_run_demo", ""), "origin": "independent sub-agent given only the property text and a scratch worktree",
               "author_ran": meta.get("ran", []), "confirmed": ran, "detected_by": {}}, open(os.path.join(dst, "meta.json"), "w"), indent=1)
    print(f"confirmed and stored {sid}")
    return 0


def do_import(src, sid, prop):
    dst = os.path.join(SEEDED, sid)
    wt = tempfile.mkdtemp(prefix="tzrs-confirm-", dir="/tmp")
    os.rmdir(wt)
    ran = []
    ok = True
    try:
        rc, out = sh(f"git -C /repo worktree add --detach {wt} HEAD")
        assert rc == 0, out
        patch = os.path.join(src, "patch.diff")
        demo = os.path.join(src, "demo.rs")
        os.makedirs(os.path.join(wt, "tests"), exist_ok=True)
        shutil.copy(demo, os.path.join(wt, "tests", "demo.rs"))
        def step(cmd, expect_ok):
            nonlocal ok
            rc, out = sh(cmd, cwd=wt)
            good = (rc == 0) == expect_ok
            tail = [l for l in out.strip().splitlines() if l.startswith("test result") or "error" in l.lower()][:4]
            ran.append({"cmd": cmd, "rc": rc, "as_expected": good, "tail": tail})
            if not good:
                ok = False
            return rc, out
        step("cargo test --offline --test demo", True)          # pristine: demo passes
        step(f"git apply {patch}", True)
        step("cargo build --offline", True)
        step("cargo build --offline --no-default-features", True)
        step("cargo build --offline --no-default-features --features alloc", True)
        rc, out = step("cargo test --offline --lib", True)
        if "42 passed" not in out:
            ok = False
            ran.append({"note": "lib tests did not report 42 passed"})
        step("cargo test --offline --doc", True)
        step("cargo test --offline --test demo", False)         # patched: demo fails
    finally:
        sh(f"git -C /repo worktree remove --force {wt}")
        shutil.rmtree(wt, ignore_errors=True)
    if not ok:
        print(f"NOT CONFIRMED {sid}:")
        print(json.dumps(ran, indent=1))
        return 1
    os.makedirs(dst, exist_ok=True)
    shutil.copy(os.path.join(src, "patch.diff"), os.path.join(dst, "patch.diff"))
    shutil.copy(os.path.join(src, "demo.rs"), os.path.join(dst, "demo.rs"))
    meta = {}
    mp = os.path.join(src, "meta.json")
    if os.path.exists(mp):
        try:
            meta = json.load(open(mp))
        except Exception:
            meta = {"raw": open(mp).read()}
    out = {
        "id": sid,
        "property": prop,
        "summary": meta.get("summary", ""),
        "needs": meta.get("needs", ""),
        "witness": meta.get("witness", ""),
        "origin": "independent sub-agent given only the property text and a scratch worktree",
        "author_ran": meta.get("ran", []),
        "confirmed": ran,
        "detected_by": {},
    }
    json.dump(out, open(os.path.join(dst, "meta.json"), "w"), indent=1)
    print(f"confirmed and stored {sid}")
    return 0


def do_detect(sid, props):
    d = os.path.join(SEEDED, sid)
    meta = json.load(open(os.path.join(d, "meta.json")))
    if not props:
        props = [meta["property"]]
    rc, out = sh("git -C /repo status --porcelain --untracked-files=no")
    if out.strip():
        print("/repo is dirty, refusing")
        return 2
    rc, out = sh(f"git -C /repo apply {os.path.join(d, 'patch.diff')}")
    if rc != 0:
        print(out)
        return 2
    try:
        for prop in props:
            t0 = time.time()
            rc, out = sh(f"./check {prop} quick", cwd=VERIF, timeout=3600)
            viol = [l for l in out.splitlines() if l.startswith("VIOLATION")]
            verdict = "detected" if (rc == 1 and viol) else ("missed" if rc == 0 else f"machinery rc={rc}")
            meta["detected_by"][prop] = {"verdict": verdict, "rc": rc, "violation_lines": len(viol), "wall_s": round(time.time() - t0, 1), "tier": "quick"}
            print(f"{sid} vs {prop}: {verdict} ({len(viol)} VIOLATION lines, {time.time()-t0:.0f}s)")
            if verdict.startswith("machinery"):
                print(out[-1500:])
    finally:
        sh("git -C /repo checkout -- .")
    json.dump(meta, open(os.path.join(d, "meta.json"), "w"), indent=1)
    return 0


def do_detect_copy(sid, props):
    """regression without touching /repo: the seed is applied to a scratch copy and ./check runs with VERIF_REPO pointing to
    it (own target / evidence / replay directories under /tmp/tzrs-seedreg); records the verdict under detected_by_copy"""
    d = os.path.join(SEEDED, sid)
    meta = json.load(open(os.path.join(d, "meta.json")))
    if not props:
        props = [meta["property"]]
    work = os.environ.get("SEEDREG_DIR", "/tmp/tzrs-seedreg")
    copy = os.path.join(work, "repo")
    shutil.rmtree(copy, ignore_errors=True)
    os.makedirs(copy)
    # the COMMITTED tree of /repo (its working tree may be patched by a concurrent `detect`)
    rc, out = sh(f"git -C /repo archive HEAD src Cargo.toml | tar -x -C {copy}")
    if rc != 0 or not os.path.isdir(os.path.join(copy, "src")):
        print(out)
        return 2
    if os.path.exists("/repo/Cargo.lock"):
        shutil.copy("/repo/Cargo.lock", os.path.join(copy, "Cargo.lock"))
    sh("git init -q .", cwd=copy)
    rc, out = sh(f"git apply {os.path.join(d, 'patch.diff')}", cwd=copy)
    if rc != 0:
        print(out)
        return 2
    env = dict(ENV, VERIF_REPO=copy, VERIF_TARGET_DIR=os.path.join(work, "target"), VERIF_EVIDENCE_DIR=os.path.join(work, "evidence"), VERIF_REPLAY_DIR=os.path.join(work, "replay"))
    for x in ("evidence", "replay"):
        os.makedirs(os.path.join(work, x), exist_ok=True)
    for prop in props:
        t0 = time.time()
        p = subprocess.run(f"./check {prop} quick", shell=True, cwd=VERIF, env=env, stdout=subprocess.PIPE, stderr=subprocess.STDOUT, text=True, timeout=3600)
        viol = [l for l in p.stdout.splitlines() if l.startswith("VIOLATION")]
        verdict = "detected" if (p.returncode == 1 and viol) else ("missed" if p.returncode == 0 else f"machinery rc={p.returncode}")
        meta.setdefault("detected_by_copy", {})[prop] = {"verdict": verdict, "wall_s": round(time.time() - t0, 1)}
        print(f"{sid} vs {prop} (copy): {verdict} ({len(viol)} VIOLATION lines, {time.time()-t0:.0f}s)", flush=True)
    return 0


def table_text():
    rows = []
    for sid in sorted(os.listdir(SEEDED)):
        mp = os.path.join(SEEDED, sid, "meta.json")
        if not os.path.exists(mp):
            continue
        m = json.load(open(mp))
        det = ", ".join(f"{p}: {v['verdict']}" for p, v in sorted(m.get("detected_by", {}).items()))
        rows.append(f"| {sid} | {m['property']} | {m.get('summary','')[:110].replace('|','/')} | {det} |")
    return "| seed | breaks | change | checks (quick tier) |\n|---|---|---|---|\n" + "\n".join(rows)


def do_table():
    print(table_text())


def do_design():
    """rewrite the seed table of DESIGN.md (between the markers)"""
    path = os.path.join(VERIF, "DESIGN.md")
    text = open(path).read()
    begin, end = "<!-- SEED TABLE BEGIN -->", "<!-- SEED TABLE END -->"
    if "SEED_TABLE_PLACEHOLDER" in text:
        text = text.replace("SEED_TABLE_PLACEHOLDER", begin + "\n" + end)
    a, b = text.index(begin), text.index(end)
    text = text[:a] + begin + "\n" + table_text() + "\n" + text[b:]
    open(path, "w").write(text)
    print("DESIGN.md seed table updated")


if __name__ == "__main__" and len(sys.argv) >= 3 and sys.argv[1] == "detect-copy":
    sys.exit(do_detect_copy(sys.argv[2], sys.argv[3:]))
if __name__ == "__main__":
    a = sys.argv
    if len(a) >= 5 and a[1] == "import":
        sys.exit(do_import(a[2], a[3], a[4]))
    if len(a) >= 5 and a[1] == "import-cfg":
        sys.exit(do_import_cfg(a[2], a[3], a[4]))
    if len(a) >= 3 and a[1] == "detect":
        sys.exit(do_detect(a[2], a[3:]))
    if len(a) >= 2 and a[1] == "table":
        do_table()
        sys.exit(0)
    if len(a) >= 2 and a[1] == "design":
        do_design()
        sys.exit(0)
    print(__doc__)
    sys.exit(2)
