#!/usr/bin/env python3
"""Systematic mutation campaign against a scratch COPY of /repo (never /repo itself).

  tools/mutate.py run [--files a.rs,b.rs] [--limit N] [--out results.json]
  tools/mutate.py report results.json

For every mutation site (comparison flips, && <-> ||, + <-> -, integer literal +-1, true <-> false, swapped
start/end identifiers) in the non-test code of src/:
  1. the mutant must compile and pass the crate's own unit tests (`cargo test --offline --lib`) - otherwise it is
     "stillborn" / "killed by the pinned suite" and of no interest here;
  2. the quick checks mapped to the mutated file are run against the copy (VERIF_REPO override) until one reports a
     VIOLATION ("killed by <Cnn>"); a mutant no check kills is a "survivor" to be analysed by hand (equivalent mutant
     or a gap in the machinery).
Everything lives under /tmp/tzrs-mutate and is removed by `tools/mutate.py clean`.
"""
import json
import os
import re
import shutil
import subprocess
import sys
import time

VERIF = os.path.dirname(os.path.dirname(os.path.abspath(__file__)))
WORK = "/tmp/tzrs-mutate"
COPY = os.path.join(WORK, "repo")
ENV = dict(os.environ, CARGO_NET_OFFLINE="true", CARGO_TERM_COLOR="never")
OPSET = "v1"
CHECK_ENV = dict(ENV, VERIF_REPO=COPY, VERIF_TARGET_DIR=os.path.join(WORK, "target"), VERIF_EVIDENCE_DIR=os.path.join(WORK, "evidence"), VERIF_REPLAY_DIR=os.path.join(WORK, "replay"))

# file -> checks to try, cheapest / most relevant first
CHECKS = {
    "src/datetime/mod.rs": ["C01", "C02", "C18", "C14", "C16", "C05", "C07"],
    "src/datetime/find.rs": ["C05", "C06", "C17", "C14", "C12", "C07"],
    "src/timezone/mod.rs": ["C03", "C13", "C12", "C20", "C05", "C08", "C15", "C07"],
    "src/timezone/rule.rs": ["C04", "C11", "C05", "C06", "C09", "C07"],
    "src/parse/tz_file.rs": ["C08", "C07", "C10", "C09"],
    "src/parse/tz_string.rs": ["C09", "C08", "C20"],
    "src/parse/utils.rs": ["C09", "C08"],
    "src/utils/const_fns.rs": ["C03", "C12", "C01", "C16", "C04"],
    "src/constants/mod.rs": ["C01", "C02", "C04", "C11", "C13", "C03"],
}

OPS = [
    (r"<=", ["<", "=="]), (r">=", [">", "=="]), (r"(?<![<>=!-])<(?![<=])", ["<="]), (r"(?<![<>=!-])>(?![>=])", [">="]),
    (r"==", ["!="]), (r"!=", ["=="]), (r"&&", ["||"]), (r"\|\|", ["&&"]),
    (r"(?<=[\w\)\]] )\+(?= [\w\(])", ["-"]), (r"(?<=[\w\)\]] )-(?= [\w\(])", ["+"]),
    (r"\btrue\b", ["false"]), (r"\bfalse\b", ["true"]),
    (r"\bdst_start_time_in_utc\b", ["dst_end_time_in_utc"]), (r"\bdst_end_time_in_utc\b", ["dst_start_time_in_utc"]),
    (r"\bunix_time_before\b", ["unix_time_after"]), (r"\bunix_leap_time_before\b", ["unix_time_before"]),
    (r"\bcurrent_year - 1\b", ["current_year"]), (r"\bcurrent_year \+ 1\b", ["current_year"]),
]
# second operator set (--ops v2): forced conditions, saturating/checked -> wrapping, min <-> max, dropped unary minus,
# dropped `?`-less early returns are covered by forcing their condition
OPS_V2 = [
    (r"\bsaturating_(add|sub|mul)\b", None), (r"\bmin\(", ["max("]), (r"\bmax\(", ["min("]),
    (r"(?<=[(,=] )-(?=[a-z_(])", [""]), (r"\.abs\(\)", [""]), (r"\.unsigned_abs\(\)", [" as u32"]),
    (r"\bi64::MAX\b", ["i64::MIN"]), (r"\bi64::MIN\b", ["i64::MAX"]), (r"\bi32::MAX\b", ["i32::MIN"]), (r"\bi32::MIN\b", ["i32::MAX"]),
    (r"\bDAYS_PER_WEEK\b", ["6"]), (r"\bSECONDS_PER_DAY\b", ["SECONDS_PER_HOUR"]), (r"\bas i64\b", ["as i32 as i64"]), (r"\bas usize\b", ["as u8 as usize"]),
]
IF_LINE = re.compile(r"^(\s*)(\} else )?if (?!let\b)(.+) \{\s*$")

INT = re.compile(r"(?<![\w.])(\d+)(?![\w.])")


def sh(cmd, cwd=None, env=ENV, timeout=3600):
    """run in its own process group; on timeout the whole group is killed and rc = -9 is returned (a mutant may loop for ever)"""
    import signal
    p = subprocess.Popen(cmd, shell=True, cwd=cwd, env=env, stdout=subprocess.PIPE, stderr=subprocess.STDOUT, text=True, start_new_session=True)
    try:
        out, _ = p.communicate(timeout=timeout)
        return p.returncode, out
    except subprocess.TimeoutExpired:
        try:
            os.killpg(p.pid, signal.SIGKILL)
        except ProcessLookupError:
            pass
        p.communicate()
        return -9, "TIMEOUT"


def prepare():
    shutil.rmtree(COPY, ignore_errors=True)
    os.makedirs(COPY)
    for item in ("src", "Cargo.toml", "Cargo.lock"):
        src = os.path.join("/repo", item)
        (shutil.copytree if os.path.isdir(src) else shutil.copy)(src, os.path.join(COPY, item))
    for d in ("evidence", "replay"):
        os.makedirs(os.path.join(WORK, d), exist_ok=True)


def code_lines(path):
    """(index, line) of non-test, non-comment code lines"""
    out = []
    lines = open(path).read().split("\n")
    for i, l in enumerate(lines):
        if l.strip().startswith("#[cfg(test)]") and i + 1 < len(lines) and "mod tests" in lines[i + 1]:
            break
        t = l.strip()
        if not t or t.startswith("//") or t.startswith("#[") or t.startswith("use ") or t.startswith("pub use "):
            continue
        out.append((i, l))
    return lines, out


def mutants_v2(path):
    lines, code = code_lines(path)
    res = []
    for i, l in code:
        body = l.split("//")[0]
        m = IF_LINE.match(body)
        if m:
            a, b = m.start(3), m.end(3)
            res.append((i, a, b, "false"))
            res.append((i, a, b, "true"))
        for pat, repls in OPS_V2:
            for mm in re.finditer(pat, body):
                if repls is None:
                    res.append((i, mm.start(), mm.end(), "wrapping_" + mm.group(1)))
                else:
                    for r in repls:
                        res.append((i, mm.start(), mm.end(), r))
    return lines, res


def mutants_of(path):
    if OPSET == "v2":
        return mutants_v2(path)
    lines, code = code_lines(path)
    res = []
    for i, l in code:
        body = l.split("//")[0]
        for pat, repls in OPS:
            for m in re.finditer(pat, body):
                # skip generics / arrows / lifetimes
                ctx = body[max(0, m.start() - 2):m.end() + 2]
                if "->" in ctx or "=>" in ctx or "'" in ctx:
                    continue
                if pat in (r"(?<![<>=!-])<(?![<=])", r"(?<![<>=!-])>(?![>=])") and (re.search(r"[A-Za-z_:]<", body[:m.end()][-3:]) or "::<" in body or re.search(r"<[A-Z&']", body[m.start():m.start() + 3]) or body[m.start() - 1:m.start()] not in (" ",)):
                    continue
                for r in repls:
                    res.append((i, m.start(), m.end(), r))
        for m in INT.finditer(body):
            v = int(m.group(1))
            if v > 10**7 or "[" in body[max(0, m.start() - 1):m.start()] and "]" in body[m.end():m.end() + 1]:
                continue
            for r in ([v + 1, v - 1] if v > 0 else [1]):
                res.append((i, m.start(), m.end(), str(r)))
    return lines, res


def run(files, limit, out_path, stride, start=0):
    prev = json.load(open(out_path))[:start] if start and os.path.exists(out_path) else []
    prepare()
    results = prev
    t_start = time.time()
    all_files = [f for f in CHECKS if not files or f in files]
    todo = []
    for f in all_files:
        lines, ms = mutants_of(os.path.join("/repo", f))
        for k, m in enumerate(ms):
            todo.append((f, lines, m))
    todo = todo[::stride]
    if limit:
        todo = todo[:limit]
    print(f"{len(todo)} mutants to try", flush=True)
    for n, (f, lines, (i, a, b, r)) in enumerate(todo):
        if n < start:
            continue
        path = os.path.join(COPY, f)
        new = list(lines)
        new[i] = lines[i][:a] + r + lines[i][b:]
        open(path, "w").write("\n".join(new))
        desc = {"file": f, "line": i + 1, "from": lines[i].strip(), "to": new[i].strip()}
        rc, out = sh("cargo test --offline --lib 2>&1 | tail -30", cwd=COPY, timeout=600)
        if rc == -9:
            desc["status"] = "killed_by_pinned_suite"
            desc["note"] = "pinned suite does not terminate"
        elif "error" in out and "test result" not in out:
            desc["status"] = "stillborn"
        elif "test result: ok" not in out:
            desc["status"] = "killed_by_pinned_suite"
        else:
            desc["status"] = "survivor"
            for c in CHECKS[f]:
                t0 = time.time()
                rc, o = sh(f"./check {c} quick", cwd=VERIF, env=CHECK_ENV, timeout=900)
                if rc == -9:
                    # the check did not finish within 15 minutes (quick tiers take < 1 min): the mutant makes the subject loop
                    desc["status"] = f"hang_seen_by_{c}"
                    break
                if rc == 1 and "VIOLATION" in o:
                    desc["status"] = f"killed_by_{c}"
                    desc["check_seconds"] = round(time.time() - t0, 1)
                    break
                if rc >= 2:
                    desc.setdefault("machinery", []).append({c: o[-300:]})
        results.append(desc)
        open(path, "w").write("\n".join(lines))
        print(f"[{n+1}/{len(todo)}] {f}:{i+1} {desc['status']}  | {desc['from'][:70]}  ->  {desc['to'][:70]}", flush=True)
        if (n + 1) % 10 == 0:
            json.dump(results, open(out_path, "w"), indent=1)
    json.dump(results, open(out_path, "w"), indent=1)
    print(f"done in {time.time()-t_start:.0f}s")
    report(out_path)


def report(path):
    rs = json.load(open(path))
    from collections import Counter
    c = Counter(r["status"].split("_by_")[0] if r["status"].startswith(("killed_by_C", "hang_seen_by_")) else r["status"] for r in rs)
    byc = Counter(r["status"] for r in rs if r["status"].startswith("killed_by_C"))
    print(dict(c))
    print("kills per check:", dict(byc))
    print("survivors:")
    for r in rs:
        if r["status"] == "survivor":
            print(f"  {r['file']}:{r['line']}  {r['from'][:90]}  ->  {r['to'][:90]}")


if __name__ == "__main__":
    a = sys.argv
    if len(a) >= 2 and a[1] == "run":
        files, limit, out, stride, start = None, 0, os.path.join(WORK, "results.json"), 1, 0
        i = 2
        while i < len(a):
            if a[i] == "--files":
                files = a[i + 1].split(",")
            elif a[i] == "--limit":
                limit = int(a[i + 1])
            elif a[i] == "--out":
                out = a[i + 1]
            elif a[i] == "--stride":
                stride = int(a[i + 1])
            elif a[i] == "--start":
                start = int(a[i + 1])
            elif a[i] == "--ops":
                OPSET = a[i + 1]
            i += 2
        run(files, limit, out, stride, start)
    elif len(a) >= 3 and a[1] == "report":
        report(a[2])
    elif len(a) >= 2 and a[1] == "clean":
        shutil.rmtree(WORK, ignore_errors=True)
    elif len(a) >= 2 and a[1] == "count":
        for f in CHECKS:
            print(f, len(mutants_of(os.path.join("/repo", f))[1]))
    else:
        print(__doc__)
