#!/usr/bin/env python3
"""Print the measured size of every check from the evidence files (used to refresh DESIGN.md section 0).

  tools/summary.py [evidence_dir]
"""
import glob
import json
import os
import sys

d = sys.argv[1] if len(sys.argv) > 1 else os.path.join(os.path.dirname(os.path.dirname(os.path.abspath(__file__))), "evidence")
print("| id | engine | tier | evaluations | non-trivial | wall (s) | sub-sweeps |")
print("|---|---|---|---|---|---|---|")
for f in sorted(glob.glob(os.path.join(d, "C*.json"))):
    e = json.load(open(f))
    c = e.get("coverage", {})
    subs = ", ".join(sorted(c.get("sub_sweeps", {}).keys()))
    ev = c.get("evaluations")
    print(f"| {e.get('property_id')} | {e.get('engine')} | {e.get('tier')} | {ev:.3g} | {c.get('distinct_nontrivial', 0):.3g} | {e.get('wall_s')} | {subs} |" if isinstance(ev, (int, float)) else f"| {e.get('property_id')} | {e.get('engine')} | {e.get('tier')} | {ev} | | {e.get('wall_s')} | {subs} |")
