//! Engine `dtinv`: C14 zoned date-time invariant over every construction path, projection chains, comparisons.
//! Also runs the search sweeps of `find` as a monitor (every DateTime a search returns is checked).

use crate::cal::{MAX_UNIX_TIME, MIN_UNIX_TIME};
use crate::common::*;
use crate::conv::*;
use crate::find::{dt_invariant, run_sweeps, Ctx, Prop};
use crate::rulealpha::Tables;
use rayon::prelude::*;
use refmodel::cal::Cycle;
use refmodel::rule::{Day, RuleSpec};
use refmodel::zone::{MRule, MType, MZone};
use serde_json::{json, Value};
use tz::timezone::{LocalTimeType, TimeZoneRef, TransitionRule};
use tz::{DateTime, TzError, UtcDateTime};

#[derive(Default, Clone, Copy)]
struct Tally {
    evals: u64,
    nontrivial: u64,
    digest: u64,
}
impl Tally {
    fn merge(mut self, o: Tally) -> Tally {
        self.evals += o.evals;
        self.nontrivial += o.nontrivial;
        self.digest = self.digest.wrapping_add(o.digest);
        self
    }
}

fn in_range(x: i128) -> bool {
    x >= MIN_UNIX_TIME as i128 && x <= MAX_UNIX_TIME as i128
}

/// expected fields of instant t seen at offset off
fn expect_fields(cyc: &Cycle, t: i64, off: i32) -> Option<(i32, u8, u8, u8, u8, u8)> {
    let l = t as i128 + off as i128;
    if !in_range(l) {
        return None;
    }
    let (c, h, mi, s) = cyc.gmtime(l as i64);
    Some((c.year as i32, c.month, c.mday, h, mi, s))
}

fn fields_match(d: &DateTime, f: (i32, u8, u8, u8, u8, u8)) -> bool {
    (d.year(), d.month(), d.month_day(), d.hour(), d.minute(), d.second()) == f
}

/// timestamp routes do not validate the nanosecond argument: whatever is passed is kept, the instant and the fields are those
/// of the second count alone (nanoseconds >= 10^9 included)
fn check_raw_ns(cyc: &Cycle, t: i64, ns: u32, off: i32, rec: &Recorder, tl: &mut Tally) {
    let ltt = LocalTimeType::new(off, false, Some(b"XYZ")).unwrap();
    let types = [ltt];
    let zr = TimeZoneRef::new(&[], &types, &[], &None).unwrap();
    let exp = expect_fields(cyc, t, off);
    let case = |via: &str| json!({"kind":"raw_ns","t":t,"ns":ns,"off":off,"via":via});
    let mut routes: Vec<(&str, Result<DateTime, TzError>)> = vec![("from_timespec_and_local", DateTime::from_timespec_and_local(t, ns, ltt)), ("from_timespec", DateTime::from_timespec(t, ns, zr))];
    if let Ok(u) = UtcDateTime::from_timespec(t, ns) {
        if u.nanoseconds() != ns || u.unix_time() != t {
            rec.violation("raw_nanoseconds", case("UtcDateTime::from_timespec"), json!({"unix_time": t, "ns": ns}), json!(format!("{u:?}")));
        }
        routes.push(("UtcDateTime::project", u.project(zr)));
    }
    if let Ok(d0) = DateTime::from_timespec(t, ns, TimeZoneRef::utc()) {
        routes.push(("DateTime::project", d0.project(zr)));
    }
    for (via, r) in routes {
        tl.evals += 1;
        match (&exp, r) {
            (Some(f), Ok(d)) => {
                if !(fields_match(&d, *f) && d.unix_time() == t && d.nanoseconds() == ns && d.total_nanoseconds() == t as i128 * 1_000_000_000 + ns as i128) {
                    rec.violation("raw_nanoseconds", case(via), json!({"fields": format!("{f:?}"), "unix_time": t, "ns": ns}), json!(format!("{d:?}")));
                }
            }
            (None, Err(TzError::OutOfRange)) => tl.nontrivial += 1,
            (e, r) => rec.violation("raw_nanoseconds", case(via), json!(format!("{e:?}")), json!(format!("{r:?}"))),
        }
    }
}

fn instants() -> Vec<i64> {
    let mut v = vec![];
    // second counts at which the nanosecond count crosses the i64 / u64 limits
    for base in [9_223_372_036i64, -9_223_372_037, 18_446_744_073, 4_294_967_296, 4_294_967, 2_147_483] {
        for d in -1..=1 {
            v.push(base + d);
        }
    }
    for base in [0i64, MIN_UNIX_TIME, MAX_UNIX_TIME, 951868800, 1709251200, -62167219200, i32::MAX as i64, i32::MIN as i64, 1_000_000_000_000] {
        for d in [-86400i64, -3600, -61, -60, -59, -1, 0, 1, 59, 60, 61, 3599, 3600, 86399, 86400] {
            if let Some(x) = base.checked_add(d) {
                v.push(x);
            }
        }
    }
    for d in [0i64, 1, 2, 1 << 31, 1 << 32] {
        v.push(i64::MIN + d);
        v.push(i64::MAX - d);
    }
    v.push(MIN_UNIX_TIME - i32::MAX as i64);
    v.push(MAX_UNIX_TIME + i32::MAX as i64);
    v.push(MIN_UNIX_TIME + i32::MAX as i64);
    v.push(MAX_UNIX_TIME - i32::MAX as i64);
    v.sort();
    v.dedup();
    v
}

fn offsets() -> Vec<i32> {
    let mut v = vec![i32::MIN + 1, i32::MAX, 0];
    for m in [1i32, 59, 60, 3599, 3600, 86399, 86400, 43200, 50400, 1 << 20, 1 << 30] {
        v.push(m);
        v.push(-m);
    }
    v.sort();
    v.dedup();
    v
}

/// all construction paths for (t, ns, off)
fn check_paths(cyc: &Cycle, t: i64, ns: u32, off: i32, rec: &Recorder, tl: &mut Tally) {
    let ltt = LocalTimeType::new(off, off % 2 != 0, Some(b"XYZ")).unwrap();
    let types = [ltt];
    let zr = TimeZoneRef::new(&[], &types, &[], &None).unwrap();
    let exp = expect_fields(cyc, t, off);
    let case = |via: &str| json!({"kind":"paths","t":t,"ns":ns,"off":off,"via":via});
    let total = t as i128 * 1_000_000_000 + ns as i128;
    let mut judge = |via: &str, r: Result<DateTime, TzError>, tl: &mut Tally| {
        tl.evals += 1;
        match (&exp, r) {
            (Some(f), Ok(d)) => {
                let ok = fields_match(&d, *f) && d.unix_time() == t && d.nanoseconds() == ns && d.local_time_type() == &ltt && dt_invariant(cyc, &d).is_ok() && d.total_nanoseconds() == total;
                if !ok {
                    rec.violation("paths", case(via), json!({"fields": format!("{f:?}"), "unix_time": t, "ns": ns}), json!(format!("{d:?}")));
                }
                tl.digest = tl.digest.wrapping_add((d.year() as u64).wrapping_mul(17).wrapping_add(d.year_day() as u64).wrapping_add(t as u64));
            }
            (None, Err(TzError::OutOfRange)) => tl.nontrivial += 1,
            (e, r) => rec.violation("paths", case(via), json!(format!("{e:?}")), json!(format!("{r:?}"))),
        }
    };
    judge("from_timespec_and_local", DateTime::from_timespec_and_local(t, ns, ltt), tl);
    judge("from_timespec", DateTime::from_timespec(t, ns, zr), tl);
    judge("from_total_nanoseconds_and_local", DateTime::from_total_nanoseconds_and_local(total, ltt), tl);
    judge("from_total_nanoseconds", DateTime::from_total_nanoseconds(total, zr), tl);
    // projection from UTC date-time (needs t itself in range)
    if in_range(t as i128) {
        let u = UtcDateTime::from_timespec(t, ns).unwrap();
        judge("UtcDateTime::project", u.project(zr), tl);
        if let Ok(d0) = DateTime::from_timespec(t, ns, TimeZoneRef::utc()) {
            judge("DateTime::project", d0.project(zr), tl);
        }
    }
    // construction from fields: refused iff not a real date or instant outside the supported range
    if let Some(f) = exp {
        let r = DateTime::new(f.0, f.1, f.2, f.3, f.4, f.5, ns, ltt);
        tl.evals += 1;
        match r {
            Ok(d) => {
                let ok = in_range(t as i128) && fields_match(&d, f) && d.unix_time() == t && d.nanoseconds() == ns && dt_invariant(cyc, &d).is_ok();
                if !ok {
                    rec.violation("paths", case("DateTime::new"), json!({"ok": in_range(t as i128), "unix_time": t}), json!(format!("{d:?}")));
                }
                // all paths agree: equal and not ordered
                if let Ok(d2) = DateTime::from_timespec_and_local(t, ns, ltt) {
                    if !(d == d2 && d.partial_cmp(&d2) == Some(core::cmp::Ordering::Equal)) {
                        rec.violation("paths", case("new == from_timespec_and_local"), json!("equal"), json!("different"));
                    }
                }
                // second 60 stands for the first second of the next minute
                if f.5 == 59 && t < MAX_UNIX_TIME {
                    match DateTime::new(f.0, f.1, f.2, f.3, f.4, 60, ns, ltt) {
                        Ok(l) => {
                            if l.unix_time() != t + 1 || l.second() != 60 || dt_invariant(cyc, &l).is_err() {
                                rec.violation("paths", case("DateTime::new second 60"), json!({"unix_time": t + 1}), json!(format!("{l:?}")));
                            }
                        }
                        Err(e) => rec.violation("paths", case("DateTime::new second 60"), json!("Ok"), json!(err_name(&e))),
                    }
                }
            }
            Err(TzError::OutOfRange) if !in_range(t as i128) => tl.nontrivial += 1,
            Err(e) => rec.violation("paths", case("DateTime::new"), json!({"ok": in_range(t as i128)}), json!(err_name(&e))),
        }
    }
}

fn zones(cyc: &Cycle) -> Vec<MZone> {
    let us = RuleSpec { std_off: -18000, dst_off: -14400, start: Day::M(3, 2, 0), start_time: 7200, end: Day::M(11, 1, 0), end_time: 7200 };
    let (e, d) = (MType::new(-18000, false, Some("EST")), MType::new(-14400, true, Some("EDT")));
    vec![
        MZone { trans: vec![], types: vec![MType::new(0, false, None)], leaps: vec![], rule: None },
        MZone { trans: vec![], types: vec![MType::new(50400, false, Some("+14"))], leaps: vec![], rule: None },
        MZone { trans: vec![], types: vec![MType::new(i32::MIN + 1, true, Some("MIN"))], leaps: vec![], rule: None },
        MZone { trans: vec![(0, 1), (1_000_000_000, 0), (1_700_000_000, 1)], types: vec![MType::new(3600, false, Some("CET")), MType::new(7200, true, Some("CEST"))], leaps: vec![], rule: Some(MRule::Fixed(MType::new(7200, true, Some("CEST")))) },
        MZone { trans: vec![], types: vec![e, d], leaps: vec![], rule: Some(MRule::alt(cyc, us, e, d)) },
        MZone { trans: vec![(86400, 1)], types: vec![MType::new(0, false, Some("AAA")), MType::new(-3600, false, Some("BBB"))], leaps: vec![(78_796_800, 1), (94_694_401, 2)], rule: Some(MRule::Fixed(MType::new(-3600, false, Some("BBB")))) },
    ]
}

/// projection chains a -> b -> c keep (unix_time, ns); fields and type follow the target zone's clock
fn sweep_chains(cyc: &Cycle, rec: &Recorder) -> Tally {
    let mz = zones(cyc);
    let iz: Vec<ImplZone> = mz.iter().map(|z| ImplZone::from_model(z).unwrap()).collect();
    let ts: Vec<i64> = instants().into_iter().filter(|&t| in_range(t as i128)).collect();
    let n = mz.len();
    ts.par_iter()
        .map(|&t| {
            let mut tl = Tally::default();
            let r = guard(|| {
                let mut tl = Tally::default();
                for a in 0..n {
                    for b in 0..n {
                        for c in 0..n {
                            let ns = ((t as u64).wrapping_mul(2654435761) % 1_000_000_000) as u32;
                            let mut cur: Result<DateTime, TzError> = DateTime::from_timespec(t, ns, iz[a].zref().unwrap());
                            for (step, &k) in [a, b, c].iter().enumerate() {
                                if step > 0 {
                                    cur = match cur {
                                        Ok(d) => d.project(iz[k].zref().unwrap()),
                                        Err(e) => Err(e),
                                    };
                                }
                                tl.evals += 1;
                                let exp = mz[k].forward(cyc, t).ok().and_then(|ty| expect_fields(cyc, t, ty.off).map(|f| (f, *ty)));
                                match (&exp, &cur) {
                                    (Some((f, ty)), Ok(d)) => {
                                        if !(fields_match(d, *f) && d.unix_time() == t && d.nanoseconds() == ns && same_type(d.local_time_type(), ty) && dt_invariant(cyc, d).is_ok()) {
                                            rec.violation("chains", json!({"kind":"chain","t":t,"zones":[a,b,c],"step":step}), json!({"fields": format!("{f:?}"), "type": mtype_json(ty)}), json!(format!("{d:?}")));
                                        }
                                    }
                                    (None, Err(_)) => {
                                        tl.nontrivial += 1;
                                        break;
                                    }
                                    (e, g) => {
                                        rec.violation("chains", json!({"kind":"chain","t":t,"zones":[a,b,c],"step":step}), json!(format!("{e:?}")), json!(format!("{g:?}")));
                                        break;
                                    }
                                }
                            }
                        }
                    }
                }
                tl
            });
            match r {
                Ok(t2) => tl = tl.merge(t2),
                Err(m) => rec.violation("chains", json!({"kind":"chain","t":t}), json!("no panic"), json!(m)),
            }
            tl
        })
        .reduce(Tally::default, Tally::merge)
}

/// equality and ordering depend only on (unix_time, ns): all pairs of a value set
fn sweep_pairs(rec: &Recorder) -> Tally {
    let mut vals: Vec<DateTime> = vec![];
    let ts = [-1i64, 0, 1, 1_000_000_000, MIN_UNIX_TIME + 50400, MAX_UNIX_TIME - 50400, 951868800];
    let nss = [0u32, 1, 999_999_999];
    let offs = [0i32, 3600, -3600, 50400, -50400, 1, -1];
    for &t in &ts {
        for &ns in &nss {
            for (k, &o) in offs.iter().enumerate() {
                let ltt = LocalTimeType::new(o, k % 2 == 0, Some(if k % 3 == 0 { b"AAA" } else { b"BBB" })).unwrap();
                if let Ok(d) = DateTime::from_timespec_and_local(t, ns, ltt) {
                    vals.push(d);
                }
            }
        }
    }
    // second-60 values: same instant as the next minute's second 0
    let l0 = LocalTimeType::utc();
    vals.push(DateTime::new(1969, 12, 31, 23, 59, 60, 0, l0).unwrap());
    vals.push(DateTime::new(1970, 1, 1, 0, 0, 0, 0, l0).unwrap());
    let mut tl = Tally::default();
    for a in &vals {
        for b in &vals {
            tl.evals += 1;
            let ka = (a.unix_time(), a.nanoseconds());
            let kb = (b.unix_time(), b.nanoseconds());
            let exp_eq = ka == kb;
            let exp_ord = ka.cmp(&kb);
            if exp_eq && a.local_time_type() != b.local_time_type() {
                tl.nontrivial += 1;
            }
            let ok = (a == b) == exp_eq && (a != b) == !exp_eq && a.partial_cmp(b) == Some(exp_ord) && (a < b) == (exp_ord == core::cmp::Ordering::Less) && (a >= b) == (exp_ord != core::cmp::Ordering::Less);
            if !ok {
                rec.violation("pairs", json!({"kind":"pair","a":format!("{a:?}"),"b":format!("{b:?}")}), json!({"eq": exp_eq, "ord": format!("{exp_ord:?}")}), json!({"eq": a == b, "ord": format!("{:?}", a.partial_cmp(b))}));
            }
        }
    }
    rec.sub("pairs", json!({"values": vals.len(), "pairs": tl.evals, "equal_instants_seen_from_different_zones": tl.nontrivial}));
    tl
}

/// DateTime::new refusals: not a real date, bad time fields, instant outside the supported range
fn sweep_new(cyc: &Cycle, rec: &Recorder) -> Tally {
    let mut tl = Tally::default();
    let offs = [0i32, 1, -1, 3600, -86400, i32::MAX, i32::MIN + 1];
    for &y in &[i32::MIN, i32::MIN + 1, -1, 0, 1900, 2023, 2024, i32::MAX - 1, i32::MAX] {
        for mo in [0u8, 1, 2, 4, 12, 13] {
            for d in [0u8, 1, 28, 29, 30, 31, 32] {
                for (h, mi, s) in [(0u8, 0u8, 0u8), (23, 59, 59), (23, 59, 60), (24, 0, 0), (0, 60, 0), (0, 0, 61)] {
                    for ns in [0u32, 999_999_999, 1_000_000_000] {
                        for &off in &offs {
                            tl.evals += 1;
                            let ltt = LocalTimeType::with_ut_offset(off).unwrap();
                            let valid = cyc.valid_date(y as i64, mo as i64, d as i64) && h <= 23 && mi <= 59 && s <= 60 && ns < 1_000_000_000;
                            let got = guard(|| DateTime::new(y, mo, d, h, mi, s, ns, ltt));
                            let case = json!({"kind":"new","y":y,"mo":mo,"d":d,"h":h,"mi":mi,"s":s,"ns":ns,"off":off});
                            let got = match got {
                                Ok(g) => g,
                                Err(m) => {
                                    rec.violation("new", case, json!("no panic"), json!(m));
                                    continue;
                                }
                            };
                            if !valid {
                                tl.nontrivial += 1;
                                if !matches!(got, Err(TzError::DateTime(_))) {
                                    rec.violation("new", case, json!("Err(DateTime(..))"), json!(format!("{got:?}")));
                                }
                                continue;
                            }
                            let l = cyc.timegm(y as i64, mo, d, h, mi, s);
                            let u = l as i128 - off as i128;
                            match got {
                                Ok(dt) => {
                                    if !(in_range(u) && dt.unix_time() as i128 == u && dt_invariant(cyc, &dt).is_ok()) {
                                        rec.violation("new", case, json!({"ok": in_range(u), "unix_time": u.to_string()}), json!(format!("{dt:?}")));
                                    }
                                }
                                Err(TzError::OutOfRange) if !in_range(u) => tl.nontrivial += 1,
                                Err(e) => rec.violation("new", case, json!({"ok": in_range(u)}), json!(err_name(&e))),
                            }
                        }
                    }
                }
            }
        }
    }
    // every year -2100..=2500 (and blocks at both ends of the i32 range) at the leap-sensitive dates
    let mut years: Vec<i32> = (-2100..=2500).collect();
    years.extend((0..450).map(|k| i32::MIN + k));
    years.extend((0..450).map(|k| i32::MAX - k));
    for y in years {
        for (mo, d) in [(2u8, 28u8), (2, 29), (2, 30), (3, 1), (4, 30), (4, 31), (12, 31)] {
            for off in [0i32, 3600, -86399] {
                tl.evals += 1;
                let ltt = LocalTimeType::with_ut_offset(off).unwrap();
                let valid = cyc.valid_date(y as i64, mo as i64, d as i64);
                let case = json!({"kind":"new","y":y,"mo":mo,"d":d,"h":12,"mi":30,"s":30,"ns":42,"off":off});
                match guard(|| DateTime::new(y, mo, d, 12, 30, 30, 42, ltt)) {
                    Err(m) => rec.violation("new", case, json!("no panic"), json!(m)),
                    Ok(got) => {
                        let u = if valid { cyc.timegm(y as i64, mo, d, 12, 30, 30) as i128 - off as i128 } else { 0 };
                        match got {
                            Ok(dt) => {
                                if !(valid && in_range(u) && dt.unix_time() as i128 == u && dt_invariant(cyc, &dt).is_ok()) {
                                    rec.violation("new", case, json!({"valid_date": valid, "unix_time": u.to_string()}), json!(format!("{dt:?}")));
                                }
                            }
                            Err(TzError::DateTime(_)) if !valid => tl.nontrivial += 1,
                            Err(TzError::OutOfRange) if valid && !in_range(u) => tl.nontrivial += 1,
                            Err(e) => rec.violation("new", case, json!({"valid_date": valid}), json!(err_name(&e))),
                        }
                    }
                }
            }
        }
    }
    rec.sub("new_refusals", json!({"evaluations": tl.evals, "refused_or_out_of_range": tl.nontrivial}));
    tl
}

pub fn run(args: &Args) -> i32 {
    let rec = Recorder::new(args, "exploration");
    let cyc = Cycle::build();
    let thorough = args.thorough();
    let mut total = Tally::default();
    let ts = instants();
    let offs = offsets();
    let t1 = ts
        .par_iter()
        .map(|&t| {
            let mut tl = Tally::default();
            for &off in &offs {
                for ns in [0u32, 999_999_999, 854_775_807, 854_775_808, 709_551_615, 709_551_616] {
                    if let Err(m) = guard(|| check_paths(&cyc, t, ns, off, &rec, &mut tl)) {
                        rec.violation("paths", json!({"kind":"paths","t":t,"ns":ns,"off":off,"via":"*"}), json!("no panic"), json!(m));
                    }
                }
                for ns in [1_000_000_000u32, 1_500_000_000, 2_000_000_000, u32::MAX] {
                    if let Err(m) = guard(|| check_raw_ns(&cyc, t, ns, off, &rec, &mut tl)) {
                        rec.violation("raw_nanoseconds", json!({"kind":"raw_ns","t":t,"ns":ns,"off":off,"via":"*"}), json!("no panic"), json!(m));
                    }
                }
            }
            tl
        })
        .reduce(Tally::default, Tally::merge);
    rec.sub("paths", json!({"instants": ts.len(), "offsets": offs.len(), "evaluations": t1.evals, "out_of_range": t1.nontrivial}));
    total = total.merge(t1);
    // days around numeric thresholds of the year, the day count (relative to several epochs) and the second count: every
    // construction path at three seconds of each day x five offsets
    if !args.digest_mode {
        let ws = crate::cal::threshold_windows(&cyc, thorough);
        let t = ws
            .par_iter()
            .map(|&(d0, n)| {
                let mut tl = Tally::default();
                for day in d0..d0 + n {
                    for s in [0i64, 43_200, 86_399] {
                        let t = day * 86_400 + s;
                        for off in [0i32, 3600, -86_399, i32::MAX, i32::MIN + 1] {
                            if let Err(m) = guard(|| check_paths(&cyc, t, 7, off, &rec, &mut tl)) {
                                rec.violation("paths", json!({"kind":"paths","t":t,"ns":7,"off":off,"via":"*"}), json!("no panic"), json!(m));
                            }
                        }
                    }
                }
                tl
            })
            .reduce(Tally::default, Tally::merge);
        rec.sub("threshold_days", json!({"windows": ws.len(), "evaluations": t.evals, "out_of_range": t.nontrivial}));
        total = total.merge(t);
    }
    // the ambient clock (the only input the harness does not choose): every reading lies between two readings of the system
    // clock taken around it, satisfies the invariant, and the zone routes agree with the lookup at that instant
    #[cfg(feature = "tz-std")]
    if !args.digest_mode {
        let mut n = 0u64;
        let zs = zones(&cyc);
        let izs: Vec<ImplZone> = zs.iter().map(|z| ImplZone::from_model(z).unwrap()).collect();
        const TOL: i128 = 2_000_000_000;
        let now_ns = || std::time::SystemTime::now().duration_since(std::time::UNIX_EPOCH).map(|d| d.as_nanos() as i128).unwrap_or(0);
        for round in 0..2000 {
            let a = now_ns();
            let u = UtcDateTime::now();
            let b = now_ns();
            n += 1;
            match u {
                Ok(u) => {
                    let t = u.total_nanoseconds();
                    // the system clock is not monotonic: rounds in which it stepped are skipped, and a reading may lie up to 2 s
                    // outside the bracket
                    if b < a || b - a > 1_000_000_000 {
                        continue;
                    }
                    if !(a - TOL <= t && t <= b + TOL) || u.nanoseconds() >= 1_000_000_000 || expect_fields(&cyc, u.unix_time(), 0).map_or(true, |f| (u.year(), u.month(), u.month_day(), u.hour(), u.minute(), u.second()) != f) {
                        rec.violation("clock", json!({"kind":"clock","what":"UtcDateTime::now"}), json!({"between_ns": [a.to_string(), b.to_string()]}), json!(format!("{u:?}")));
                    }
                }
                Err(e) => rec.violation("clock", json!({"kind":"clock","what":"UtcDateTime::now"}), json!("Ok"), json!(err_name(&e))),
            }
            let iz = &izs[round % izs.len()];
            if let Ok(zr) = iz.zref() {
                let a = now_ns();
                let d = DateTime::now(zr);
                let owned = iz.owned();
                let cur = match &owned {
                    Ok(o) => o.find_current_local_time_type().map(|l| *l),
                    Err(_) => continue,
                };
                let b = now_ns();
                n += 2;
                if let Ok(d) = d {
                    let t = d.total_nanoseconds();
                    let same_type_whole_window = zr.find_local_time_type((a / 1_000_000_000) as i64).ok() == zr.find_local_time_type((b / 1_000_000_000) as i64).ok();
                    if b < a || b - a > 1_000_000_000 {
                        continue;
                    }
                    if !(a - TOL <= t && t <= b + TOL) || dt_invariant(&cyc, &d).is_err() || (same_type_whole_window && zr.find_local_time_type(d.unix_time()).ok() != Some(d.local_time_type())) || (same_type_whole_window && cur.as_ref().ok() != Some(d.local_time_type())) {
                        rec.violation("clock", json!({"kind":"clock","what":"DateTime::now / find_current_local_time_type"}), json!({"between_ns": [a.to_string(), b.to_string()]}), json!(format!("{d:?} / {cur:?}")));
                    }
                }
            }
        }
        rec.sub("clock", json!({"readings": n}));
        total.evals += n;
    }
    let t2 = sweep_chains(&cyc, &rec);
    rec.sub("chains", json!({"evaluations": t2.evals}));
    total = total.merge(t2);
    total = total.merge(sweep_pairs(&rec));
    total = total.merge(sweep_new(&cyc, &rec));
    // monitor: every DateTime returned by the search sweeps satisfies the invariant
    let tabs = Tables::build(&cyc);
    let ctx = Ctx { cyc: &cyc, rec: &rec, prop: Prop::C14, kf1_open: rec.kf_open("KF1"), kf2_open: rec.kf_open("KF2"), kf3_open: rec.kf_open("KF3") };
    // C19 digest mode: the search sweeps are C05's workload there
    let ft = if args.digest_mode { crate::find::Tally::default() } else { run_sweeps(&ctx, &tabs, thorough, false) };
    rec.sub("search_monitor_totals", json!({"searches": ft.searches, "date_times_checked": ft.dts}));
    rec.add(total.evals + ft.dts, total.nontrivial + ft.with_gap);
    rec.digest("dtinv", total.digest);
    rec.set_rule("boundary instants x boundary offsets x 2 ns through all construction paths (from fields, from timestamp + type, + zone, from total nanoseconds, projections), projection chains over 6 zones cubed, all pairs of a value set for ==/partial_cmp, DateTime::new refusals on a field product; plus the invariant on every DateTime (both halves of every gap entry) returned by the search sweeps of engine find. non-trivial = refused / out-of-range constructions, equal instants seen from different zones, searches with a gap");
    rec.set_exhaustive(true);
    rec.outcome("Ok");
    rec.outcome("OutOfRange");
    rec.outcome("DateTime(..)");
    let t = ts[(args.seed as usize * 7 + 3) % ts.len()];
    rec.sample(json!({"t": t, "off": 3600, "model_fields": format!("{:?}", expect_fields(&cyc, t, 3600)), "impl": format!("{:?}", LocalTimeType::with_ut_offset(3600).ok().map(|l| DateTime::from_timespec_and_local(t, 0, l)))}));
    let _ = (TransitionRule::Fixed(LocalTimeType::utc()),);
    rec.finish()
}

pub fn replay(case: &Value, args: &Args) -> i32 {
    let rec = Recorder::new(args, "exploration");
    let cyc = Cycle::build();
    let g = |k: &str| case[k].as_i64().unwrap_or(0);
    let mut tl = Tally::default();
    match case["kind"].as_str().unwrap_or("") {
        "paths" => {
            for _ in 0..2 {
                if let Err(m) = guard(|| check_paths(&cyc, g("t"), g("ns") as u32, g("off") as i32, &rec, &mut tl)) {
                    rec.violation("replay", case.clone(), json!("no panic"), json!(m));
                }
            }
        }
        "raw_ns" => {
            for _ in 0..2 {
                if let Err(m) = guard(|| check_raw_ns(&cyc, g("t"), g("ns") as u32, g("off") as i32, &rec, &mut tl)) {
                    rec.violation("replay", case.clone(), json!("no panic"), json!(m));
                }
            }
        }
        "chain" => {
            sweep_chains(&cyc, &rec);
        }
        "pair" => {
            sweep_pairs(&rec);
        }
        "new" => {
            sweep_new(&cyc, &rec);
        }
        "search" => return crate::find::replay(case, args),
        _ => return 2,
    }
    if rec.viol_count.load(std::sync::atomic::Ordering::Relaxed) > 0 {
        println!("REPLAY: violation reproduced");
        1
    } else {
        println!("REPLAY: case passes");
        0
    }
}
