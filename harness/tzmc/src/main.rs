//! tzmc: bounded-exhaustive explorers that run the real tz-rs code against the reference models.
mod common;
mod cal;
mod nanos;
mod fmt;
mod conv;
mod table;
mod corpus;
mod rulealpha;
mod rule;
mod rulecons;
mod find;
mod leap;
mod zonecons;
mod dtinv;
#[cfg(feature = "tz-alloc")]
mod tzstr;
#[cfg(feature = "tz-alloc")]
mod tzif;
#[cfg(feature = "tz-alloc")]
mod resolve;
#[cfg(feature = "tz-alloc")]
mod nopanic;
#[cfg(feature = "tz-std")]
mod hist;
#[cfg(feature = "tz-std")]
mod dump;

#[cfg(feature = "tz-alloc")]
#[global_allocator]
static GLOBAL: nopanic::CountingAlloc = nopanic::CountingAlloc;

use common::*;

fn main() {
    let argv: Vec<String> = std::env::args().collect();
    if argv.len() < 2 {
        eprintln!("usage: tzmc <engine> --prop Cnn --tier quick|thorough --evidence <file> | tzmc replay <file>");
        std::process::exit(2);
    }
    install_panic_hook();
    let code = if argv[1] == "replay" {
        let text = std::fs::read_to_string(&argv[2]).expect("read replay file");
        let v: serde_json::Value = serde_json::from_str(&text).expect("parse replay file");
        let mut args = Args::parse(&argv[1..]);
        args.engine = v["engine"].as_str().unwrap_or("").to_string();
        args.prop = v["property"].as_str().unwrap_or("").to_string();
        args.evidence = None;
        args.replay_dir = std::path::PathBuf::from("/verif/replay/again");
        if v["case"]["kind"] == "unguarded_panic" {
            // the failing case is not known: re-run the sweep that tz-rs panicked in
            args.tier = if v["case"]["tier"] == "thorough" { Tier::Thorough } else { Tier::Quick };
            arm_safety_net(&args);
            std::process::exit(run_engine(&args));
        }
        match args.engine.as_str() {
            "cal" => cal::replay(&v["case"], &args),
            "nanos" => nanos::replay(&v["case"], &args),
            "fmt" => fmt::replay(&v["case"], &args),
            "table" => table::replay(&v["case"], &args),
            "rule" => rule::replay(&v["case"], &args),
            "rulecons" => rulecons::replay(&v["case"], &args),
            "find" => find::replay(&v["case"], &args),
            "leap" => leap::replay(&v["case"], &args),
            "zonecons" => zonecons::replay(&v["case"], &args),
            "dtinv" => dtinv::replay(&v["case"], &args),
            #[cfg(feature = "tz-alloc")]
            "tzstr" => tzstr::replay(&v["case"], &args),
            #[cfg(feature = "tz-alloc")]
            "tzif" => tzif::replay(&v["case"], &args),
            #[cfg(feature = "tz-alloc")]
            "resolve" => resolve::replay(&v["case"], &args),
            #[cfg(feature = "tz-alloc")]
            "nopanic" => nopanic::replay(&v["case"], &args),
            #[cfg(feature = "tz-std")]
            "hist" => hist::replay(&v["case"], &args),
            _ => {
                eprintln!("no replay for engine {}", args.engine);
                2
            }
        }
    } else {
        let args = Args::parse(&argv);
        arm_safety_net(&args);
        run_engine(&args)
    };
    std::process::exit(code);
}

fn run_engine(args: &Args) -> i32 {
    let args = args;
    {
        match args.engine.as_str() {
            "cal" => cal::run(args),
            "nanos" => nanos::run(args),
            "fmt" => fmt::run(args),
            "table" => table::run(args),
            "rule" => rule::run(args),
            "rulecons" => rulecons::run(args),
            "find" => find::run(args),
            "leap" => leap::run(args),
            "zonecons" => zonecons::run(args),
            "dtinv" => dtinv::run(args),
            #[cfg(feature = "tz-alloc")]
            "tzstr" => tzstr::run(args),
            #[cfg(feature = "tz-alloc")]
            "tzif" => tzif::run(args),
            #[cfg(feature = "tz-alloc")]
            "resolve" => resolve::run(args),
            #[cfg(feature = "tz-alloc")]
            "nopanic" => nopanic::run(args),
            #[cfg(feature = "tz-alloc")]
            "nopanic-child" => nopanic::run_child(args),
            #[cfg(feature = "tz-std")]
            "hist" => hist::run(args),
            #[cfg(feature = "tz-std")]
            "hist-alone" => hist::run_alone(args),
            #[cfg(feature = "tz-alloc")]
            "resolve-long" => resolve::run_long(args),
            #[cfg(feature = "tz-std")]
            "dump" => dump::run(args),
            e => {
                eprintln!("unknown engine {e}");
                2
            }
        }
    }
}
