//! Engine `find`: C05 (valid results = inverse image), C06 (gaps, order), C17 (buffer search), C14 monitor.
//! All sweeps run the real DateTime::find_n / DateTime::find against the inverse-clock model.

use crate::cal::{MAX_UNIX_TIME, MIN_UNIX_TIME};
use crate::common::*;
use crate::conv::*;
use crate::rulealpha::*;
use rayon::prelude::*;
use refmodel::cal::Cycle;
use refmodel::rule::{Class, Day, RuleSpec, Timeline};
use refmodel::zone::{Found, MRule, MType, MZone};
use serde_json::{json, Value};
use std::sync::Arc;
use tz::datetime::FoundDateTimeKind;
use tz::timezone::{LocalTimeType, TimeZoneRef};
use tz::{DateTime, TzError};

#[derive(Clone, Copy, Debug, PartialEq)]
pub struct Fields {
    pub y: i32,
    pub mo: u8,
    pub d: u8,
    pub h: u8,
    pub mi: u8,
    pub s: u8,
    pub ns: u32,
}

impl Fields {
    pub fn of_local(cyc: &Cycle, l: i64, ns: u32) -> Option<Fields> {
        let (c, h, mi, s) = cyc.gmtime(l);
        if c.year < i32::MIN as i64 || c.year > i32::MAX as i64 {
            return None;
        }
        Some(Fields { y: c.year as i32, mo: c.month, d: c.mday, h, mi, s, ns })
    }
    pub fn json(&self) -> Value {
        json!([self.y, self.mo, self.d, self.h, self.mi, self.s, self.ns])
    }
    pub fn from_json(v: &Value) -> Fields {
        let g = |i: usize| v[i].as_i64().unwrap();
        Fields { y: g(0) as i32, mo: g(1) as u8, d: g(2) as u8, h: g(3) as u8, mi: g(4) as u8, s: g(5) as u8, ns: g(6) as u32 }
    }
    /// seconds-since-epoch value of the reading (second 60 counts on into the next minute)
    pub fn local(&self, cyc: &Cycle) -> i64 {
        cyc.timegm(self.y as i64, self.mo, self.d, self.h, self.mi, self.s)
    }
}

#[derive(Default, Clone)]
pub struct Tally {
    pub zones: u64,
    pub searches: u64,
    pub nontrivial: u64,
    pub with_gap: u64,
    pub multi: u64,
    pub three_plus: u64,
    pub empty: u64,
    pub normalised_deleted: u64,
    pub kf1: u64,
    pub kf2: u64,
    pub kf3: u64,
    pub buffers: u64,
    pub dts: u64,
    pub digest: u64,
    pub refused_zones: u64,
}
impl Tally {
    pub fn merge(mut self, o: Tally) -> Tally {
        self.zones += o.zones;
        self.searches += o.searches;
        self.nontrivial += o.nontrivial;
        self.with_gap += o.with_gap;
        self.multi += o.multi;
        self.three_plus += o.three_plus;
        self.empty += o.empty;
        self.normalised_deleted += o.normalised_deleted;
        self.kf1 += o.kf1;
        self.kf2 += o.kf2;
        self.kf3 += o.kf3;
        self.buffers += o.buffers;
        self.dts += o.dts;
        self.digest = self.digest.wrapping_add(o.digest);
        self.refused_zones += o.refused_zones;
        self
    }
    pub fn json(&self) -> Value {
        json!({"zones": self.zones, "searches": self.searches, "searches_with_gap": self.with_gap, "searches_with_2plus_results": self.multi, "searches_with_3plus_results": self.three_plus, "searches_with_no_result": self.empty, "normalised_deleted_labels_I5": self.normalised_deleted, "kf1_cases": self.kf1, "kf2_cases": self.kf2, "kf3_cases": self.kf3, "buffer_runs": self.buffers, "date_times_checked_for_C14": self.dts, "zones_refused": self.refused_zones})
    }
}

#[derive(Clone, Copy, PartialEq, Eq, Debug)]
pub enum Prop {
    C05,
    C06,
    C12,
    C14,
    C17,
}

pub struct Ctx<'a> {
    pub cyc: &'a Cycle,
    pub rec: &'a Recorder,
    pub prop: Prop,
    pub kf1_open: bool,
    pub kf2_open: bool,
    pub kf3_open: bool,
}

fn dt_exact_eq(a: &DateTime, b: &DateTime) -> bool {
    a.year() == b.year() && a.month() == b.month() && a.month_day() == b.month_day() && a.hour() == b.hour() && a.minute() == b.minute() && a.second() == b.second() && a.nanoseconds() == b.nanoseconds() && a.unix_time() == b.unix_time() && a.local_time_type() == b.local_time_type()
}
fn kind_exact_eq(a: &FoundDateTimeKind, b: &FoundDateTimeKind) -> bool {
    match (a, b) {
        (FoundDateTimeKind::Normal(x), FoundDateTimeKind::Normal(y)) => dt_exact_eq(x, y),
        (FoundDateTimeKind::Skipped { before_transition: a1, after_transition: a2 }, FoundDateTimeKind::Skipped { before_transition: b1, after_transition: b2 }) => dt_exact_eq(a1, b1) && dt_exact_eq(a2, b2),
        _ => false,
    }
}
fn opt_kind_exact_eq(a: &Option<FoundDateTimeKind>, b: &Option<FoundDateTimeKind>) -> bool {
    match (a, b) {
        (None, None) => true,
        (Some(x), Some(y)) => kind_exact_eq(x, y),
        _ => false,
    }
}
fn opt_dt_exact_eq(a: &Option<DateTime>, b: &Option<DateTime>) -> bool {
    match (a, b) {
        (None, None) => true,
        (Some(x), Some(y)) => dt_exact_eq(x, y),
        _ => false,
    }
}

fn kind_json(k: &FoundDateTimeKind) -> Value {
    match k {
        FoundDateTimeKind::Normal(d) => json!({"normal": d.unix_time(), "type": type_json(d.local_time_type())}),
        FoundDateTimeKind::Skipped { before_transition: b, after_transition: a } => json!({"skipped_at": [b.unix_time(), a.unix_time()], "before": type_json(b.local_time_type()), "after": type_json(a.local_time_type()), "before_text": format!("{b}"), "after_text": format!("{a}")}),
    }
}
pub fn found_json(f: &Found) -> Value {
    match f {
        Found::Normal { u, ty } => json!({"normal": u, "type": mtype_json(ty)}),
        Found::Skipped { u, before, after } => json!({"skipped_at": u, "before": mtype_json(before), "after": mtype_json(after)}),
    }
}

/// C14 invariant of one zoned date-time
pub fn dt_invariant(cyc: &Cycle, d: &DateTime) -> Result<(), String> {
    let off = d.local_time_type().ut_offset() as i64;
    if !cyc.valid_date(d.year() as i64, d.month() as i64, d.month_day() as i64) || d.hour() > 23 || d.minute() > 59 || d.second() > 60 {
        return Err(format!("fields are not a real date-time: {d:?}"));
    }
    let l = cyc.timegm(d.year() as i64, d.month(), d.month_day(), d.hour(), d.minute(), d.second());
    if l - off != d.unix_time() {
        return Err(format!("fields - offset = {} but unix_time = {}", l - off, d.unix_time()));
    }
    let c = cyc.civil(refmodel::cal::floor_div(l - (d.second() as i64), 86400));
    if d.week_day() != c.wday || d.year_day() != c.yday {
        return Err(format!("week_day/year_day {} {} != model {} {}", d.week_day(), d.year_day(), c.wday, c.yday));
    }
    if d.total_nanoseconds() != d.unix_time() as i128 * 1_000_000_000 + d.nanoseconds() as i128 {
        return Err("total_nanoseconds".into());
    }
    Ok(())
}

thread_local! {
    static REUSED_BUF: std::cell::Cell<[Option<FoundDateTimeKind>; 24]> = const { std::cell::Cell::new([None; 24]) };
    /// when non-zero, check_search uses a fresh buffer of that many slots (readings with more results than the reused buffer holds)
    static BIG_RESULTS: std::cell::Cell<usize> = const { std::cell::Cell::new(0) };
    /// when set, check_search makes exactly one search (find_n) per judged reading
    static SINGLE_SEARCH: std::cell::Cell<bool> = const { std::cell::Cell::new(false) };
    /// results of the previous search of this thread (C17: prefill for the next buffers)
    static PREV_RESULTS: std::cell::RefCell<Vec<Option<FoundDateTimeKind>>> = const { std::cell::RefCell::new(Vec::new()) };
}

const STALE_MARK: i64 = -777_777;

fn stale_entry() -> Option<FoundDateTimeKind> {
    let ltt = LocalTimeType::with_ut_offset(42).unwrap();
    let a = DateTime::from_timespec_and_local(STALE_MARK, 4242, ltt).unwrap();
    Some(FoundDateTimeKind::Skipped { before_transition: a, after_transition: DateTime::from_timespec_and_local(STALE_MARK - 1, 1, LocalTimeType::utc()).unwrap() })
}

/// Which known finding (if any) covers disagreements of this zone for a reading in local year `ly`?
fn known_for(ctx: &Ctx, z: &MZone, ly: i64) -> Option<&'static str> {
    if let Some(MRule::Alt { spec, class, line, .. }) = &z.rule {
        match class {
            Class::NonInterleaving => {
                if ctx.kf2_open {
                    return Some("KF2");
                }
            }
            Class::EndFirst => {
                if ctx.kf1_open {
                    for y in (ly - 2)..=(ly + 2) {
                        if refmodel::zone::rule_s(ctx.cyc, spec, line, y) == refmodel::zone::rule_e(ctx.cyc, spec, line, y) {
                            return Some("KF1");
                        }
                    }
                }
            }
            _ => {}
        }
        // KF3: two consecutive rule events coincide (a DST or standard period of zero length) near the searched year
        if ctx.kf3_open && matches!(class, Class::StartFirst | Class::EndFirst) {
            for y in (ly - 2)..=(ly + 2) {
                let (s0, e0) = (refmodel::zone::rule_s(ctx.cyc, spec, line, y), refmodel::zone::rule_e(ctx.cyc, spec, line, y));
                let (s1, e1) = (refmodel::zone::rule_s(ctx.cyc, spec, line, y + 1), refmodel::zone::rule_e(ctx.cyc, spec, line, y + 1));
                if s0 == e0 || e0 == s1 || s0 == e1 {
                    return Some("KF3");
                }
            }
        }
        match class {
            _ => {}
        }
    }
    None
}

/// One search: compare the implementation with the model; reports according to ctx.prop.
pub fn check_search(ctx: &Ctx, z: &MZone, zr: TimeZoneRef<'_>, f: &Fields, sweep: &str, tl: &mut Tally) {
    let cyc = ctx.cyc;
    if ctx.rec.saturated() {
        return;
    }
    let l = f.local(cyc);
    let l_norm = l; // second 60 already folded by timegm
    let exp = z.search(cyc, l_norm);
    tl.searches += 1;
    // I5: a UTC label deleted by a negative leap second denotes no point in time; a reading one of whose candidate
    // instants (reading - offset) is such a label is run (panics still count) but not judged
    let deleted_candidate = !z.leaps.is_empty() && z.offsets().iter().any(|&o| z.deleted(l_norm - o as i64));
    let n_norm = exp.iter().filter(|e| matches!(e, Found::Normal { .. })).count();
    let n_gap = exp.len() - n_norm;
    if n_gap > 0 {
        tl.with_gap += 1;
    }
    if exp.len() >= 2 {
        tl.multi += 1;
    }
    if exp.len() >= 3 {
        tl.three_plus += 1;
    }
    if exp.is_empty() {
        tl.empty += 1;
    }
    if exp.len() != 1 || n_gap > 0 {
        tl.nontrivial += 1;
    }
    let case = || json!({"kind":"search","zone":zone_json(z),"fields":f.json()});
    let known = known_for(ctx, z, f.y as i64);
    let mut report = |what: Prop, expected: Value, got: Value, tl: &mut Tally| {
        // C12 (leap scales drive lookups and searches) is judged through both the valid-result and the gap comparison
        if what != ctx.prop && !(ctx.prop == Prop::C12 && matches!(what, Prop::C05 | Prop::C06)) {
            return;
        }
        // (the internal consistency of a returned date-time, C14, and the agreement of the two search routes, C17, do not depend
        // on what a deleted label denotes)
        if deleted_candidate && !matches!(what, Prop::C17 | Prop::C14) {
            tl.normalised_deleted += 1;
            return;
        }
        match known {
            Some("KF1") => {
                tl.kf1 += 1;
                ctx.rec.known_hit("KF1", || json!({"case": case(), "expected": expected, "got": got}));
            }
            Some("KF2") => {
                tl.kf2 += 1;
                ctx.rec.known_hit("KF2", || json!({"case": case(), "expected": expected, "got": got}));
            }
            Some("KF3") => {
                tl.kf3 += 1;
                ctx.rec.known_hit("KF3", || json!({"case": case(), "expected": expected, "got": got}));
            }
            _ => ctx.rec.violation(sweep, case(), expected, got),
        }
    };

    // a valid result whose instant lies outside the supported range cannot be constructed: the search must refuse (C14)
    let out_of_range = exp.iter().any(|e| matches!(e, Found::Normal { u, .. } if *u < MIN_UNIX_TIME || *u > MAX_UNIX_TIME));
    if out_of_range {
        let mut b: [Option<FoundDateTimeKind>; 24] = [None; 24];
        let r = DateTime::find_n(&mut b, f.y, f.mo, f.d, f.h, f.mi, f.s, f.ns, zr).map(|l| l.data().to_vec());
        match r {
            Err(TzError::OutOfRange) => {}
            other => {
                let got = json!(format!("{:?}", other.as_ref().map(|v| v.iter().flatten().map(kind_json).collect::<Vec<_>>())));
                report(Prop::C14, json!({"refused": "OutOfRange", "because": "a valid instant of this reading lies outside the supported range", "model": exp.iter().map(found_json).collect::<Vec<_>>()}), got.clone(), tl);
                report(Prop::C05, json!({"refused": "OutOfRange", "model": exp.iter().map(found_json).collect::<Vec<_>>()}), got, tl);
            }
        }
        return;
    }

    // ---- run the implementation (allocation-free entry point). The buffer is reused across all searches of this thread and
    // never cleared (the documented way of using find_n): stale entries of earlier searches stay behind the written prefix.
    let big = BIG_RESULTS.with(|c| c.get());
    let mut small_buf: [Option<FoundDateTimeKind>; 24] = REUSED_BUF.with(|b| b.get());
    let mut big_buf: Vec<Option<FoundDateTimeKind>> = vec![stale_entry(); big];
    let buf: &mut [Option<FoundDateTimeKind>] = if big > 0 { &mut big_buf } else { &mut small_buf };
    let cap = buf.len();
    let res = DateTime::find_n(buf, f.y, f.mo, f.d, f.h, f.mi, f.s, f.ns, zr);
    let list = match res {
        Ok(l) => l,
        Err(e) => {
            // inside the judged domain (I4) the search must succeed
            let msg = json!(format!("Err({})", err_name(&e)));
            report(Prop::C05, json!(exp.iter().map(found_json).collect::<Vec<_>>()), msg.clone(), tl);
            report(Prop::C06, json!(exp.iter().map(found_json).collect::<Vec<_>>()), msg.clone(), tl);
            report(Prop::C17, json!("Ok"), msg, tl);
            return;
        }
    };
    if !list.is_exhaustive() {
        report(Prop::C05, json!(format!("{} results", exp.len())), json!(format!("{} results (more than the {cap} slots of the buffer)", list.count())), tl);
        return;
    }
    let got: Vec<FoundDateTimeKind> = list.data().iter().map(|x| x.expect("written slot")).collect();
    let (l_unique, l_earliest, l_latest) = (list.unique(), list.earliest(), list.latest());
    drop(list);
    if big == 0 {
        REUSED_BUF.with(|b| b.set(small_buf));
    }
    let got_json = || json!(got.iter().map(kind_json).collect::<Vec<_>>());
    let exp_json = || json!(exp.iter().map(found_json).collect::<Vec<_>>());
    tl.digest = tl.digest.wrapping_add(got.iter().fold(l as u64, |a, k| match k {
        FoundDateTimeKind::Normal(d) => a.wrapping_mul(31).wrapping_add(d.unix_time() as u64).wrapping_add(d.local_time_type().ut_offset() as u64),
        FoundDateTimeKind::Skipped { before_transition: b, .. } => a.wrapping_mul(37).wrapping_add(b.unix_time() as u64),
    }));

    // ---- C05: valid results
    {
        let mut gn: Vec<&DateTime> = got.iter().filter_map(|k| if let FoundDateTimeKind::Normal(d) = k { Some(d) } else { None }).collect();
        gn.sort_by_key(|d| d.unix_time());
        let en: Vec<(&i64, &MType)> = exp.iter().filter_map(|e| if let Found::Normal { u, ty } = e { Some((u, ty)) } else { None }).collect();
        let mut ok = gn.len() == en.len();
        if ok {
            for (g, (u, ty)) in gn.iter().zip(en.iter()) {
                if g.unix_time() != **u || !same_type(g.local_time_type(), ty) {
                    ok = false;
                }
            }
        }
        if !ok {
            report(Prop::C05, exp_json(), got_json(), tl);
        } else {
            for g in &gn {
                // literal searched fields
                if !(g.year() == f.y && g.month() == f.mo && g.month_day() == f.d && g.hour() == f.h && g.minute() == f.mi && g.second() == f.s && g.nanoseconds() == f.ns) {
                    report(Prop::C05, json!({"fields": f.json()}), json!(format!("{g:?}")), tl);
                }
                // converting the instant back reproduces the (normalised) searched fields and the type
                match DateTime::from_timespec(g.unix_time(), f.ns, zr) {
                    Ok(p) => {
                        let nf = Fields::of_local(cyc, l_norm, f.ns).unwrap();
                        let same = p.year() == nf.y && p.month() == nf.mo && p.month_day() == nf.d && p.hour() == nf.h && p.minute() == nf.mi && p.second() == nf.s && p.local_time_type() == g.local_time_type() && p.unix_time() == g.unix_time();
                        if !same {
                            report(Prop::C05, json!({"reprojection_of": g.unix_time(), "fields": nf.json(), "type": type_json(g.local_time_type())}), json!(format!("{p:?}")), tl);
                        }
                    }
                    Err(e) => report(Prop::C05, json!({"reprojection_of": g.unix_time()}), json!(err_name(&e)), tl),
                }
            }
            // a local time that occurs once (and is not in a gap) is reported as unique
            if en.len() == 1 && n_gap == 0 {
                match l_unique {
                    Some(u) if u.unix_time() == *en[0].0 => {}
                    other => report(Prop::C05, json!({"unique": en[0].0}), json!(format!("{other:?}")), tl),
                }
            }
        }
    }

    // ---- C06: gaps, order, earliest/latest/unique
    {
        let gg: Vec<(&DateTime, &DateTime)> = got.iter().filter_map(|k| if let FoundDateTimeKind::Skipped { before_transition: b, after_transition: a } = k { Some((b, a)) } else { None }).collect();
        let eg: Vec<(&i64, &MType, &MType)> = exp.iter().filter_map(|e| if let Found::Skipped { u, before, after } = e { Some((u, before, after)) } else { None }).collect();
        let mut ok = gg.len() == eg.len();
        if ok {
            let mut g2 = gg.clone();
            g2.sort_by_key(|(b, _)| b.unix_time());
            for ((b, a), (u, tb, ta)) in g2.iter().zip(eg.iter()) {
                let mut ub = b.unix_time();
                // I5: a label deleted by a negative leap second denotes its successor
                if ub != **u && z.deleted(ub) && ub + 1 == **u && a.unix_time() == ub {
                    ub += 1;
                    tl.normalised_deleted += 1;
                } else if a.unix_time() != b.unix_time() {
                    ok = false;
                }
                if ub != **u || !same_type(b.local_time_type(), tb) || !same_type(a.local_time_type(), ta) {
                    ok = false;
                }
                if b.nanoseconds() != f.ns || a.nanoseconds() != f.ns {
                    ok = false;
                }
            }
        }
        if !ok {
            report(Prop::C06, exp_json(), got_json(), tl);
        }
        // ascending order of instant
        let inst: Vec<i64> = got.iter().map(|k| match k {
            FoundDateTimeKind::Normal(d) => d.unix_time(),
            FoundDateTimeKind::Skipped { before_transition: b, .. } => b.unix_time(),
        }).collect();
        if !inst.windows(2).all(|w| w[0] <= w[1]) {
            report(Prop::C06, json!("results in ascending order of instant"), got_json(), tl);
        }
        // earliest / latest / unique relative to the reported list
        let first = got.first().map(|k| match k {
            FoundDateTimeKind::Normal(d) => *d,
            FoundDateTimeKind::Skipped { before_transition: b, .. } => *b,
        });
        let last = got.last().map(|k| match k {
            FoundDateTimeKind::Normal(d) => *d,
            FoundDateTimeKind::Skipped { after_transition: a, .. } => *a,
        });
        let uniq = match got.as_slice() {
            [FoundDateTimeKind::Normal(d)] => Some(*d),
            _ => None,
        };
        if !opt_dt_exact_eq(&l_earliest, &first) || !opt_dt_exact_eq(&l_latest, &last) || !opt_dt_exact_eq(&l_unique, &uniq) {
            report(Prop::C06, json!({"earliest": format!("{first:?}"), "latest": format!("{last:?}"), "unique": format!("{uniq:?}")}), json!({"earliest": format!("{:?}", l_earliest), "latest": format!("{:?}", l_latest), "unique": format!("{:?}", l_unique)}), tl);
        }
        // true extremes: earliest is the minimum and latest the maximum instant among everything reported
        if let (Some(e), Some(mn)) = (l_earliest, inst.iter().min()) {
            if e.unix_time() != *mn {
                report(Prop::C06, json!({"earliest_instant": mn}), json!(e.unix_time()), tl);
            }
        }
        if let (Some(e), Some(mx)) = (l_latest, inst.iter().max()) {
            if e.unix_time() != *mx {
                report(Prop::C06, json!({"latest_instant": mx}), json!(e.unix_time()), tl);
            }
        }
    }

    // (call-count-sensitive histories ask for exactly one search per judged reading)
    if SINGLE_SEARCH.with(|c| c.get()) {
        return;
    }

    // ---- the allocating search returns the same list (C05: same results; C06: same order, same earliest / latest / unique)
    #[cfg(feature = "tz-alloc")]
    {
        match DateTime::find(f.y, f.mo, f.d, f.h, f.mi, f.s, f.ns, zr) {
            Ok(list) => {
                let (ae, al, au) = (list.earliest(), list.latest(), list.unique());
                let inner = list.into_inner();
                let same_list = inner.len() == got.len() && inner.iter().zip(got.iter()).all(|(a, b)| kind_exact_eq(a, b));
                if !same_list {
                    let key = |k: &FoundDateTimeKind| match k {
                        FoundDateTimeKind::Normal(d) => (d.unix_time(), 0, d.local_time_type().ut_offset()),
                        FoundDateTimeKind::Skipped { before_transition: b, .. } => (b.unix_time(), 1, b.local_time_type().ut_offset()),
                    };
                    let (mut ka, mut kb): (Vec<_>, Vec<_>) = (inner.iter().map(key).collect(), got.iter().map(key).collect());
                    ka.sort();
                    kb.sort();
                    let got_a = json!(inner.iter().map(kind_json).collect::<Vec<_>>());
                    if ka != kb {
                        report(Prop::C05, json!({"allocating_search_returns_the_results_of_the_buffer_search": got_json()}), got_a.clone(), tl);
                    }
                    report(Prop::C06, json!({"allocating_search_returns_the_list_of_the_buffer_search_in_the_same_order": got_json()}), got_a, tl);
                } else {
                    let first = inner.first().map(|k| match k {
                        FoundDateTimeKind::Normal(d) => *d,
                        FoundDateTimeKind::Skipped { before_transition: b, .. } => *b,
                    });
                    let last = inner.last().map(|k| match k {
                        FoundDateTimeKind::Normal(d) => *d,
                        FoundDateTimeKind::Skipped { after_transition: a, .. } => *a,
                    });
                    let uniq = match inner.as_slice() {
                        [FoundDateTimeKind::Normal(d)] => Some(*d),
                        _ => None,
                    };
                    if !opt_dt_exact_eq(&ae, &first) || !opt_dt_exact_eq(&al, &last) || !opt_dt_exact_eq(&au, &uniq) {
                        report(Prop::C06, json!({"allocating list: earliest": format!("{first:?}"), "latest": format!("{last:?}"), "unique": format!("{uniq:?}")}), json!({"earliest": format!("{ae:?}"), "latest": format!("{al:?}"), "unique": format!("{au:?}")}), tl);
                    }
                }
            }
            Err(e) => {
                let msg = json!(format!("allocating search: Err({})", err_name(&e)));
                report(Prop::C05, got_json(), msg.clone(), tl);
                report(Prop::C06, got_json(), msg, tl);
            }
        }
    }

    // ---- C14 monitor: every date-time obtained satisfies the invariant
    for k in &got {
        let mut chk = |d: &DateTime, literal: bool, tl: &mut Tally| {
            tl.dts += 1;
            if let Err(m) = dt_invariant(cyc, d) {
                report(Prop::C14, json!("invariant of zoned date-time"), json!({"dt": format!("{d:?}"), "why": m}), tl);
            }
            let _ = literal;
        };
        match k {
            FoundDateTimeKind::Normal(d) => chk(d, true, tl),
            FoundDateTimeKind::Skipped { before_transition: b, after_transition: a } => {
                chk(b, false, tl);
                chk(a, false, tl);
            }
        }
    }

    // ---- C17: buffer search for every buffer length
    if ctx.prop == Prop::C17 {
        check_buffers(ctx, zr, f, &got, &mut report, tl);
    }
}

/// C17: for n in 0..=k+2 a stale-prefilled buffer must receive exactly the first min(n,k) results
fn check_buffers(ctx: &Ctx, zr: TimeZoneRef<'_>, f: &Fields, reference_n: &[FoundDateTimeKind], report: &mut dyn FnMut(Prop, Value, Value, &mut Tally), tl: &mut Tally) {
    let _ = ctx;
    // the reference is the allocating search when available
    #[cfg(feature = "tz-alloc")]
    let (reference, ref_list): (Vec<FoundDateTimeKind>, Option<tz::datetime::FoundDateTimeList>) = match DateTime::find(f.y, f.mo, f.d, f.h, f.mi, f.s, f.ns, zr) {
        Ok(l) => (l.clone().into_inner(), Some(l)),
        Err(e) => {
            report(Prop::C17, json!("find Ok like find_n"), json!(err_name(&e)), tl);
            return;
        }
    };
    #[cfg(not(feature = "tz-alloc"))]
    let reference: Vec<FoundDateTimeKind> = reference_n.to_vec();
    // allocating and buffer search agree on the full list
    if reference.len() != reference_n.len() || !reference.iter().zip(reference_n).all(|(a, b)| kind_exact_eq(a, b)) {
        report(Prop::C17, json!(reference.iter().map(kind_json).collect::<Vec<_>>()), json!(reference_n.iter().map(kind_json).collect::<Vec<_>>()), tl);
        return;
    }
    let k = reference.len();
    let stale = stale_entry();
    // prefill: the results of the previous search of this thread (same zone, neighbouring reading - often the same instant
    // under another spelling), padded with a marker entry
    let prev: Vec<Option<FoundDateTimeKind>> = PREV_RESULTS.with(|p| p.borrow().clone());
    PREV_RESULTS.with(|p| *p.borrow_mut() = reference.iter().map(|x| Some(*x)).collect());
    for n in 0..=k + 2 {
        tl.buffers += 1;
        let prefill: Vec<Option<FoundDateTimeKind>> = (0..n).map(|i| prev.get(i).copied().unwrap_or(stale)).collect();
        let mut buf: Vec<Option<FoundDateTimeKind>> = prefill.clone();
        let r = DateTime::find_n(&mut buf, f.y, f.mo, f.d, f.h, f.mi, f.s, f.ns, zr);
        let l = match r {
            Ok(l) => l,
            Err(e) => {
                report(Prop::C17, json!({"buffer_len": n, "result": "Ok"}), json!(err_name(&e)), tl);
                continue;
            }
        };
        let m = n.min(k);
        let data_ok = l.data().len() == m && l.data().iter().zip(reference.iter()).all(|(a, b)| matches!(a, Some(x) if kind_exact_eq(x, b)));
        let meta_ok = l.count() == k && l.is_exhaustive() == (n >= k);
        let (mut u_ok, mut e_ok, mut la_ok) = (true, true, true);
        #[cfg(feature = "tz-alloc")]
        if n >= k {
            let rl = ref_list.as_ref().unwrap();
            u_ok = opt_dt_exact_eq(&l.unique(), &rl.unique());
            e_ok = opt_dt_exact_eq(&l.earliest(), &rl.earliest());
            la_ok = opt_dt_exact_eq(&l.latest(), &rl.latest());
        }
        let (count, exhaustive, dlen) = (l.count(), l.is_exhaustive(), l.data().len());
        let (gu, ge, gl) = (format!("{:?}", l.unique().map(|d| d.unix_time())), format!("{:?}", l.earliest().map(|d| d.unix_time())), format!("{:?}", l.latest().map(|d| d.unix_time())));
        // slots beyond the reported ones untouched
        let tail_ok = buf[m..].iter().zip(prefill[m..].iter()).all(|(a, b)| opt_kind_exact_eq(a, b));
        let head_ok = buf[..m].iter().zip(reference.iter()).all(|(a, b)| matches!(a, Some(x) if kind_exact_eq(x, b)));
        if !(data_ok && meta_ok && u_ok && e_ok && la_ok && tail_ok && head_ok) {
            report(
                Prop::C17,
                json!({"buffer_len": n, "k": k, "data_len": m, "exhaustive": n >= k, "reference": reference.iter().map(kind_json).collect::<Vec<_>>()}),
                json!({"count": count, "is_exhaustive": exhaustive, "data_len": dlen, "data_matches": data_ok, "unique_ok": u_ok, "earliest_ok": e_ok, "latest_ok": la_ok, "untouched_tail": tail_ok, "unique": gu, "earliest": ge, "latest": gl}),
                tl,
            );
        }
    }
}

/// C17: when the search fails, both entry points fail with the same error
fn check_error_agreement(ctx: &Ctx, z: &MZone, zr: TimeZoneRef<'_>, f: &Fields, sweep: &str, tl: &mut Tally) {
    tl.searches += 1;
    let mut b0: [Option<FoundDateTimeKind>; 0] = [];
    let mut b3 = [stale_entry(); 3];
    for n in [1usize, 2, 4, 5] {
        let mut bn = vec![stale_entry(); n];
        let rn = DateTime::find_n(&mut bn, f.y, f.mo, f.d, f.h, f.mi, f.s, f.ns, zr).map(|l| l.count()).map_err(|e| err_name(&e));
        #[cfg(feature = "tz-alloc")]
        {
            let ra = DateTime::find(f.y, f.mo, f.d, f.h, f.mi, f.s, f.ns, zr).map(|l| l.into_inner().len()).map_err(|e| err_name(&e));
            if rn != ra && ctx.prop == Prop::C17 {
                ctx.rec.violation(sweep, json!({"kind":"search_err","zone":zone_json(z),"fields":f.json()}), json!({"find": format!("{ra:?}")}), json!({"find_n": format!("{rn:?}"), "buffer_len": n}));
            }
        }
        let _ = rn;
    }
    let r0 = DateTime::find_n(&mut b0, f.y, f.mo, f.d, f.h, f.mi, f.s, f.ns, zr).map(|l| l.count()).map_err(|e| err_name(&e));
    let r3 = DateTime::find_n(&mut b3, f.y, f.mo, f.d, f.h, f.mi, f.s, f.ns, zr).map(|l| l.count()).map_err(|e| err_name(&e));
    #[cfg(feature = "tz-alloc")]
    let ra = DateTime::find(f.y, f.mo, f.d, f.h, f.mi, f.s, f.ns, zr).map(|l| l.into_inner().len()).map_err(|e| err_name(&e));
    #[cfg(not(feature = "tz-alloc"))]
    let ra = r3.clone();
    if r0 != ra || r3 != ra {
        if ctx.prop == Prop::C17 {
            ctx.rec.violation(sweep, json!({"kind":"search_err","zone":zone_json(z),"fields":f.json()}), json!({"find": format!("{ra:?}")}), json!({"find_n(len 0)": format!("{r0:?}"), "find_n(len 3)": format!("{r3:?}")}));
        }
    }
    if ra.is_err() {
        tl.nontrivial += 1;
        if !b3.iter().all(|s| opt_kind_exact_eq(s, &stale_entry())) && ctx.prop == Prop::C17 {
            // a failing search may have written results before failing; the property only constrains reported slots,
            // and nothing is reported on error: not judged
        }
    }
}

// ================================================================================================ sweeps

pub fn tiny_types(offs: [i32; 3]) -> Vec<MType> {
    vec![MType::new(offs[0], false, Some("AAA")), MType::new(offs[1], true, Some("BBB")), MType::new(offs[2], false, Some("CCC"))]
}

/// expected valid results by walking every instant of the window (inverse image of the forward clock)
fn walk_normals(cyc: &Cycle, z: &MZone, l: i64, lo: i64, hi: i64) -> Vec<(i64, MType)> {
    let mut v = vec![];
    for u in lo..=hi {
        if let Ok(t) = z.forward(cyc, u) {
            if u + t.off as i64 == l {
                v.push((u, *t));
            }
        }
    }
    v
}

/// model self-check: candidate-set formulation == brute-force walk (valid results), and walk-derived gap list == jump list
fn model_self_check(cyc: &Cycle, z: &MZone, l: i64, lo: i64, hi: i64) {
    let a = walk_normals(cyc, z, l, lo, hi);
    let s = z.search(cyc, l);
    let b: Vec<(i64, MType)> = s.iter().filter_map(|f| if let Found::Normal { u, ty } = f { Some((*u, *ty)) } else { None }).collect();
    assert_eq!(a, b, "model self-check (valid results) failed for zone {z:?} local {l}");
    // gaps by walking: u is a forward jump if reading(u) - reading(u-1) > 1; l is skipped by it iff reading(u-1) < l < reading(u)
    let mut gaps = vec![];
    for u in lo + 1..=hi {
        if let (Ok(p), Ok(t)) = (z.forward(cyc, u - 1), z.forward(cyc, u)) {
            let (rp, rt) = (u - 1 + p.off as i64, u + t.off as i64);
            if rp < l && l < rt {
                gaps.push(u);
            }
        }
    }
    let g2: Vec<i64> = s.iter().filter_map(|f| if let Found::Skipped { u, .. } = f { Some(*u) } else { None }).collect();
    // the walk only sees the net clock; the jump list may contain a transition between two equal-offset types (never a gap)
    // and is restricted by I10 (last transition without rule): compare only when the zone has a rule
    if z.rule.is_some() && z.leaps.is_empty() {
        assert_eq!(gaps, g2, "model self-check (gaps) failed for zone {z:?} local {l}");
    }
}

const TINY_TIMES: [i64; 6] = [100, 101, 102, 104, 107, 111];
const TINY_OFFS: [i32; 4] = [-3, 0, 1, 4];

fn sweep_tiny(ctx: &Ctx, max_trans: u32, base: i64, leap_variants: &[Vec<(i64, i32)>], offs_set: &[i32], name: &str) -> Tally {
    let cyc = ctx.cyc;
    // work items: (mask, idx code)
    let mut work = vec![];
    for mask in 0u32..64 {
        let n = mask.count_ones();
        if n > max_trans {
            continue;
        }
        for code in 0..3u32.pow(n) {
            work.push((mask, code));
        }
    }
    let no = offs_set.len();
    let t = work
        .par_iter()
        .map(|&(mask, code)| {
            let mut tl = Tally::default();
            let times: Vec<i64> = (0..6).filter(|b| mask & (1 << b) != 0).map(|b| base + TINY_TIMES[b]).collect();
            let mut c = code;
            let idx: Vec<usize> = times.iter().map(|_| { let d = (c % 3) as usize; c /= 3; d }).collect();
            let r = guard(|| {
                let mut tl = Tally::default();
                for oc in 0..no * no * no {
                    let offs = [offs_set[oc % no], offs_set[(oc / no) % no], offs_set[oc / (no * no)]];
                    for leaps in leap_variants {
                        for rule_kind in 0..2 {
                            let types = tiny_types(offs);
                            let rule = if rule_kind == 1 { Some(MRule::Fixed(match idx.last() { Some(&i) => types[i], None => types[1] })) } else { None };
                            let z = MZone { trans: times.iter().cloned().zip(idx.iter().cloned()).collect(), types, leaps: leaps.clone(), rule };
                            let iz = ImplZone::from_model(&z).unwrap();
                            let zr = match iz.zref() {
                                Ok(r) => r,
                                Err(_) => {
                                    tl.refused_zones += 1;
                                    continue;
                                }
                            };
                            tl.zones += 1;
                            for l in base + 88..=base + 124 {
                                let f = Fields::of_local(cyc, l, 7).unwrap();
                                if (mask as i64 + l) % 5 == 0 {
                                    model_self_check(cyc, &z, l, base + 70, base + 145);
                                }
                                check_search(ctx, &z, zr, &f, name, &mut tl);
                                // second 60 denotes second 0 of the next minute
                                if f.s == 59 {
                                    let f60 = Fields { s: 60, ..f };
                                    check_search(ctx, &z, zr, &f60, name, &mut tl);
                                }
                            }
                        }
                    }
                }
                tl
            });
            match r {
                Ok(t) => tl = tl.merge(t),
                Err(m) => ctx.rec.violation(name, json!({"kind":"tiny","mask":mask,"code":code,"base":base}), json!("no panic"), json!(m)),
            }
            tl
        })
        .reduce(Tally::default, Tally::merge);
    ctx.rec.sub(name, t.json());
    t
}

/// real-scale table zones: carries across minute/hour/day/month/year, huge offsets
fn sweep_real_scale(ctx: &Ctx, thorough: bool) -> Tally {
    let cyc = ctx.cyc;
    // incl. the limits of 32-bit time representations
    let bases: Vec<i64> = vec![946684800 - 3600, 1709164800 + 82800, -1, 951782400 + 84600, (1i64 << 31) - 3600, -(1i64 << 31) - 3600, (1i64 << 32) - 7200];
    let deltas: [i64; 4] = [0, 3600, 7200, 86400 + 1800];
    let offs: Vec<i32> = if thorough { vec![-50400, -12600, 0, 3600, 50400, i32::MAX, i32::MIN + 1] } else { vec![-50400, -12600, 3600, 50400, i32::MAX] };
    let no = offs.len();
    let mut work = vec![];
    for (bi, _) in bases.iter().enumerate() {
        for mask in 0u32..16 {
            let n = mask.count_ones();
            if n > 3 {
                continue;
            }
            for code in 0..3u32.pow(n) {
                work.push((bi, mask, code));
            }
        }
    }
    let t = work
        .par_iter()
        .map(|&(bi, mask, code)| {
            let mut tl = Tally::default();
            let times: Vec<i64> = (0..4).filter(|b| mask & (1 << b) != 0).map(|b| bases[bi] + deltas[b]).collect();
            let mut c = code;
            let idx: Vec<usize> = times.iter().map(|_| { let d = (c % 3) as usize; c /= 3; d }).collect();
            let r = guard(|| {
                let mut tl = Tally::default();
                for oc in 0..no * no * no {
                    let o = [offs[oc % no], offs[(oc / no) % no], offs[oc / (no * no)]];
                    for rule_kind in 0..2 {
                        let types = tiny_types(o);
                        let rule = if rule_kind == 1 { Some(MRule::Fixed(match idx.last() { Some(&i) => types[i], None => types[1] })) } else { None };
                        let z = MZone { trans: times.iter().cloned().zip(idx.iter().cloned()).collect(), types, leaps: vec![], rule };
                        let iz = ImplZone::from_model(&z).unwrap();
                        let zr = match iz.zref() {
                            Ok(r) => r,
                            Err(_) => {
                                tl.refused_zones += 1;
                                continue;
                            }
                        };
                        tl.zones += 1;
                        // local images of every transition under every offset of the zone, +-1 s
                        let mut ls: Vec<i64> = vec![];
                        for &t in times.iter().chain([bases[bi] - 86400, bases[bi] + 3 * 86400].iter()) {
                            for &off in &o {
                                for d in -1..=1 {
                                    ls.push(t + off as i64 + d);
                                }
                            }
                        }
                        ls.sort();
                        ls.dedup();
                        for l in ls {
                            if let Some(f) = Fields::of_local(cyc, l, 999_999_999) {
                                check_search(ctx, &z, zr, &f, "real_scale_table", &mut tl);
                                if f.s == 59 {
                                    check_search(ctx, &z, zr, &Fields { s: 60, ..f }, "real_scale_table", &mut tl);
                                }
                            }
                        }
                    }
                }
                tl
            });
            match r {
                Ok(t) => tl = tl.merge(t),
                Err(m) => ctx.rec.violation("real_scale_table", json!({"kind":"real","base":bi,"mask":mask,"code":code}), json!("no panic"), json!(m)),
            }
            tl
        })
        .reduce(Tally::default, Tally::merge);
    ctx.rec.sub("real_scale_table", t.json());
    t
}

/// zones with more local time types than a TZif file can carry (the constructors do not limit their number): indices that
/// agree modulo 256 / 64 carry different offsets and are visited next to each other and two transitions apart
fn sweep_many_types(ctx: &Ctx, thorough: bool) -> Tally {
    let cyc = ctx.cyc;
    let ks: &[usize] = if thorough { &[256, 257, 300, 513, 1030] } else { &[257, 300, 513] };
    let mut work = vec![];
    for &k in ks {
        for pat in 0..5usize {
            for rule_kind in 0..4usize {
                // rule_kind 2, 3: the same with a leap table (more than 256 types x leap seconds)
                work.push((k, pat, rule_kind));
            }
        }
    }
    let t = work
        .par_iter()
        .map(|&(k, pat, rule_kind)| {
            let mut tl = Tally::default();
            let r = guard(|| {
                let mut tl = Tally::default();
                let types: Vec<MType> = (0..k).map(|i| MType::new(1800 * ((i * 7) % 11) as i32 - 9000, i % 2 == 1, Some(&format!("T{:04}", i)))).collect();
                let n = 24usize;
                let idx: Vec<usize> = (0..n)
                    .map(|j| match pat {
                        0 => if j % 2 == 0 { 1 + j / 2 } else { (257 + j / 2) % k },
                        1 => (1 + j * 255) % k,
                        2 => match j % 3 { 0 => 256 % k, 1 => 0, _ => (512 + j) % k },
                        3 => (j * 64) % k,
                        _ => match j % 4 { 0 => 1, 1 => 2, 2 => (257) % k, _ => (258) % k },
                    })
                    .collect();
                let times: Vec<i64> = (0..n).map(|j| 8_640_000 + 100_000 * j as i64 + (j % 2) as i64).collect();
                let rule = if rule_kind % 2 == 1 { Some(MRule::Fixed(types[idx[n - 1]])) } else { None };
                let leaps = if rule_kind >= 2 { vec![(5, 1), (8_640_000 + 100_000 * 7 + 50, 2), (8_640_000 + 100_000 * 7 + 50 + 28 * 86400, 1)] } else { vec![] };
                let z = MZone { trans: times.iter().cloned().zip(idx.iter().cloned()).collect(), types, leaps, rule };
                let iz = ImplZone::from_model(&z).unwrap();
                let zr = iz.zref().unwrap();
                tl.zones += 1;
                let mut ls: Vec<i64> = vec![];
                for j in 0..n {
                    let ob = if j == 0 { z.types[0].off } else { z.types[idx[j - 1]].off } as i64;
                    let oa = z.types[idx[j]].off as i64;
                    for o in [ob, oa] {
                        for d in -1..=1 {
                            ls.push(times[j] + o + d);
                        }
                    }
                    ls.push(times[j] + (ob + oa) / 2);
                    ls.push(times[j] + 50_000 + oa);
                }
                // in time order, then in reverse (what an earlier search leaves behind differs)
                ls.sort();
                ls.dedup();
                let rev: Vec<i64> = ls.iter().rev().cloned().collect();
                for l in ls.into_iter().chain(rev) {
                    if let Some(f) = Fields::of_local(cyc, l, 123) {
                        check_search(ctx, &z, zr, &f, "many_types", &mut tl);
                    }
                }
                tl
            });
            match r {
                Ok(t) => tl = tl.merge(t),
                Err(m) => ctx.rec.violation("many_types", json!({"kind":"many_types","k":k,"pattern":pat,"rule":rule_kind}), json!("no panic"), json!(m)),
            }
            tl
        })
        .reduce(Tally::default, Tally::merge);
    ctx.rec.sub("many_types", t.json());
    t
}

/// leap-second zones with offsets at the ends of the i32 range (count-scale vs UTC-scale bounds differ by the correction)
pub fn sweep_leap_extreme(ctx: &Ctx) -> Tally {
    let cyc = ctx.cyc;
    let offs: [i32; 7] = [i32::MIN + 1, i32::MIN + 2, i32::MIN + 11, 0, 5, i32::MAX - 1, i32::MAX];
    let mut real: Vec<(i64, i32)> = vec![];
    for k in 0..27 {
        real.push((1000 + k as i64 * (DAY28 + 7), k + 1));
    }
    let tables: Vec<Vec<(i64, i32)>> = vec![vec![(1000, 1)], vec![(1000, -1)], real, vec![(1000, 1), (1000 + DAY28, 2), (1000 + 2 * DAY28, 1)]];
    let work: Vec<(usize, usize, usize)> = (0..offs.len()).flat_map(|a| (0..offs.len()).flat_map(move |b| (0..4usize).map(move |t| (a, b, t)))).collect();
    let t = work
        .par_iter()
        .map(|&(a, b, ti)| {
            let mut tl = Tally::default();
            let r = guard(|| {
                let mut tl = Tally::default();
                let leaps = tables[ti].clone();
                let last_leap = leaps[leaps.len() - 1].0;
                for (t1, t2) in [(10_000_000i64, 11_000_000i64), (last_leap + 5_000_000, last_leap + 6_000_000), (last_leap - 10, last_leap + 10)] {
                    for rule_kind in 0..2 {
                        let types = tiny_types([offs[a], offs[b], 0]);
                        let rule = if rule_kind == 1 { Some(MRule::Fixed(types[0])) } else { None };
                        let z = MZone { trans: vec![(t1, 1), (t2, 0)], types, leaps: leaps.clone(), rule };
                        let iz = ImplZone::from_model(&z).unwrap();
                        let zr = match iz.zref() {
                            Ok(r) => r,
                            Err(_) => {
                                tl.refused_zones += 1;
                                continue;
                            }
                        };
                        tl.zones += 1;
                        let mut ls = vec![];
                        for t in [t1, t2] {
                            for o in [offs[a], offs[b]] {
                                for d in -32..=32 {
                                    ls.push(t + o as i64 + d);
                                }
                            }
                        }
                        ls.sort();
                        ls.dedup();
                        for l in ls {
                            if let Some(f) = Fields::of_local(cyc, l, 0) {
                                check_search(ctx, &z, zr, &f, "leap_extreme_offsets", &mut tl);
                            }
                        }
                    }
                }
                tl
            });
            match r {
                Ok(t) => tl = tl.merge(t),
                Err(m) => ctx.rec.violation("leap_extreme_offsets", json!({"kind":"leap_extreme","a":a,"b":b,"table":ti}), json!("no panic"), json!(m)),
            }
            tl
        })
        .reduce(Tally::default, Tally::merge);
    ctx.rec.sub("leap_extreme_offsets", t.json());
    t
}

/// both ends of the supported range, with and without leap seconds (instant scale vs leap-count scale at the limit)
pub fn sweep_range_ends(ctx: &Ctx) -> Tally {
    let cyc = ctx.cyc;
    let leap_tables: Vec<Vec<(i64, i32)>> = vec![vec![], vec![(78_796_799, -1), (94_694_398, -2)], vec![(78_796_800, 1), (94_694_401, 2)], vec![(78_796_800, 1), (94_694_401, 0), (126_230_400, -1)]];
    let mut tl = Tally::default();
    for leaps in &leap_tables {
        for off in [-18000i32, 0, 3600, 50400, -50400] {
            for shape in 0..3 {
                let types = vec![MType::new(-17762, false, Some("LMT")), MType::new(off, false, Some("EST"))];
                let (trans, rule) = match shape {
                    0 => (vec![(-2_717_650_800i64, 1usize), (i64::MAX, 1)], None),
                    1 => (vec![(-2_717_650_800i64, 1usize)], Some(MRule::Fixed(types[1]))),
                    _ => (vec![(i64::MIN + 1, 1usize), (-2_717_650_800, 0), (0, 1), (i64::MAX, 0)], None),
                };
                let z = MZone { trans, types, leaps: leaps.clone(), rule };
                let iz = ImplZone::from_model(&z).unwrap();
                let zr = match iz.zref() {
                    Ok(r) => r,
                    Err(_) => {
                        tl.refused_zones += 1;
                        continue;
                    }
                };
                tl.zones += 1;
                for lim in [MIN_UNIX_TIME, MAX_UNIX_TIME] {
                    for o in [off as i64, -17762] {
                        for d in -6i64..=6 {
                            let l = lim + o + d;
                            if let Some(f) = Fields::of_local(cyc, l, 500) {
                                let r = guard(|| {
                                    let mut t2 = Tally::default();
                                    check_search(ctx, &z, zr, &f, "range_ends", &mut t2);
                                    if f.s == 59 {
                                        check_search(ctx, &z, zr, &Fields { s: 60, ..f }, "range_ends", &mut t2);
                                    }
                                    t2
                                });
                                match r {
                                    Ok(t2) => tl = tl.clone().merge(t2),
                                    Err(m) => ctx.rec.violation("range_ends", json!({"kind":"search","zone":zone_json(&z),"fields":f.json()}), json!("no panic"), json!(m)),
                                }
                            }
                        }
                    }
                }
            }
        }
    }
    ctx.rec.sub("range_ends", tl.json());
    tl
}

/// small world at both ends of the supported range: every ascending choice of up to three transition times around the limit
/// (before it, beyond it, at the end of the i64 range) x every type sequence over four offsets (a day, an hour, zero, minus an
/// hour); readings on the last / first day. Here a search may fail half-way (a result or the description of a gap is not
/// representable) after other results were already produced: the buffer search of every length 0..5 must fail exactly like
/// the allocating one, or report the same count (C17; nothing else is judged, the model-based sweeps stay inside the range)
fn sweep_range_end_errors(ctx: &Ctx) -> Tally {
    let offs: [i32; 4] = [86400, 3600, 0, -3600];
    let mut layouts: Vec<(bool, Vec<i64>)> = vec![];
    for top in [true, false] {
        let lim = if top { MAX_UNIX_TIME } else { MIN_UNIX_TIME };
        let pts: Vec<i64> = [-90000i64, -80000, -3700, -100, -1, 1, 100, 3700, 80000, 90000].iter().map(|d| lim + d).collect();
        for a in 0..pts.len() {
            layouts.push((top, vec![pts[a]]));
            for b in a + 1..pts.len() {
                layouts.push((top, vec![pts[a], pts[b]]));
                for c in b + 1..pts.len() {
                    layouts.push((top, vec![pts[a], pts[b], pts[c]]));
                }
            }
        }
    }
    let t = layouts
        .par_iter()
        .map(|(top, times)| {
            let mut tl = Tally::default();
            let lim = if *top { MAX_UNIX_TIME } else { MIN_UNIX_TIME };
            let k = times.len();
            let r = guard(|| {
                let mut tl = Tally::default();
                for code in 0..4usize.pow(k as u32 + 1) {
                    // type sequence: initial type, then one per transition; consecutive types differ
                    let seq: Vec<usize> = (0..=k).map(|i| (code / 4usize.pow(i as u32)) % 4).collect();
                    if seq.windows(2).any(|w| w[0] == w[1]) {
                        continue;
                    }
                    for end_marker in [false, true] {
                        let types: Vec<MType> = (0..4).map(|i| MType::new(offs[(i + seq[0]) % 4], false, Some(["AAA", "BBB", "CCC", "DDD"][i]))).collect();
                        // type index j of the zone has offset offs[(j + seq[0]) % 4]: index 0 is the initial type
                        let idx = |s: usize| (s + 4 - seq[0]) % 4;
                        let mut trans: Vec<(i64, usize)> = times.iter().enumerate().map(|(i, &t)| (t, idx(seq[i + 1]))).collect();
                        if end_marker {
                            if *top {
                                trans.push((i64::MAX, idx(seq[k])));
                            } else {
                                trans.insert(0, (i64::MIN + 1, 0));
                            }
                        }
                        let z = MZone { trans, types, leaps: vec![], rule: None };
                        let iz = match ImplZone::from_model(&z) {
                            Ok(i) => i,
                            Err(_) => continue,
                        };
                        let zr = match iz.zref() {
                            Ok(r) => r,
                            Err(_) => {
                                tl.refused_zones += 1;
                                continue;
                            }
                        };
                        tl.zones += 1;
                        let mut ls: Vec<i64> = vec![];
                        for &tt in times.iter().chain([lim].iter()) {
                            for &o in &offs {
                                for d in [-11i64, -1, 0, 1, 11] {
                                    ls.push(tt + o as i64 + d);
                                }
                            }
                        }
                        ls.sort();
                        ls.dedup();
                        for &l in &ls {
                            if let Some(f) = Fields::of_local(ctx.cyc, l, 0) {
                                check_error_agreement(ctx, &z, zr, &f, "range_end_errors", &mut tl);
                            }
                        }
                    }
                }
                tl
            });
            match r {
                Ok(t2) => tl = tl.merge(t2),
                Err(m) => ctx.rec.violation("range_end_errors", json!({"kind":"range_end_layout","top":top,"times":times}), json!("no panic"), json!(m)),
            }
            tl
        })
        .reduce(Tally::default, Tally::merge);
    ctx.rec.sub("range_end_errors", t.json());
    t
}

pub fn rule_zone(r: &RuleSpec, line: Arc<Timeline>) -> MZone {
    let (ms, md) = (crate::rule::std_type(r), crate::rule::dst_type(r));
    MZone { trans: vec![], types: vec![ms, md], leaps: vec![], rule: Some(MRule::alt_with_line(*r, ms, md, line)) }
}

/// local readings around every rule transition of year y
fn rule_readings(line: &Timeline, r: &RuleSpec, tabs: &Tables, y: i64, out: &mut Vec<i64>) {
    for x in [line.sy(y), line.ey(y)] {
        for off in [r.std_off, r.dst_off] {
            for d in -1..=1 {
                out.push(x + off + d);
            }
        }
        // middle of a possible gap/fold
        out.push(x + (r.std_off + r.dst_off) / 2);
    }
    let ny = tabs.new_year(y);
    out.push(ny - 1);
    out.push(ny);
    out.push((line.sy(y) + line.ey(y)) / 2 + r.std_off);
}

fn sweep_rule_only(ctx: &Ctx, tabs: &Tables, years: i64, include_noninterleaving: bool, name: &str) -> Tally {
    let days = quick_days();
    let combos = quick_combos();
    let nd = days.len();
    let t = (0..nd * nd)
        .into_par_iter()
        .map(|ij| {
            let (i, j) = (ij / nd, ij % nd);
            let mut tl = Tally::default();
            let r = guard(|| {
                let mut tl = Tally::default();
                // all zones of this day pair first; then year by year, zone by zone: consecutive searches on this thread then
                // hit different rules with the same rule days in the same year (a cache keyed by year + days would collide)
                let mut zs: Vec<(RuleSpec, Arc<Timeline>, MZone, ImplZone)> = vec![];
                for &(st, et, o) in combos.iter() {
                    let r = spec(days[i], days[j], st, et, o);
                    let (ms, md) = (crate::rule::std_type(&r), crate::rule::dst_type(&r));
                    if alt(&r, &ms, &md).is_err() {
                        continue;
                    }
                    let line = Arc::new(Timeline::from_tables(&r, tabs.tab(r.start), tabs.tab(r.end)));
                    let class = line.classify();
                    let want = match class {
                        Class::StartFirst | Class::EndFirst => !include_noninterleaving,
                        Class::NonInterleaving => include_noninterleaving,
                        Class::Degenerate => false,
                    };
                    if !want {
                        continue;
                    }
                    let z = rule_zone(&r, line.clone());
                    let iz = ImplZone::from_model(&z).unwrap();
                    zs.push((r, line, z, iz));
                    tl.zones += 1;
                }
                let y0 = 2001 + ((i * 7 + j * 3) as i64 % 10) * 28;
                let mut ls = vec![];
                // pairwise alternation: for every ordered pair of zones of this day pair, search a, b, a at corresponding readings
                // of one year (single-entry caches keyed by a subset of the rule would serve b with a's data)
                {
                    let y = y0 + 1;
                    let per_zone: Vec<Vec<i64>> = zs
                        .iter()
                        .map(|(r, line, _, _)| vec![line.sy(y) + r.std_off, line.sy(y) + (r.std_off + r.dst_off) / 2, line.ey(y) + r.dst_off - 1, line.ey(y) + (r.std_off + r.dst_off) / 2, (line.sy(y) + line.ey(y)) / 2 + r.std_off])
                        .collect();
                    for a in 0..zs.len() {
                        for b in 0..zs.len() {
                            if a == b {
                                continue;
                            }
                            for k in 0..per_zone[a].len() {
                                for &zi in &[a, b, a] {
                                    let (_, _, z, iz) = &zs[zi];
                                    if let Some(f) = Fields::of_local(ctx.cyc, per_zone[zi][k], 0) {
                                        check_search(ctx, z, iz.zref().unwrap(), &f, name, &mut tl);
                                    }
                                }
                            }
                        }
                    }
                }
                for y in y0..y0 + years {
                    for (r, line, z, iz) in &zs {
                        let zr = iz.zref().unwrap();
                        ls.clear();
                        rule_readings(line, r, tabs, y, &mut ls);
                        ls.sort();
                        ls.dedup();
                        for &l in &ls {
                            if let Some(f) = Fields::of_local(ctx.cyc, l, 0) {
                                check_search(ctx, z, zr, &f, name, &mut tl);
                            }
                        }
                    }
                }
                tl
            });
            match r {
                Ok(t) => tl = tl.merge(t),
                Err(m) => ctx.rec.violation(name, json!({"kind":"rule_row","start":days[i].text(),"end":days[j].text()}), json!("no panic"), json!(m)),
            }
            tl
        })
        .reduce(Tally::default, Tally::merge);
    ctx.rec.sub(name, t.json());
    t
}

/// searches in rule-only zones whose day times / offsets sit at numeric thresholds (rulealpha::grid_*): every pair of grid day
/// times on three day pairs, every pair of grid offsets on two; two years per zone, readings around every rule transition
fn sweep_rule_time_grid(ctx: &Ctx, tabs: &Tables, thorough: bool) -> Tally {
    let (ts, os) = (grid_times(), grid_offsets());
    let pairs = grid_day_pairs();
    let mut specs: Vec<RuleSpec> = vec![];
    for &(a, b) in pairs.iter().take(if thorough { 8 } else { 3 }) {
        for &st in &ts {
            for &et in &ts {
                specs.push(spec(a, b, st, et, (0, H)));
            }
        }
    }
    for &(a, b) in pairs.iter().skip(1).take(if thorough { 6 } else { 2 }) {
        for &so in &os {
            for &dof in &os {
                specs.push(spec(a, b, 2 * H, 2 * H, (so, dof)));
            }
        }
    }
    let name = "rule_time_grid";
    let t = specs
        .par_chunks(64)
        .enumerate()
        .map(|(ci, chunk)| {
            let mut tl = Tally::default();
            let r = guard(|| {
                let mut tl = Tally::default();
                let mut ls = vec![];
                for (k, r) in chunk.iter().enumerate() {
                    let (ms, md) = (crate::rule::std_type(r), crate::rule::dst_type(r));
                    if alt(r, &ms, &md).is_err() {
                        continue;
                    }
                    let line = Arc::new(Timeline::from_tables(r, tabs.tab(r.start), tabs.tab(r.end)));
                    if !matches!(line.classify(), Class::StartFirst | Class::EndFirst) {
                        continue;
                    }
                    let z = rule_zone(r, line.clone());
                    let iz = ImplZone::from_model(&z).unwrap();
                    let zr = iz.zref().unwrap();
                    tl.zones += 1;
                    let y0 = 2001 + ((ci * 64 + k) as i64 % 27);
                    for y in y0..y0 + 2 {
                        ls.clear();
                        rule_readings(&line, r, tabs, y, &mut ls);
                        ls.sort();
                        ls.dedup();
                        for &l in &ls {
                            if let Some(f) = Fields::of_local(ctx.cyc, l, 0) {
                                check_search(ctx, &z, zr, &f, name, &mut tl);
                            }
                        }
                    }
                }
                tl
            });
            match r {
                Ok(t) => tl = tl.merge(t),
                Err(m) => ctx.rec.violation(name, json!({"kind":"rule_grid_chunk","chunk":ci}), json!("no panic"), json!(m)),
            }
            tl
        })
        .reduce(Tally::default, Tally::merge);
    ctx.rec.sub(name, t.json());
    t
}

/// searches of one rule-only zone around its own transitions and at both ends of the given years (I4: local and UTC year of
/// every candidate instant inside [i32::MIN + 2, i32::MAX - 2]); the model evaluates the rule directly (no year window)
fn extreme_years_for_rule(ctx: &Ctx, r: RuleSpec, years: &[i64], tl: &mut Tally) {
    let cyc = ctx.cyc;
    let (ylo, yhi) = (i32::MIN as i64 + 2, i32::MAX as i64 - 2);
    let (ms, md) = (crate::rule::std_type(&r), crate::rule::dst_type(&r));
    if alt(&r, &ms, &md).is_err() {
        return;
    }
    let rule = MRule::alt(cyc, r, ms, md);
    if !matches!(rule, MRule::Alt { class: Class::StartFirst | Class::EndFirst, .. }) {
        return;
    }
    let z = MZone { trans: vec![], types: vec![ms, md], leaps: vec![], rule: Some(rule) };
    let iz = ImplZone::from_model(&z).unwrap();
    let zr = iz.zref().unwrap();
    tl.zones += 1;
    let mut ls: Vec<i64> = vec![];
    for &y in years {
        for x in [r.s(cyc, y), r.e(cyc, y)] {
            for off in [r.std_off, r.dst_off] {
                for d in -1..=1 {
                    ls.push(x + off + d);
                }
            }
            ls.push(x + (r.std_off + r.dst_off) / 2);
        }
        ls.push((r.s(cyc, y) + r.e(cyc, y)) / 2 + r.std_off);
        // both ends of the year
        let ny = cyc.timegm(y, 1, 1, 0, 0, 0);
        let ny1 = cyc.timegm(y + 1, 1, 1, 0, 0, 0);
        for l in [ny, ny + 1, ny + 86_400 * 20, ny1 - 1, ny1 - 86_400 * 20] {
            ls.push(l);
        }
    }
    ls.sort();
    ls.dedup();
    for &l in &ls {
        let in_domain = [l, l - r.std_off, l - r.dst_off].iter().all(|&t| {
            let yy = cyc.gmtime(t).0.year;
            yy >= ylo && yy <= yhi
        });
        if !in_domain {
            continue;
        }
        if let Some(f) = Fields::of_local(cyc, l, 7) {
            check_search(ctx, &z, zr, &f, "rule_extreme_years", tl);
        }
    }
}

/// rule-only zones searched in the first and last years the rule arithmetic supports; rules whose start and end coincide in
/// most years (tie families) over the first and last 12 years
fn sweep_rule_extreme_years(ctx: &Ctx) -> Tally {
    let days = quick_days();
    let combos = quick_combos();
    let nd = days.len();
    let (ylo, yhi) = (i32::MIN as i64 + 2, i32::MAX as i64 - 2);
    let ties = crate::rule::tie_specs();
    let t = (0..nd * nd + ties.len())
        .into_par_iter()
        .map(|ij| {
            let mut tl = Tally::default();
            let r = guard(|| {
                let mut tl = Tally::default();
                if ij < nd * nd {
                    let (i, j) = (ij / nd, ij % nd);
                    for &(st, et, o) in combos.iter() {
                        extreme_years_for_rule(ctx, spec(days[i], days[j], st, et, o), &[ylo, ylo + 1, yhi - 1, yhi], &mut tl);
                    }
                } else {
                    let years: Vec<i64> = (0..12).map(|k| ylo + k).chain((0..12).map(|k| yhi - k)).collect();
                    extreme_years_for_rule(ctx, ties[ij - nd * nd], &years, &mut tl);
                }
                tl
            });
            match r {
                Ok(t) => tl = tl.merge(t),
                Err(m) => ctx.rec.violation("rule_extreme_years", json!({"kind":"rule_row","index":ij}), json!("no panic"), json!(m)),
            }
            tl
        })
        .reduce(Tally::default, Tally::merge);
    ctx.rec.sub("rule_extreme_years", t.json());
    t
}

/// rule-only zones whose start and end instants coincide in at least half of the years of the cycle but not in all (the order
/// of the two events of a tie year comes from other years): searched around both events in every year of the 400-year cycle
fn sweep_tie_rules(ctx: &Ctx, tabs: &Tables, thorough: bool) -> Tally {
    let days = crate::rule::tie_days(false, tabs);
    let nd = days.len();
    let idx: Vec<usize> = days.iter().map(|d| tabs.index_of(*d)).collect();
    let t = (0..nd * nd)
        .into_par_iter()
        .map(|ij| {
            let (i, j) = (ij / nd, ij % nd);
            let mut tl = Tally::default();
            let (ta, tb) = (&tabs.tabs[idx[i]], &tabs.tabs[idx[j]]);
            let mut count = [0u32; 13];
            for y in 2000..2400 {
                let k = tb.get(y) - ta.get(y);
                if (-6..=6).contains(&k) {
                    count[(k + 6) as usize] += 1;
                }
            }
            for kk in 0..13usize {
                if count[kk] < 200 || count[kk] == 400 {
                    continue;
                }
                let k = kk as i64 - 6;
                let mut pats: Vec<(i64, i64)> = vec![(H + k.max(0) * D, H + (-k).max(0) * D)];
                if k > 0 {
                    pats.push((H, H - k * D));
                } else if k < 0 {
                    pats.push((H + k * D, H));
                } else if thorough {
                    pats.push((-H, -H));
                }
                for (us, ue) in pats {
                    for o in [(0i64, H), (H, 0)] {
                        let r = spec(days[i], days[j], us + o.0, ue + o.1, o);
                        let res = guard(|| {
                            let mut tl = Tally::default();
                            let (ms, md) = (crate::rule::std_type(&r), crate::rule::dst_type(&r));
                            if alt(&r, &ms, &md).is_err() {
                                return tl;
                            }
                            let line = Arc::new(Timeline::from_tables(&r, tabs.tab(r.start), tabs.tab(r.end)));
                            if !matches!(line.classify(), Class::StartFirst | Class::EndFirst) {
                                return tl;
                            }
                            let z = rule_zone(&r, line.clone());
                            let iz = ImplZone::from_model(&z).unwrap();
                            let zr = iz.zref().unwrap();
                            tl.zones += 1;
                            for y in 2000..2400i64 {
                                let (s, e) = (line.sy(y), line.ey(y));
                                for l in [s + r.std_off - 1, s + r.std_off, s + r.dst_off, e + r.dst_off - 1, e + r.std_off, (s + e) / 2 + 40 * D + r.std_off] {
                                    if let Some(f) = Fields::of_local(ctx.cyc, l, 0) {
                                        check_search(ctx, &z, zr, &f, "tie_rules", &mut tl);
                                    }
                                }
                            }
                            tl
                        });
                        match res {
                            Ok(t) => tl = tl.merge(t),
                            Err(m) => ctx.rec.violation("tie_rules", json!({"kind":"rule_row","start":days[i].text(),"end":days[j].text()}), json!("no panic"), json!(m)),
                        }
                    }
                }
            }
            tl
        })
        .reduce(Tally::default, Tally::merge);
    ctx.rec.sub("tie_rules", t.json());
    t
}

/// one local reading that occurs up to 11 times (types with offsets falling by 1000 s every 1000 s) or is skipped by as many
/// gaps (offsets rising): result lists longer than any inline capacity
fn sweep_many_results(ctx: &Ctx) -> Tally {
    let cyc = ctx.cyc;
    let mut tl = Tally::default();
    // up to 20 results through the reused 24-slot buffer; 2^j - 1 .. 2^j + 2 results (j <= 8) through a buffer of k + 8 slots
    let mut ks = vec![7usize, 8, 9, 10, 11, 15, 16, 17, 20, 24, 25];
    for j in 5..=8u32 {
        for d in [-1i64, 0, 1, 2] {
            ks.push(((1i64 << j) + d) as usize);
        }
    }
    for k in ks {
        for rising in [false, true] {
            for rule_kind in 0..2 {
                if k > 40 && rule_kind == 1 && rising {
                    continue;
                }
                let r = guard(|| {
                    BIG_RESULTS.with(|c| c.set(if k > 20 { k + 8 } else { 0 }));
                    let mut tl = Tally::default();
                    let types: Vec<MType> = (0..k).map(|i| MType::new(if rising { 1000 * i as i32 } else { 30_000 - 1000 * i as i32 }, i % 2 == 1, Some(&format!("T{:02}", i)))).collect();
                    let trans: Vec<(i64, usize)> = (1..k).map(|i| (1000 * i as i64, i)).collect();
                    let rule = if rule_kind == 1 { Some(MRule::Fixed(types[k - 1])) } else { None };
                    let z = MZone { trans, types, leaps: vec![], rule };
                    let iz = ImplZone::from_model(&z).unwrap();
                    let zr = iz.zref().unwrap();
                    tl.zones += 1;
                    let hi = 42_000i64.max(2100 * k as i64);
                    // (with falling offsets every type shows the readings 30 000 .. 30 999: k results)
                    let coarse = (-2000i64..=hi).step_by(if k > 40 { 1750 } else { 250 });
                    for l in coarse.chain((29_500i64..=31_500).step_by(250)) {
                        if let Some(f) = Fields::of_local(cyc, l, 0) {
                            check_search(ctx, &z, zr, &f, "many_results", &mut tl);
                        }
                    }
                    BIG_RESULTS.with(|c| c.set(0));
                    tl
                });
                BIG_RESULTS.with(|c| c.set(0));
                match r {
                    Ok(t) => tl = tl.merge(t),
                    Err(m) => ctx.rec.violation("many_results", json!({"kind":"many_results","k":k,"rising":rising}), json!("no panic"), json!(m)),
                }
            }
        }
    }
    ctx.rec.sub("many_results", tl.json());
    tl
}

/// result lists around 2^16 entries (a counter or an index narrowed to 16 bits): K local time types with offsets 0, -1, -2, ..
/// and a transition to type i at 1 000 000 + i make the reading 1 000 000 occur once in every period. The expected list is
/// known in closed form (instants 1 000 000 + i, ascending, type i), so the general model (quadratic here) is not needed;
/// the buffer search runs at lengths 0, 1, 65 535, 65 536, 65 537, R - 1, R, R + 2 against the allocating one.
fn sweep_huge_results(ctx: &Ctx) -> Tally {
    let mut tl = Tally::default();
    // the allocating search exists with feature alloc only
    #[cfg(feature = "tz-alloc")]
    for (k, with_rule) in [(65_535usize, false), (65_536, false), (65_537, false), (65_537, true), (65_540, false), (70_001, true)] {
        let r = guard(|| {
            let mut tl = Tally::default();
            let types: Vec<MType> = (0..k).map(|i| MType::new(-(i as i32), false, None)).collect();
            let trans: Vec<(i64, usize)> = (1..k).map(|i| (1_000_000 + i as i64, i)).collect();
            let rule = if with_rule { Some(MRule::Fixed(types[k - 1])) } else { None };
            let z = MZone { trans, types, leaps: vec![], rule };
            let iz = ImplZone::from_model(&z).unwrap();
            let zr = iz.zref().unwrap();
            tl.zones += 1;
            // the last table transition opens no period of its own without a trailing rule (I10)
            let expect: Vec<i64> = (0..if with_rule { k } else { k - 1 }).map(|i| 1_000_000 + i as i64).collect();
            let f = Fields::of_local(ctx.cyc, 1_000_000, 0).unwrap();
            let case = |what: &str| json!({"kind":"huge_results","types":k,"trailing_rule":with_rule,"what":what});
            tl.searches += 1;
            let all: Vec<FoundDateTimeKind> = match DateTime::find(f.y, f.mo, f.d, f.h, f.mi, f.s, f.ns, zr) {
                Ok(l) => l.into_inner(),
                Err(e) => {
                    for p in [Prop::C05, Prop::C17] {
                        if ctx.prop == p {
                            ctx.rec.violation("huge_results", case("allocating search"), json!(format!("{} results", expect.len())), json!(err_name(&e)));
                        }
                    }
                    return tl;
                }
            };
            let got: Vec<i64> = all.iter().map(|x| match x { FoundDateTimeKind::Normal(d) => d.unix_time(), FoundDateTimeKind::Skipped { .. } => i64::MIN }).collect();
            if got != expect && (ctx.prop == Prop::C05 || ctx.prop == Prop::C06) {
                let first_bad = got.iter().zip(expect.iter()).position(|(a, b)| a != b).unwrap_or(got.len().min(expect.len()));
                ctx.rec.violation("huge_results", case("allocating search"), json!({"results": expect.len()}), json!({"results": got.len(), "first_difference_at_index": first_bad}));
            }
            if ctx.prop == Prop::C17 {
                let r_all = all.len();
                for n in [0usize, 1, 65_535, 65_536, 65_537, r_all.saturating_sub(1), r_all, r_all + 2] {
                    tl.searches += 1;
                    let mut buf = vec![stale_entry(); n];
                    match DateTime::find_n(&mut buf, f.y, f.mo, f.d, f.h, f.mi, f.s, f.ns, zr) {
                        Err(e) => ctx.rec.violation("huge_results", case("buffer search"), json!({"buffer_len": n, "count": r_all}), json!(err_name(&e))),
                        Ok(l) => {
                            let (count, exh) = (l.count(), l.is_exhaustive());
                            let m = n.min(r_all);
                            let written_ok = buf[..m].iter().zip(all.iter()).all(|(a, b)| a.as_ref().map_or(false, |a| kind_exact_eq(a, b)));
                            let rest_ok = buf[m..].iter().all(|s| opt_kind_exact_eq(s, &stale_entry()));
                            if count != r_all || exh != (n >= r_all) || !written_ok || !rest_ok {
                                ctx.rec.violation("huge_results", case("buffer search"), json!({"buffer_len": n, "count": r_all, "exhaustive": n >= r_all, "first min(n,k) slots equal the allocating list": true, "other slots untouched": true}), json!({"count": count, "exhaustive": exh, "first slots equal": written_ok, "other slots untouched": rest_ok}));
                            }
                        }
                    }
                }
            }
            tl
        });
        match r {
            Ok(t2) => tl = tl.merge(t2),
            Err(m) => ctx.rec.violation("huge_results", json!({"kind":"huge_results","types":k,"trailing_rule":with_rule,"what":"panic"}), json!("no panic"), json!(m)),
        }
    }
    ctx.rec.sub("huge_results", tl.json());
    tl
}

/// table + rule whose start and end coincide in some years (tie families): the last table transition sits near the coincident
/// instant, before and after it, in tie years and in the other years; every reading around it is searched
fn sweep_junction_ties(ctx: &Ctx) -> Tally {
    let cyc = ctx.cyc;
    let mut specs = crate::rule::tie_specs();
    // the same families with a daylight offset below the standard offset and with a two-hour saving
    for r in crate::rule::tie_specs() {
        specs.push(RuleSpec { std_off: 3600, dst_off: 0, start_time: r.start_time + 3600, end_time: r.end_time - 3600, ..r });
        specs.push(RuleSpec { dst_off: 7200, end_time: r.end_time + 3600, ..r });
    }
    let t = specs
        .par_iter()
        .map(|r| {
            let mut tl = Tally::default();
            let res = guard(|| {
                let mut tl = Tally::default();
                let (ms, md) = (crate::rule::std_type(r), crate::rule::dst_type(r));
                if alt(r, &ms, &md).is_err() {
                    return tl;
                }
                let rule = MRule::alt(cyc, *r, ms, md);
                if !matches!(rule, MRule::Alt { class: Class::StartFirst | Class::EndFirst, .. }) {
                    return tl;
                }
                let base = MZone { trans: vec![], types: vec![ms, md, MType::new(-7200, false, Some("LMT"))], leaps: vec![], rule: Some(rule) };
                for y in 2019..=2026i64 {
                    for x in [r.s(cyc, y), r.e(cyc, y)] {
                        for dl in [-86_400i64, -7200, -3600, -1800, -1, 0, 1, 1800, 3600] {
                            let t_last = x + dl;
                            let ty = match base.rule_type(cyc, t_last) {
                                Ok(t) => *t,
                                Err(_) => continue,
                            };
                            let last_idx = if ty.dst { 1 } else { 0 };
                            for prefix in 0..5 {
                                let mut z = base.clone();
                                z.trans = match prefix {
                                    0 => vec![(t_last, last_idx)],
                                    1 => vec![(t_last - 7200, 2), (t_last, last_idx)],
                                    2 => vec![(t_last - 86_400, last_idx), (t_last - 3600, 1 - last_idx), (t_last, last_idx)],
                                    _ => {
                                        // the table's type list lacks the rule's other type; the table-only type has the largest
                                        // (3) or the smallest (4) offset of the zone
                                        let other = if prefix == 3 { r.std_off.max(r.dst_off) + 7200 } else { r.std_off.min(r.dst_off) - 7200 };
                                        z.types = vec![MType::new(other as i32, false, Some("LMT")), ty];
                                        vec![(t_last - 5400, 0), (t_last, 1)]
                                    }
                                };
                                let iz = ImplZone::from_model(&z).unwrap();
                                let zr = match iz.zref() {
                                    Ok(zr) => zr,
                                    Err(_) => {
                                        tl.refused_zones += 1;
                                        continue;
                                    }
                                };
                                tl.zones += 1;
                                let mut ls = vec![];
                                for off in z.offsets() {
                                    let off = off as i64;
                                    for d in [-1i64, 0, 1, 900, 1800, 2700] {
                                        ls.push(t_last + off + d);
                                        ls.push(x + off + d);
                                        ls.push(t_last - 3600 + off + d);
                                    }
                                }
                                ls.sort();
                                ls.dedup();
                                for l in ls {
                                    if let Some(f) = Fields::of_local(cyc, l, 1) {
                                        check_search(ctx, &z, zr, &f, "junction_ties", &mut tl);
                                    }
                                }
                            }
                        }
                    }
                }
                tl
            });
            match res {
                Ok(t) => tl = tl.merge(t),
                Err(m) => ctx.rec.violation("junction_ties", json!({"kind":"rule_row","start":r.start.text(),"end":r.end.text()}), json!("no panic"), json!(m)),
            }
            tl
        })
        .reduce(Tally::default, Tally::merge);
    ctx.rec.sub("junction_ties", t.json());
    t
}

/// long call histories on one thread: a search in a three-type zone, N searches in a two-type zone (which never touch the
/// third type), then a different search in the three-type zone, for every N in {2^k - 2 .. 2^k + 1}, k = 4..=17 (state that
/// is recycled by a wrapping counter or a fixed-capacity table shows only after that many calls)
fn sweep_long_histories(ctx: &Ctx) -> Tally {
    let cyc = ctx.cyc;
    let mut tl = Tally::default();
    let r = guard(|| {
        let mut tl = Tally::default();
        let t3 = vec![MType::new(0, false, Some("AAA")), MType::new(3600, true, Some("BBB")), MType::new(7200, false, Some("CCC"))];
        let z3 = MZone { trans: vec![(800_000_000, 1), (801_000_000, 2), (802_000_000, 0), (959_000_000, 2), (960_000_000, 1)], types: t3.clone(), leaps: vec![(78_796_800, 1)], rule: Some(MRule::Fixed(t3[1])) };
        let t2 = vec![MType::new(-18_000, false, Some("EST")), MType::new(-14_400, true, Some("EDT"))];
        let z2 = MZone { trans: vec![(500_000_000, 1), (510_000_000, 0), (520_000_000, 1)], types: t2.clone(), leaps: vec![(78_796_800, 1)], rule: Some(MRule::Fixed(t2[1])) };
        let (i3, i2) = (ImplZone::from_model(&z3).unwrap(), ImplZone::from_model(&z2).unwrap());
        let (r3, r2) = (i3.zref().unwrap(), i2.zref().unwrap());
        let probes3 = [801_500_000i64 + 7200, 959_500_000 + 7200, 801_000_000 + 3600 + 1800, 960_000_000 + 7200];
        let mut ns: Vec<usize> = vec![];
        for k in 4..=17u32 {
            for d in [-2i64, -1, 0, 1] {
                ns.push(((1i64 << k) + d) as usize);
            }
        }
        // every history twice: with one search per judged reading, and with all the routes check_search judges
        for (j, &n) in ns.iter().chain(ns.iter()).enumerate() {
            SINGLE_SEARCH.with(|c| c.set(j < ns.len()));
            let a = Fields::of_local(cyc, probes3[j % 4], 0).unwrap();
            let b = Fields::of_local(cyc, probes3[(j + 1) % 4], 0).unwrap();
            check_search(ctx, &z3, r3, &a, "long_histories", &mut tl);
            for f in 0..n {
                let l = 505_000_000 + (f as i64 % 1000) * 3600 - 18_000;
                if let Some(x) = Fields::of_local(cyc, l, 0) {
                    check_search(ctx, &z2, r2, &x, "long_histories", &mut tl);
                }
            }
            check_search(ctx, &z3, r3, &b, "long_histories", &mut tl);
        }
        SINGLE_SEARCH.with(|c| c.set(false));
        tl
    });
    SINGLE_SEARCH.with(|c| c.set(false));
    match r {
        Ok(t) => tl = tl.merge(t),
        Err(m) => ctx.rec.violation("long_histories", json!({"kind":"long_histories"}), json!("no panic"), json!(m)),
    }
    ctx.rec.sub("long_histories", tl.json());
    tl
}

/// table + DST rule: the last table transition sits at delta from a rule transition
pub fn sweep_junction(ctx: &Ctx, tabs: &Tables, thorough: bool, leap_only: bool, light: bool) -> Tally {
    let cyc = ctx.cyc;
    let days = quick_days();
    let combos = quick_combos();
    let nd = days.len();
    let deltas: [i64; 8] = [-86400, -3600, -1, 0, 1, 3600, 86400, 40 * 86400];
    let stride = if thorough { 1 } else { 3 };
    let t = (0..nd * nd)
        .into_par_iter()
        .filter(|ij| ij % stride == 0)
        .map(|ij| {
            let (i, j) = (ij / nd, ij % nd);
            let mut tl = Tally::default();
            let r = guard(|| {
                let mut tl = Tally::default();
                for (k, &(st, et, o)) in combos.iter().enumerate() {
                    if !thorough && (i + j + k) % 4 != 0 {
                        continue;
                    }
                    if leap_only && (i + j + k) % 8 != 0 {
                        continue;
                    }
                    let r = spec(days[i], days[j], st, et, o);
                    let (ms, md) = (crate::rule::std_type(&r), crate::rule::dst_type(&r));
                    if alt(&r, &ms, &md).is_err() {
                        continue;
                    }
                    let line = Arc::new(Timeline::from_tables(&r, tabs.tab(r.start), tabs.tab(r.end)));
                    let class = line.classify();
                    if !matches!(class, Class::StartFirst | Class::EndFirst) {
                        continue;
                    }
                    let y = 2003 + ((i + 5 * j) as i64 % 40);
                    let base = rule_zone(&r, line.clone());
                    for x in [line.sy(y), line.ey(y)] {
                        for &dl in &deltas {
                            let t_last = x + dl;
                            // the last transition carries the rule's own type at that instant (constructor requirement)
                            let ty = match base.rule_type(cyc, t_last) {
                                Ok(t) => *t,
                                Err(_) => continue,
                            };
                            let last_idx = if ty.dst { 1 } else { 0 };
                            // leap-second variants: a record whose UTC instant sits at the rule transition -1/0/+1 (table x rule x
                            // leap seconds), on a subset
                            let mut leap_variants: Vec<Vec<(i64, i32)>> = if leap_only { vec![] } else { vec![vec![]] };
                            if !light && (i + j + k) % 8 == 0 && x > 4 * DAY28 {
                                for (c0, step) in [(1i32, 1i32), (1, -1), (-1, -1), (-1, 1)] {
                                    for dpos in [-1i64, 0, 1] {
                                        let l1 = x + dpos + c0 as i64;
                                        leap_variants.push(vec![(l1 - 3 * DAY28, c0), (l1, c0 + step)]);
                                    }
                                }
                            }
                            for (lv, prefix) in leap_variants.iter().flat_map(|lv| (0..5).map(move |p| (lv, p))) {
                                if !lv.is_empty() && prefix >= 2 {
                                    continue;
                                }
                                let mut z = base.clone();
                                z.types.push(MType::new(-7200, false, Some("LMT")));
                                z.leaps = lv.clone();
                                // transition times are counts: the last transition takes effect at UTC instant t_last
                                let t_last_c = match z.to_count(t_last) {
                                    Some(c) => c,
                                    None => continue,
                                };
                                // I5: a transition recorded exactly at a negative leap record denotes a deleted label (the constructor's
                                // reading to_utc and the switch instant differ by one second): not a junction case
                                if !lv.is_empty() && (z.switch_instant(t_last_c) != Some(t_last) || z.to_utc(t_last_c) != Some(t_last)) {
                                    // t_last is a label that no count denotes exactly (deleted / repeated second): skip this placement
                                    continue;
                                }
                                z.trans = match prefix {
                                    0 => vec![(t_last_c, last_idx)],
                                    1 => vec![(t_last_c - 7200, 2), (t_last_c, last_idx)],
                                    2 => vec![(t_last_c - 100 * 86400, 1 - last_idx), (t_last_c - 3600, 2), (t_last_c, last_idx)],
                                    _ => {
                                        // the table's type list lacks the rule's other type; the table-only type has the largest (3) or
                                        // the smallest (4) offset of the zone
                                        let other = if prefix == 3 { r.std_off.max(r.dst_off) + 7200 } else { r.std_off.min(r.dst_off) - 7200 };
                                        z.types = vec![MType::new(other as i32, false, Some("LMT")), ty];
                                        vec![(t_last_c - 5400, 0), (t_last_c, 1)]
                                    }
                                };
                                let iz = ImplZone::from_model(&z).unwrap();
                                let zr = match iz.zref() {
                                    Ok(r) => r,
                                    Err(_) => {
                                        tl.refused_zones += 1;
                                        // the model chose the type so that the constructor must accept - unless KF1 applies
                                        if known_for(ctx, &z, y).is_none() && matches!(ctx.prop, Prop::C05 | Prop::C06) {
                                            ctx.rec.violation("junction", json!({"kind":"zone_refused","zone":zone_json(&z)}), json!("constructor accepts (last transition carries the rule's type)"), json!("refused"));
                                        }
                                        continue;
                                    }
                                };
                                tl.zones += 1;
                                let mut ls = vec![];
                                for off in z.offsets() {
                                    let off = off as i64;
                                    for d in [-1, 0, 1] {
                                        ls.push(t_last + off + d);
                                        ls.push(t_last - 3600 + off + d);
                                        ls.push(x + off + d);
                                    }
                                }
                                rule_readings(&line, &r, tabs, y, &mut ls);
                                rule_readings(&line, &r, tabs, y + 1, &mut ls);
                                ls.sort();
                                ls.dedup();
                                for l in ls {
                                    if let Some(f) = Fields::of_local(cyc, l, 1) {
                                        check_search(ctx, &z, zr, &f, "junction", &mut tl);
                                    }
                                }
                            }
                        }
                    }
                }
                tl
            });
            match r {
                Ok(t) => tl = tl.merge(t),
                Err(m) => ctx.rec.violation("junction", json!({"kind":"rule_row","start":days[i].text(),"end":days[j].text()}), json!("no panic"), json!(m)),
            }
            tl
        })
        .reduce(Tally::default, Tally::merge);
    ctx.rec.sub(if leap_only { "junction_with_leap_seconds" } else { "junction" }, t.json());
    t
}

/// real zones of the vendored corpus: local readings around every transition (both local images +-1 s, gap/fold middles)
fn sweep_corpus(ctx: &Ctx, light: bool) -> Tally {
    let cyc = ctx.cyc;
    let (zones, skipped) = crate::corpus::model_zones(cyc);
    let t = zones
        .par_iter()
        .enumerate()
        .map(|(zi, (path, z))| {
            let mut tl = Tally::default();
            if light && zi % 4 != 0 {
                return tl;
            }
            let r = guard(|| {
                let mut tl = Tally::default();
                let iz = ImplZone::from_model(z).unwrap();
                let zr = match iz.zref() {
                    Ok(r) => r,
                    Err(e) => {
                        if matches!(ctx.prop, Prop::C05 | Prop::C06) {
                            ctx.rec.violation("corpus", json!({"kind":"corpus","path":path}), json!("zone decoded by the independent reader is accepted by the constructor"), json!(err_name(&e)));
                        }
                        return tl;
                    }
                };
                tl.zones += 1;
                let mut ls: Vec<i64> = vec![];
                let mut prev = z.types[0].off as i64;
                for &(t, i) in &z.trans {
                    let u = match z.switch_instant(t) {
                        Some(u) => u,
                        None => continue,
                    };
                    let cur = z.types[i].off as i64;
                    for o in [prev, cur] {
                        for d in -1i64..=1 {
                            ls.push(u + o + d);
                        }
                    }
                    ls.push(u + (prev + cur) / 2);
                    prev = cur;
                }
                if let Some(MRule::Alt { spec, .. }) = &z.rule {
                    let y0 = match z.trans.last() {
                        Some(&(t, _)) if t > -(1 << 40) && t < (1 << 40) => cyc.gmtime(t).0.year + 1,
                        _ => 2030,
                    };
                    for y in y0..y0 + 3 {
                        for x in [spec.s(cyc, y), spec.e(cyc, y)] {
                            for o in [spec.std_off, spec.dst_off] {
                                for d in -1i64..=1 {
                                    ls.push(x + o + d);
                                }
                            }
                        }
                    }
                }
                ls.sort();
                ls.dedup();
                for l in ls {
                    if l < MIN_UNIX_TIME + (1 << 32) || l > MAX_UNIX_TIME - (1 << 32) {
                        continue;
                    }
                    if let Some(f) = Fields::of_local(cyc, l, 0) {
                        check_search(ctx, z, zr, &f, "corpus", &mut tl);
                    }
                }
                tl
            });
            match r {
                Ok(t) => tl = tl.merge(t),
                Err(m) => ctx.rec.violation("corpus", json!({"kind":"corpus","path":path}), json!("no panic"), json!(m)),
            }
            tl
        })
        .reduce(Tally::default, Tally::merge);
    let mut j = t.json();
    j["files_not_expressible_in_the_model"] = json!(skipped);
    ctx.rec.sub("corpus", j);
    t
}

/// invalid searched fields / out-of-range: both entry points must fail alike (C17) ; never panic
fn sweep_errors(ctx: &Ctx) -> Tally {
    let cyc = ctx.cyc;
    let mut tl = Tally::default();
    let us = MZone { trans: vec![(1_000_000, 1), (2_000_000, 0)], types: tiny_types([3600, 7200, 0]), leaps: vec![], rule: Some(MRule::Fixed(MType::new(3600, false, Some("AAA")))) };
    let r = RuleSpec { std_off: -18000, dst_off: -14400, start: Day::M(3, 2, 0), start_time: 7200, end: Day::M(11, 1, 0), end_time: 7200 };
    let alt_zone = MZone { trans: vec![], types: vec![crate::rule::std_type(&r), crate::rule::dst_type(&r)], leaps: vec![], rule: Some(MRule::alt(cyc, r, crate::rule::std_type(&r), crate::rule::dst_type(&r))) };
    let plain = MZone { trans: vec![], types: tiny_types([0, 0, 0]), leaps: vec![], rule: None };
    // forward gaps straddling the ends of the supported range (building the gap entry itself can fail)
    let hi = MZone { trans: vec![(MAX_UNIX_TIME - 2399, 1), (MAX_UNIX_TIME - 100, 0)], types: tiny_types([0, 3600, 0]), leaps: vec![], rule: None };
    let hi2 = MZone { trans: vec![(MAX_UNIX_TIME - 5000, 0), (MAX_UNIX_TIME - 2399, 1), (MAX_UNIX_TIME - 100, 0)], types: tiny_types([0, 3600, 0]), leaps: vec![], rule: Some(MRule::Fixed(MType::new(0, false, Some("AAA")))) };
    let lo = MZone { trans: vec![(MIN_UNIX_TIME + 100, 1), (MIN_UNIX_TIME + 5000, 0)], types: tiny_types([-3600, 0, 0]), leaps: vec![], rule: None };
    for z in [&us, &alt_zone, &plain, &hi, &hi2, &lo] {
        let iz = ImplZone::from_model(z).unwrap();
        let zr = iz.zref().unwrap();
        for y in [i32::MIN, i32::MIN + 1, i32::MIN + 2, -1, 0, 1970, 2023, i32::MAX - 2, i32::MAX - 1, i32::MAX] {
            for (mo, d) in [(0u8, 1u8), (1, 0), (1, 1), (2, 29), (2, 30), (4, 31), (12, 31), (13, 1), (12, 32)] {
                for (h, mi, s) in [(0u8, 0u8, 0u8), (0, 0, 30), (0, 30, 0), (23, 0, 0), (23, 30, 0), (23, 59, 59), (23, 59, 60), (24, 0, 0), (0, 60, 0), (0, 0, 61)] {
                    for ns in [0u32, 999_999_999, 1_000_000_000] {
                        let f = Fields { y, mo, d, h, mi, s, ns };
                        if let Err(m) = guard(|| check_error_agreement(ctx, z, zr, &f, "error_agreement", &mut tl)) {
                            ctx.rec.violation("error_agreement", json!({"kind":"search_err","zone":zone_json(z),"fields":f.json()}), json!("no panic"), json!(m));
                        }
                    }
                }
            }
        }
    }
    ctx.rec.sub("error_agreement", json!({"searches": tl.searches, "failing_searches": tl.nontrivial}));
    tl
}

const DAY28: i64 = 28 * 86400;

/// all search sweeps; `light` = reduced alphabets (used when the sweeps only serve as the C14 monitor)
pub fn run_sweeps(ctx: &Ctx, tabs: &Tables, thorough: bool, light: bool) -> Tally {
    let prop = ctx.prop;
    let mut total = Tally::default();
    // 1. tiny world
    total = total.merge(sweep_tiny(ctx, if light { 3 } else if thorough { 6 } else { 5 }, 0, &[vec![]], if thorough { &[-3, -1, 0, 1, 4] } else { &TINY_OFFS }, "tiny_world"));
    // 5. leap zones: tiny world shifted behind a first leap record, second record placed among the transitions
    {
        let base = DAY28 + 1000;
        let mut variants: Vec<Vec<(i64, i32)>> = vec![];
        for c0 in [1i32, -1] {
            for step in [1i32, -1] {
                for pos in [99i64, 100, 101, 102, 103, 104, 105, 108, 130] {
                    variants.push(vec![(5, c0), (base + pos, c0 + step)]);
                }
            }
            variants.push(vec![(base + 101, c0)]);
        }
        let variants = if thorough || prop == Prop::C17 && false { variants } else { variants.into_iter().step_by(if light { 6 } else { 1 }).collect() };
        total = total.merge(sweep_tiny(ctx, if thorough { 3 } else { 2 }, base, &variants, &[-3, 0, 4], "leap_tiny_world"));
    }
    // 2. real scale
    total = total.merge(sweep_real_scale(ctx, thorough));
    // 2b. leap seconds x offsets at the ends of the i32 range
    total = total.merge(sweep_leap_extreme(ctx));
    // 2b'. more than 256 local time types
    total = total.merge(sweep_many_types(ctx, thorough));
    // 2b''. leap tables x offsets more than two record spacings apart
    if !light {
        total = total.merge(crate::leap::sweep_wide_offsets(ctx, thorough));
    }
    // 2c. both ends of the supported instant range
    total = total.merge(sweep_range_ends(ctx));
    // 2c'. searches that fail half-way at the ends of the range: both entry points fail alike (C17)
    if !light {
        total = total.merge(sweep_range_end_errors(ctx));
    }
    // 3. rule only
    total = total.merge(sweep_rule_only(ctx, tabs, if thorough { 120 } else if light { 6 } else { 30 }, false, "rule_only"));
    // 3b. non-interleaving accepted rules (keeps KF2 observable; any other failure mode is a violation)
    total = total.merge(sweep_rule_only(ctx, tabs, if thorough { 60 } else { 10 }, true, "rule_only_non_interleaving"));
    // 3b'. rules with ties in most years, every year of the cycle
    if !light && (thorough || prop != Prop::C17) {
        total = total.merge(sweep_tie_rules(ctx, tabs, thorough));
    }
    // 3b''. day times and offsets at numeric thresholds
    if !light && (thorough || prop != Prop::C17) {
        total = total.merge(sweep_rule_time_grid(ctx, tabs, thorough));
    }
    // 3c. first and last years of the rule arithmetic
    total = total.merge(sweep_rule_extreme_years(ctx));
    // 2d. result lists of up to 11 entries
    total = total.merge(sweep_many_results(ctx));
    // 2d'. result lists around 2^16 entries
    if !light {
        total = total.merge(sweep_huge_results(ctx));
    }
    // 4'. table + tie rules
    total = total.merge(sweep_junction_ties(ctx));
    // 3d. long call histories on one thread
    total = total.merge(sweep_long_histories(ctx));
    // 4. junction
    total = total.merge(sweep_junction(ctx, tabs, thorough, false, light));
    // real zones
    total = total.merge(sweep_corpus(ctx, light));
    // errors
    total = total.merge(sweep_errors(ctx));

    total
}

pub fn run(args: &Args) -> i32 {
    let prop = match args.prop.as_str() {
        "C05" => Prop::C05,
        "C06" => Prop::C06,
        "C14" => Prop::C14,
        "C17" => Prop::C17,
        _ => {
            eprintln!("find engine serves C05, C06, C14, C17");
            return 2;
        }
    };
    let rec = Recorder::new(args, "model_checking");
    let cyc = Cycle::build();
    let tabs = Tables::build(&cyc);
    let thorough = args.thorough();
    let ctx = Ctx { cyc: &cyc, rec: &rec, prop, kf1_open: rec.kf_open("KF1"), kf2_open: rec.kf_open("KF2"), kf3_open: rec.kf_open("KF3") };
    let mut total = run_sweeps(&ctx, &tabs, thorough, prop == Prop::C14 || args.digest_mode);

    kf2_witness(&ctx);

    rec.add(total.searches + total.buffers, total.nontrivial);
    // model states = (zone, local reading) pairs of the inverse-clock model; transitions = clock ticks walked / candidate steps
    rec.add_model(total.searches, total.searches + total.zones, total.searches);
    rec.digest("find", total.digest);
    rec.sub("totals", total.json());
    rec.set_rule("zones x local readings of the listed sweeps (tiny world: every local second of the window; others: both local images of every transition +-1 s, New Year); each search through DateTime::find_n (and find) compared with the inverse-clock model: valid set, gap list, order, earliest/latest/unique, buffer semantics per property. non-trivial = searches whose expected result is not exactly one valid instant (0 or >=2 results, or a gap)");
    rec.set_exhaustive(true);
    for (n, c) in [("unique", total.searches - total.nontrivial), ("gap", total.with_gap), ("fold", total.multi), ("triple", total.three_plus), ("empty", total.empty)] {
        if c > 0 {
            rec.outcome(n);
        }
    }
    // samples
    {
        let types = tiny_types([4, -3, 1]);
        let z = MZone { trans: vec![(100, 1), (104, 2), (107, 0)], types: types.clone(), leaps: vec![], rule: Some(MRule::Fixed(types[0])) };
        let l = 100 + (args.seed as i64 % 12);
        rec.sample(json!({"zone": zone_json(&z), "local_second": l, "expected": z.search(&cyc, l).iter().map(found_json).collect::<Vec<_>>()}));
    }
    rec.finish()
}

/// KF2 witness: v3 footer AAA0BBB-1,J1/-144,J365/167 ; find(2021-06-15 12:00) returns the same instant twice
fn kf2_witness(ctx: &Ctx) {
    let r = RuleSpec { std_off: 0, dst_off: 3600, start: Day::J(1), start_time: -144 * 3600, end: Day::J(365), end_time: 167 * 3600 };
    let (ms, md) = (crate::rule::std_type(&r), crate::rule::dst_type(&r));
    if alt(&r, &ms, &md).is_err() {
        ctx.rec.sub("kf2_witness", json!({"accepted_by_constructor": false}));
        return;
    }
    let z = MZone { trans: vec![], types: vec![ms, md], leaps: vec![], rule: Some(MRule::alt(ctx.cyc, r, ms, md)) };
    let iz = ImplZone::from_model(&z).unwrap();
    let zr = iz.zref().unwrap();
    let mut buf = [None; 8];
    let res = DateTime::find_n(&mut buf, 2021, 6, 15, 12, 0, 0, 0, zr);
    let (count, uniq) = match &res {
        Ok(l) => (l.count(), l.unique().is_some()),
        Err(_) => (0, false),
    };
    let exp = z.search(ctx.cyc, ctx.cyc.timegm(2021, 6, 15, 12, 0, 0));
    let fails = count != exp.len() || uniq != (exp.len() == 1);
    ctx.rec.sub("kf2_witness", json!({"footer": "AAA0BBB-1,J1/-144,J365/167", "local": "2021-06-15T12:00:00", "model_results": exp.len(), "impl_results": count, "impl_unique": uniq, "still_fails": fails}));
    if fails && matches!(ctx.prop, Prop::C05 | Prop::C06) {
        if ctx.kf2_open {
            ctx.rec.known_hit("KF2", || json!({"witness": "AAA0BBB-1,J1/-144,J365/167 local 2021-06-15T12:00:00"}));
        } else {
            ctx.rec.violation("kf2_witness", json!({"kind":"search","zone":zone_json(&z),"fields":[2021,6,15,12,0,0,0]}), json!({"results": exp.len()}), json!({"results": count}));
        }
    }
}

pub fn replay(case: &Value, args: &Args) -> i32 {
    let prop = match args.prop.as_str() {
        "C05" => Prop::C05,
        "C06" => Prop::C06,
        "C14" => Prop::C14,
        "C12" => Prop::C12,
        _ => Prop::C17,
    };
    let rec = Recorder::new(args, "model_checking");
    let cyc = Cycle::build();
    let ctx = Ctx { cyc: &cyc, rec: &rec, prop, kf1_open: false, kf2_open: false, kf3_open: false };
    let kind = case["kind"].as_str().unwrap_or("");
    if kind == "huge_results" || kind == "range_end_layout" {
        // small deterministic sub-sweeps: re-run twice, the recorded case is among the ones they visit
        for _ in 0..2 {
            if kind == "huge_results" {
                sweep_huge_results(&ctx);
            } else {
                sweep_range_end_errors(&ctx);
            }
        }
        let bad = rec.viol_count.load(std::sync::atomic::Ordering::Relaxed) > 0;
        println!("{}", if bad { "REPLAY: violation reproduced" } else { "REPLAY: case passes" });
        return bad as i32;
    }
    if kind != "search" && kind != "search_err" {
        println!("REPLAY: this case kind is a whole sub-sweep; re-run ./check {} quick", args.prop);
        return 2;
    }
    let z = zone_from_json(&cyc, &case["zone"]);
    let f = Fields::from_json(&case["fields"]);
    let iz = ImplZone::from_model(&z).unwrap();
    let zr = match iz.zref() {
        Ok(r) => r,
        Err(e) => {
            println!("REPLAY: zone refused by constructor: {}", err_name(&e));
            return 1;
        }
    };
    let mut tl = Tally::default();
    for _ in 0..2 {
        let r = guard(|| {
            if kind == "search" {
                check_search(&ctx, &z, zr, &f, "replay", &mut tl)
            } else {
                check_error_agreement(&ctx, &z, zr, &f, "replay", &mut tl)
            }
        });
        if let Err(m) = r {
            rec.violation("replay", case.clone(), json!("no panic"), json!(m));
        }
    }
    let n = rec.viol_count.load(std::sync::atomic::Ordering::Relaxed);
    if n > 0 {
        println!("REPLAY: violation reproduced (known findings are not suppressed in replay)");
        1
    } else {
        println!("REPLAY: case passes");
        0
    }
}

#[allow(dead_code)]
pub fn in_supported(u: i64) -> bool {
    u >= MIN_UNIX_TIME && u <= MAX_UNIX_TIME
}
#[allow(dead_code)]
fn _unused(_: TzError) {}
