//! Engine `zonecons`: C13 zone constructor and local-time-type constructor vs a reference validator.

use crate::common::*;
use crate::conv::*;
use rayon::prelude::*;
use refmodel::cal::Cycle;
use refmodel::rule::{Class, Day, RuleSpec};
use refmodel::zone::{MRule, MType, MZone};
use serde_json::{json, Value};
use tz::timezone::{LeapSecond, LocalTimeType, TimeZoneRef, Transition, TransitionRule};

const M: i64 = 28 * 86400 - 1;

#[derive(Default, Clone, Copy)]
struct Tally {
    evals: u64,
    refused: u64,
    accepted: u64,
    single_defect: u64,
    kf1: u64,
    digest: u64,
}
impl Tally {
    fn merge(mut self, o: Tally) -> Tally {
        self.evals += o.evals;
        self.refused += o.refused;
        self.accepted += o.accepted;
        self.single_defect += o.single_defect;
        self.kf1 += o.kf1;
        self.digest = self.digest.wrapping_add(o.digest);
        self
    }
}

/// raw constructor input (indices may be out of range, so this is not an MZone)
#[derive(Clone, Debug)]
struct Raw {
    trans: Vec<(i64, usize)>,
    types: Vec<MType>,
    leaps: Vec<(i64, i32)>,
    rule: Option<MRule>,
}

/// reference validator: list of violated conditions (error names), in no particular order
fn defects(cyc: &Cycle, r: &Raw) -> Vec<&'static str> {
    let mut d = vec![];
    if r.types.is_empty() {
        d.push("TimeZone(NoLocalTimeType)");
    }
    if r.trans.iter().any(|&(_, i)| i >= r.types.len()) {
        d.push("TimeZone(InvalidLocalTimeTypeIndex)");
    }
    if r.trans.windows(2).any(|w| w[0].0 >= w[1].0) {
        d.push("TimeZone(InvalidTransition)");
    }
    let mut leap_bad = false;
    if let Some(&(l0, c0)) = r.leaps.first() {
        if !(l0 >= 0 && (c0 == 1 || c0 == -1)) {
            leap_bad = true;
        }
    }
    for w in r.leaps.windows(2) {
        let dt = (w[1].0 as i128) - (w[0].0 as i128);
        let dc = (w[1].1 as i64) - (w[0].1 as i64);
        if !(dt >= M as i128 && (dc == 1 || dc == -1)) {
            leap_bad = true;
        }
    }
    if leap_bad {
        d.push("TimeZone(InvalidLeapSecond)");
    }
    // trailing rule must prescribe exactly the last transition's type at the last transition's instant
    if d.is_empty() {
        if let (Some(rule), Some(&(t, i))) = (&r.rule, r.trans.last()) {
            let z = MZone { trans: r.trans.clone(), types: r.types.clone(), leaps: r.leaps.clone(), rule: Some(rule.clone()) };
            if t == i64::MIN {
                d.push("OutOfRange");
            } else {
                match z.to_utc(t) {
                    None => d.push("OutOfRange"),
                    Some(u) => match z.rule_type(cyc, u) {
                        Err(_) => d.push("OutOfRange"),
                        Ok(ty) => {
                            if *ty != r.types[i] {
                                d.push("TimeZone(InconsistentExtraRule)");
                            }
                        }
                    },
                }
            }
        }
    }
    d
}

fn raw_json(r: &Raw) -> Value {
    json!({"trans": r.trans.iter().map(|&(t,i)| json!([t, i as u64])).collect::<Vec<_>>(), "types": r.types.iter().map(mtype_json).collect::<Vec<_>>(), "leaps": r.leaps.iter().map(|&(t,c)| json!([t,c])).collect::<Vec<_>>(),
        "rule": match &r.rule { None => Value::Null, Some(MRule::Fixed(t)) => json!({"fixed": mtype_json(t)}), Some(MRule::Alt{spec,std,dst,..}) => json!({"alt": spec_json(spec), "std": mtype_json(std), "dst": mtype_json(dst)}) }})
}

fn check_raw(cyc: &Cycle, r: &Raw, rec: &Recorder, sweep: &str, tl: &mut Tally, kf1_case: bool) {
    tl.evals += 1;
    let exp = defects(cyc, r);
    let trans: Vec<Transition> = r.trans.iter().map(|&(t, i)| Transition::new(t, i)).collect();
    let types: Vec<LocalTimeType> = r.types.iter().map(ltt).collect();
    let leaps: Vec<LeapSecond> = r.leaps.iter().map(|&(t, c)| LeapSecond::new(t, c)).collect();
    let rule: Option<TransitionRule> = match &r.rule {
        None => None,
        Some(MRule::Fixed(t)) => Some(TransitionRule::Fixed(ltt(t))),
        Some(MRule::Alt { spec, std, dst, .. }) => Some(TransitionRule::Alternate(alt(spec, std, dst).expect("rule of the alphabet is constructible"))),
    };
    let got_ref = guard(|| TimeZoneRef::new(&trans, &types, &leaps, &rule).map(|_| ()).map_err(|e| err_name(&e)));
    let case = || json!({"kind":"raw","raw":raw_json(r)});
    let got_ref = match got_ref {
        Ok(g) => g,
        Err(m) => {
            rec.violation(sweep, case(), json!("no panic"), json!(m));
            return;
        }
    };
    #[cfg(feature = "tz-alloc")]
    {
        let got_owned = guard(|| tz::TimeZone::new(trans.clone(), types.clone(), leaps.clone(), rule).map(|_| ()).map_err(|e| err_name(&e)));
        match got_owned {
            Ok(g) => {
                if g != got_ref {
                    rec.violation(sweep, case(), json!({"borrowed": format!("{got_ref:?}")}), json!({"owned": format!("{g:?}")}));
                }
            }
            Err(m) => rec.violation(sweep, case(), json!("no panic (owned)"), json!(m)),
        }
    }
    let mut bad = None;
    match &got_ref {
        Ok(()) => {
            tl.accepted += 1;
            if !exp.is_empty() {
                bad = Some((json!({"err_one_of": exp}), json!("Ok")));
            }
        }
        Err(name) => {
            tl.refused += 1;
            if exp.is_empty() {
                bad = Some((json!("Ok"), json!(name)));
            } else if exp.len() == 1 {
                tl.single_defect += 1;
                if name != exp[0] {
                    bad = Some((json!(exp[0]), json!(name)));
                }
            } else if !exp.contains(&name.as_str()) {
                bad = Some((json!({"err_one_of": exp}), json!(name)));
            }
        }
    }
    tl.digest = tl.digest.wrapping_add(match &got_ref {
        Ok(()) => 1,
        Err(n) => n.len() as u64 + 2,
    });
    if let Some((e, g)) = bad {
        if kf1_case && rec.kf_open("KF1") {
            tl.kf1 += 1;
            rec.known_hit("KF1", || json!({"case": case(), "expected": e, "got": g}));
        } else {
            rec.violation(sweep, case(), e, g);
        }
    }
}

fn base_types() -> Vec<MType> {
    vec![MType::new(-18000, false, Some("EST")), MType::new(-14400, true, Some("EDT"))]
}

fn us_rule(cyc: &Cycle) -> MRule {
    MRule::alt(cyc, RuleSpec { std_off: -18000, dst_off: -14400, start: Day::M(3, 2, 0), start_time: 7200, end: Day::M(11, 1, 0), end_time: 7200 }, MType::new(-18000, false, Some("EST")), MType::new(-14400, true, Some("EDT")))
}

/// enumerate all sequences of length 0..=max over an alphabet
fn sequences<T: Clone>(alpha: &[T], max: usize) -> Vec<Vec<T>> {
    let mut out = vec![vec![]];
    let mut frontier = vec![vec![]];
    for _ in 0..max {
        let mut next = vec![];
        for s in &frontier {
            for a in alpha {
                let mut t: Vec<T> = s.clone();
                t.push(a.clone());
                next.push(t);
            }
        }
        out.extend(next.iter().cloned());
        frontier = next;
    }
    out
}

/// designations that a careless comparison could take for `name`: one letter in the other case, all lower / upper case,
/// one character replaced by a look-alike, one more / one fewer trailing character
fn near_names(name: Option<&[u8]>) -> Vec<Vec<u8>> {
    let mut v: Vec<Vec<u8>> = vec![];
    let Some(n) = name else { return v };
    for i in 0..n.len() {
        if n[i].is_ascii_alphabetic() {
            let mut x = n.to_vec();
            x[i] ^= 0x20;
            v.push(x);
        }
        for (a, b) in [(b'0', b'O'), (b'-', b'+'), (b'+', b'-'), (b'Z', b'z'), (b'9', b'8')] {
            if n[i] == a {
                let mut x = n.to_vec();
                x[i] = b;
                v.push(x);
            }
        }
    }
    v.push(n.to_ascii_lowercase());
    v.push(n.to_ascii_uppercase());
    if n.len() > 3 {
        v.push(n[..n.len() - 1].to_vec());
    }
    if n.len() < 7 {
        let mut x = n.to_vec();
        x.push(*n.last().unwrap());
        v.push(x);
    }
    v.retain(|x| x.as_slice() != n && x.len() >= 3 && x.len() <= 7);
    v.sort();
    v.dedup();
    v
}

pub fn run(args: &Args) -> i32 {
    let rec = Recorder::new(args, "exploration");
    let cyc = Cycle::build();
    let thorough = args.thorough();
    let us = us_rule(&cyc);
    let mut total = Tally::default();

    // ---- (1) transitions space x types len 0..2 x few leap tables x rules
    let times = [i64::MIN, -1, 0, 1, i64::MAX];
    let idxs = [0usize, 1, 2, usize::MAX];
    let talpha: Vec<(i64, usize)> = times.iter().flat_map(|&t| idxs.iter().map(move |&i| (t, i))).collect();
    let tseqs = sequences(&talpha, if thorough { 4 } else { 3 });
    let leap_few: Vec<Vec<(i64, i32)>> = vec![vec![], vec![(0, 1)], vec![(0, 2)], vec![(5, -1), (5 + M, 0)], vec![(5, -1), (5 + M - 1, 0)]];
    let t1 = tseqs
        .par_iter()
        .map(|ts| {
            let mut tl = Tally::default();
            for ntypes in 0..=2usize {
                let types: Vec<MType> = base_types().into_iter().take(ntypes).collect();
                for leaps in &leap_few {
                    let mut rules: Vec<Option<MRule>> = vec![None];
                    if let Some(&(_, i)) = ts.last() {
                        if i < types.len() {
                            rules.push(Some(MRule::Fixed(types[i])));
                            rules.push(Some(MRule::Fixed(MType::new(types[i].off + 1, types[i].dst, Some("EST")))));
                        } else {
                            rules.push(Some(MRule::Fixed(MType::new(0, false, Some("UTC")))));
                        }
                    } else {
                        rules.push(Some(MRule::Fixed(MType::new(0, false, Some("UTC")))));
                    }
                    rules.push(Some(us.clone()));
                    for rule in rules {
                        let r = Raw { trans: ts.clone(), types: types.clone(), leaps: leaps.clone(), rule };
                        check_raw(&cyc, &r, &rec, "transitions_space", &mut tl, false);
                    }
                }
            }
            tl
        })
        .reduce(Tally::default, Tally::merge);
    rec.sub("transitions_space", json!({"transition_sequences": tseqs.len(), "evaluations": t1.evals, "accepted": t1.accepted, "refused": t1.refused, "single_defect_refusals": t1.single_defect}));
    total = total.merge(t1);

    // ---- (2) leap-table space x few transition tables
    // incl. the most negative values (a difference to a large positive time overflows)
    let ltimes = [i64::MIN, i64::MIN + M + 1, -1i64, 0, 1, M - 1, M, M + 1, 2 * M, i64::MAX - M - 1, i64::MAX - M, i64::MAX - M + 1, i64::MAX];
    let lcorrs: Vec<i32> = if thorough { vec![-2, -1, 0, 1, 2, i32::MIN, i32::MAX] } else { vec![-2, -1, 0, 1, 2, i32::MIN, i32::MAX] };
    let lalpha: Vec<(i64, i32)> = ltimes.iter().flat_map(|&t| lcorrs.iter().map(move |&c| (t, c))).collect();
    let lseqs = sequences(&lalpha, if thorough { 4 } else { 3 });
    let trans_few: Vec<Vec<(i64, usize)>> = vec![vec![], vec![(0, 1)], vec![(-5, 1), (M + 7, 0)], vec![(1, 0), (1, 1)]];
    let t2 = lseqs
        .par_iter()
        .map(|ls| {
            let mut tl = Tally::default();
            for ts in &trans_few {
                for rule_kind in 0..2 {
                    let types = base_types();
                    let rule = if rule_kind == 1 { ts.last().map(|&(_, i)| MRule::Fixed(types[i])) } else { None };
                    if rule_kind == 1 && rule.is_none() {
                        continue;
                    }
                    let r = Raw { trans: ts.clone(), types, leaps: ls.clone(), rule };
                    check_raw(&cyc, &r, &rec, "leap_space", &mut tl, false);
                }
            }
            tl
        })
        .reduce(Tally::default, Tally::merge);
    rec.sub("leap_space", json!({"leap_sequences": lseqs.len(), "evaluations": t2.evals, "accepted": t2.accepted, "refused": t2.refused, "single_defect_refusals": t2.single_defect}));
    total = total.merge(t2);

    // ---- (3) rule space: last transition's type vs trailing rule, differing in exactly one attribute
    let mut t3 = Tally::default();
    {
        let variants = |base: &MType| -> Vec<(MType, bool)> {
            vec![
                (*base, true),
                (MType::from_bytes(if base.off == i32::MAX { base.off - 1 } else { base.off + 1 }, base.dst, base.name()), false),
                (MType::from_bytes(base.off, !base.dst, base.name()), false),
                (MType::from_bytes(base.off, base.dst, Some(b"ESX")), base.name() == Some(b"ESX")),
                (MType::from_bytes(base.off, base.dst, Some(b"ESTX")), false),
                (MType::from_bytes(base.off, base.dst, None), base.name().is_none()),
                (MType::from_bytes(base.off, base.dst, Some(b"EST")), base.name() == Some(b"EST")),
            ]
            .into_iter()
            .chain(near_names(base.name()).into_iter().map(|n| (MType::from_bytes(base.off, base.dst, Some(&n)), false)))
            .collect()
        };
        let bases = [MType::new(-18000, false, Some("EST")), MType::new(-18000, false, None), MType::new(i32::MAX, true, Some("A-+0z9Z")), MType::new(i32::MIN + 1, false, Some("abc"))];
        for base in &bases {
            for (rt, _) in variants(base) {
                for last_time in [i64::MIN + 1, -1, 0, 1_000_000_000, i64::MAX] {
                    for leaps in [vec![], vec![(0i64, 1i32)], vec![(0, -1), (M, -2)]] {
                        let types = vec![MType::new(0, false, Some("LMT")), *base];
                        let trans = vec![(last_time.saturating_sub(10), 0usize), (last_time, 1usize)];
                        let trans = if trans[0].0 >= trans[1].0 { vec![(last_time, 1usize)] } else { trans };
                        let r = Raw { trans, types, leaps, rule: Some(MRule::Fixed(rt)) };
                        check_raw(&cyc, &r, &rec, "rule_space", &mut t3, false);
                    }
                }
            }
        }
        // DST rule agreeing / disagreeing at the last transition: transition placed around rule transitions of 2021 and far away
        let spec = RuleSpec { std_off: -18000, dst_off: -14400, start: Day::M(3, 2, 0), start_time: 7200, end: Day::M(11, 1, 0), end_time: 7200 };
        let (s21, e21) = (spec.s(&cyc, 2021), spec.e(&cyc, 2021));
        let mut lasts = vec![];
        for x in [s21, e21] {
            for d in [-86400, -1, 0, 1, 86400] {
                lasts.push(x + d);
            }
        }
        lasts.extend([0, -1_000_000_000, 4_000_000_000, i64::MAX, i64::MIN + 1, crate::cal::MAX_UNIX_TIME, crate::cal::MIN_UNIX_TIME, crate::cal::MAX_UNIX_TIME - 3 * 366 * 86400]);
        // far outside the years a rule can be evaluated in, but not at the ends of i64
        for k in [56u32, 57, 60, 62] {
            lasts.push(1i64 << k);
            lasts.push(-(1i64 << k));
        }
        for d in [-1i64, 0, 1] {
            lasts.push(crate::cal::MAX_UNIX_TIME + d);
            lasts.push(crate::cal::MIN_UNIX_TIME + d);
        }
        // rules: the US rule; the same days with identical standard and daylight types; with types differing in the name only
        let est = MType::new(-18000, false, Some("EST"));
        let same = MRule::alt(&cyc, RuleSpec { std_off: -18000, dst_off: -18000, ..spec }, est, est);
        let name_only = MRule::alt(&cyc, RuleSpec { std_off: -18000, dst_off: -18000, ..spec }, est, MType::new(-18000, false, Some("ESX")));
        for rule in [us.clone(), same, name_only] {
            for &last in &lasts {
                for last_type in [MType::new(-18000, false, Some("EST")), MType::new(-14400, true, Some("EDT")), MType::new(-14400, true, Some("EST")), MType::new(-18000, true, Some("EST")), MType::new(-14400, false, Some("EDT")), MType::new(-14400, true, None), MType::new(-18000, false, Some("ESX")), MType::new(-18000, false, Some("Est")), MType::new(-18000, false, Some("est")), MType::new(-14400, true, Some("EDt")), MType::new(-14400, true, Some("edt")), MType::new(-18000, false, Some("ESt"))] {
                    for leaps in [vec![], vec![(78_796_800i64, 1i32)]] {
                        let types = vec![MType::new(-17762, false, Some("LMT")), last_type];
                        let r = Raw { trans: vec![(last, 1)], types, leaps, rule: Some(rule.clone()) };
                        check_raw(&cyc, &r, &rec, "rule_space", &mut t3, false);
                    }
                }
            }
        }
        // several trailing transitions to the same type, months apart (the rule is evaluated at the LAST transition's instant,
        // whatever earlier entries say): the rule's type changes between the first and the last of the run
        {
            let (est, edt) = (MType::new(-18000, false, Some("EST")), MType::new(-14400, true, Some("EDT")));
            let july = s21 + 100 * 86400;
            let december = e21 + 30 * 86400;
            let march_before = s21 - 20 * 86400;
            for (ta, tb) in [(july, december), (march_before, july), (july, july + 86400), (december, december + 40 * 86400)] {
                for i in [1usize, 2] {
                    for lead in 0..2 {
                        let types = vec![MType::new(-17762, false, Some("LMT")), est, edt];
                        let mut trans = vec![(ta, i), (tb, i)];
                        if lead == 1 {
                            trans.insert(0, (ta - 200 * 86400, 3 - i));
                        }
                        let r = Raw { trans, types, leaps: vec![], rule: Some(us.clone()) };
                        check_raw(&cyc, &r, &rec, "rule_space_repeated_type", &mut t3, false);
                    }
                }
            }
        }
        // a leap table with exactly one defect (first correction 0 / 2, repeated correction, spacing one second short) together
        // with a DST rule whose transition lies within two seconds of the last transition: the leap table is what is wrong
        for x in [s21, e21] {
            for eps in -2i64..=2 {
                for bad in [vec![(78_796_800i64, 2i32)], vec![(78_796_800, 0)], vec![(78_796_800, 1), (78_796_800 + M, 1)], vec![(78_796_800, 1), (78_796_800 + M - 1, 2)], vec![(78_796_800, -1), (78_796_800 + M, -3)]] {
                    for last_type in [MType::new(-18000, false, Some("EST")), MType::new(-14400, true, Some("EDT"))] {
                        let types = vec![MType::new(-17762, false, Some("LMT")), last_type];
                        let r = Raw { trans: vec![(0, 0), (x + eps, 1)], types, leaps: bad.clone(), rule: Some(us.clone()) };
                        check_raw(&cyc, &r, &rec, "rule_space_bad_leap_table", &mut t3, false);
                    }
                }
            }
        }
        // leap record x last transition x rule transition aligned: the record's UTC instant sits at a rule transition + delta,
        // the last transition's count at the record's count + epsilon (the correction in effect AT a record's own count is the
        // previous one)
        for x in [s21, e21] {
            for delta in -2i64..=2 {
                for (c0, step) in [(0i32, 1i32), (0, -1), (1, 1), (1, -1), (-1, 1), (-1, -1)] {
                    let l = x + delta + c0 as i64;
                    let leaps: Vec<(i64, i32)> = if c0 == 0 { vec![(l, step)] } else { vec![(l - 2 * M, c0), (l, c0 + step)] };
                    for eps in -2i64..=2 {
                        for last_type in [MType::new(-18000, false, Some("EST")), MType::new(-14400, true, Some("EDT"))] {
                            let types = vec![MType::new(-17762, false, Some("LMT")), last_type];
                            let r = Raw { trans: vec![(0, 0), (l + eps, 1)], types, leaps: leaps.clone(), rule: Some(us.clone()) };
                            check_raw(&cyc, &r, &rec, "rule_space_leap_aligned", &mut t3, false);
                        }
                    }
                }
            }
        }
        // KF1-tagged: end-first rule, last transition inside a tie year (2021 for AAA0BBB0,J60/0,M2.5.0/24)
        let kspec = RuleSpec { std_off: 0, dst_off: 0, start: Day::J(60), start_time: 0, end: Day::M(2, 5, 0), end_time: 86400 };
        let krule = MRule::alt(&cyc, kspec, MType::new(0, false, Some("AAA")), MType::new(0, true, Some("BBB")));
        if let MRule::Alt { class, .. } = &krule {
            assert_eq!(*class, Class::EndFirst);
        }
        for lt in [MType::new(0, true, Some("BBB")), MType::new(0, false, Some("AAA"))] {
            let r = Raw { trans: vec![(1613390400, 1)], types: vec![MType::new(0, false, Some("AAA")), lt], leaps: vec![], rule: Some(krule.clone()) };
            check_raw(&cyc, &r, &rec, "rule_space_kf1", &mut t3, true);
        }
    }
    rec.sub("rule_space", json!({"evaluations": t3.evals, "accepted": t3.accepted, "refused": t3.refused, "kf1_tagged_disagreements": t3.kf1}));
    total = total.merge(t3);

    // ---- (4) LocalTimeType::new: every designation of length 0..=L over an 8-symbol alphabet x 4 offsets
    let syms: [u8; 8] = [b'A', b'z', b'0', b'+', b'-', b'_', b' ', 0x80];
    let maxlen = if thorough { 9 } else { 7 };
    let t4 = (0..=maxlen)
        .into_par_iter()
        .flat_map(|len| (0..8usize.pow(len as u32)).into_par_iter().map(move |code| (len, code)))
        .fold(Tally::default, |mut tl, (len, code)| {
            let mut buf = [0u8; 9];
            let mut c = code;
            for k in 0..len {
                buf[k] = syms[c % 8];
                c /= 8;
            }
            let name = &buf[..len];
            let len_ok = (3..=7).contains(&len);
            let chars_ok = name.iter().all(|b| b.is_ascii_alphanumeric() || *b == b'+' || *b == b'-');
            for off in [i32::MIN, i32::MIN + 1, 0, i32::MAX] {
                tl.evals += 1;
                let mut exp = vec![];
                if off == i32::MIN {
                    exp.push("InvalidUtcOffset");
                }
                // two independent conditions (a name of the wrong length that also holds a bad character violates both: either
                // error is "its specific error"; precedence among simultaneous defects is unspecified, I8)
                if !len_ok {
                    exp.push("InvalidTimeZoneDesignationLength");
                }
                if !chars_ok {
                    exp.push("InvalidTimeZoneDesignationChar");
                }
                let got = LocalTimeType::new(off, code % 2 == 0, Some(name));
                let bad = match &got {
                    Ok(l) => {
                        tl.accepted += 1;
                        !exp.is_empty() || l.ut_offset() != off || l.is_dst() != (code % 2 == 0) || l.time_zone_designation().as_bytes() != name
                    }
                    Err(e) => {
                        tl.refused += 1;
                        let n = format!("{e:?}");
                        if exp.len() == 1 {
                            tl.single_defect += 1;
                        }
                        exp.is_empty() || (exp.len() == 1 && n != exp[0]) || !exp.contains(&n.as_str())
                    }
                };
                if bad {
                    rec.violation("local_time_type", json!({"kind":"ltt","off":off,"name":name.to_vec()}), json!({"err_one_of": exp}), json!(format!("{got:?}")));
                }
            }
            tl
        })
        .reduce(Tally::default, Tally::merge);
    // None designation and with_ut_offset
    for off in [i32::MIN, i32::MIN + 1, -1, 0, 1, i32::MAX] {
        let a = LocalTimeType::new(off, false, None);
        let b = LocalTimeType::with_ut_offset(off);
        let ok = |r: &Result<LocalTimeType, _>| match r {
            Ok(l) => off != i32::MIN && l.ut_offset() == off && l.time_zone_designation().is_empty() && !l.is_dst(),
            Err(e) => off == i32::MIN && format!("{e:?}") == "InvalidUtcOffset",
        };
        if !ok(&a) || !ok(&b) {
            rec.violation("local_time_type", json!({"kind":"ltt","off":off,"name":null}), json!(if off == i32::MIN {"InvalidUtcOffset"} else {"Ok"}), json!(format!("{a:?} / {b:?}")));
        }
    }
    rec.sub("local_time_type", json!({"max_designation_len": maxlen, "evaluations": t4.evals, "accepted": t4.accepted, "refused": t4.refused}));
    total = total.merge(t4);

    // ---- (5) value constructors and their getters return exactly what was passed (every boundary value of every field);
    // TimeZone::fixed(o) is the zone of the single type with_ut_offset(o)
    let mut t5 = Tally::default();
    {
        let i64s: Vec<i64> = {
            let mut v = vec![i64::MIN, i64::MIN + 1, -1, 0, 1, i64::MAX - 1, i64::MAX];
            for k in [7u32, 8, 15, 16, 31, 32, 53, 62] {
                v.extend([-(1i64 << k) - 1, -(1i64 << k), (1i64 << k) - 1, 1i64 << k]);
            }
            v
        };
        let usizes: Vec<usize> = vec![0, 1, 127, 128, 255, 256, 257, 65_535, 65_536, u32::MAX as usize, u32::MAX as usize + 1, usize::MAX - 1, usize::MAX];
        let i32s: Vec<i32> = vec![i32::MIN, i32::MIN + 1, -65_536, -32_769, -32_768, -129, -128, -1, 0, 1, 127, 128, 255, 256, 32_767, 32_768, 65_535, 65_536, i32::MAX - 1, i32::MAX];
        for &t in &i64s {
            for &i in &usizes {
                t5.evals += 1;
                let x = Transition::new(t, i);
                if x.unix_leap_time() != t || x.local_time_type_index() != i {
                    rec.violation("getters", json!({"kind":"getter","what":"Transition","t":t,"i":i as u64}), json!([t, i as u64]), json!([x.unix_leap_time(), x.local_time_type_index() as u64]));
                }
            }
            for &c in &i32s {
                t5.evals += 1;
                let x = LeapSecond::new(t, c);
                if x.unix_leap_time() != t || x.correction() != c {
                    rec.violation("getters", json!({"kind":"getter","what":"LeapSecond","t":t,"c":c}), json!([t, c]), json!([x.unix_leap_time(), x.correction()]));
                }
            }
        }
        for &o in &i32s {
            t5.evals += 1;
            #[cfg(feature = "tz-alloc")]
            {
                let a = tz::TimeZone::fixed(o).map_err(|e| format!("{e:?}"));
                let b = LocalTimeType::with_ut_offset(o).map_err(|e| format!("{e:?}")).and_then(|l| tz::TimeZone::new(vec![], vec![l], vec![], None).map_err(|e| format!("{e:?}")));
                let same = match (&a, &b) {
                    (Ok(x), Ok(y)) => x == y && x.find_local_time_type(0).map(|l| l.ut_offset()).ok() == Some(o) && x.as_ref().local_time_types().len() == 1 && x.as_ref().transitions().is_empty() && x.as_ref().leap_seconds().is_empty() && x.as_ref().extra_rule().is_none(),
                    (Err(x), Err(y)) => x == y,
                    _ => false,
                };
                if !same {
                    rec.violation("getters", json!({"kind":"getter","what":"TimeZone::fixed","o":o}), json!(format!("{b:?}")), json!(format!("{a:?}")));
                }
            }
            for dst in [false, true] {
                for name in [None, Some(&b"ABC"[..]), Some(&b"A-+0z9Z"[..])] {
                    if let Ok(l) = LocalTimeType::new(o, dst, name) {
                        t5.evals += 1;
                        if l.ut_offset() != o || l.is_dst() != dst || l.time_zone_designation().as_bytes() != name.unwrap_or(b"") {
                            rec.violation("getters", json!({"kind":"getter","what":"LocalTimeType","o":o,"dst":dst}), json!([o, dst]), json!(format!("{l:?}")));
                        }
                    }
                }
            }
        }
    }
    rec.sub("getters", json!({"evaluations": t5.evals}));
    total = total.merge(t5);

    rec.add(total.evals, total.single_defect);
    rec.digest("zonecons", total.digest);
    rec.set_rule("small world: all transition sequences of length 0..3 (4) over 5 times x 4 indices with 0..2 types, 5 leap tables and 4-5 rules; all leap sequences of length 0..3 (4) over 13 times x 7 corrections with 4 transition tables; trailing rules differing from the last type in exactly one attribute, DST rule (also with identical / name-only-different types) agreeing/disagreeing around rule transitions, at range ends and at +-2^56..2^62; last transition aligned with a leap record and a rule transition; every designation up to length 7 (9) over 8 symbols x 4 offsets. Oracle: reference validator; owned == borrowed. non-trivial = refusals with exactly one violated condition (error kind compared)");
    rec.set_exhaustive(true);
    for o in ["Ok", "NoLocalTimeType", "InvalidLocalTimeTypeIndex", "InvalidTransition", "InvalidLeapSecond", "InconsistentExtraRule", "OutOfRange"] {
        rec.outcome(o);
    }
    let pick = &tseqs[(args.seed as usize * 7919 + 4242) % tseqs.len()];
    rec.sample(json!({"transitions": pick.iter().map(|&(t,i)| json!([t, i as u64])).collect::<Vec<_>>(), "types": 2, "model_defects": defects(&cyc, &Raw{trans: pick.clone(), types: base_types(), leaps: vec![], rule: None})}));
    rec.finish()
}

pub fn replay(case: &Value, args: &Args) -> i32 {
    let rec = Recorder::new(args, "exploration");
    let cyc = Cycle::build();
    match case["kind"].as_str().unwrap_or("") {
        "raw" => {
            let v = &case["raw"];
            let mt = |x: &Value| {
                let n = x["name"].as_str().unwrap_or("");
                MType::new(x["off"].as_i64().unwrap() as i32, x["dst"].as_bool().unwrap(), if n.is_empty() { None } else { Some(n) })
            };
            let r = Raw {
                trans: v["trans"].as_array().unwrap().iter().map(|x| (x[0].as_i64().unwrap(), x[1].as_u64().unwrap() as usize)).collect(),
                types: v["types"].as_array().unwrap().iter().map(mt).collect(),
                leaps: v["leaps"].as_array().unwrap().iter().map(|x| (x[0].as_i64().unwrap(), x[1].as_i64().unwrap() as i32)).collect(),
                rule: if v["rule"].is_null() {
                    None
                } else if !v["rule"]["fixed"].is_null() {
                    Some(MRule::Fixed(mt(&v["rule"]["fixed"])))
                } else {
                    Some(MRule::alt(&cyc, spec_from_json(&v["rule"]["alt"]), mt(&v["rule"]["std"]), mt(&v["rule"]["dst"])))
                },
            };
            let mut tl = Tally::default();
            for _ in 0..2 {
                check_raw(&cyc, &r, &rec, "replay", &mut tl, false);
            }
        }
        "ltt" => {
            let name: Option<Vec<u8>> = case["name"].as_array().map(|a| a.iter().map(|x| x.as_u64().unwrap() as u8).collect());
            let got = LocalTimeType::new(case["off"].as_i64().unwrap() as i32, false, name.as_deref());
            println!("LocalTimeType::new -> {got:?}");
            println!("REPLAY: re-run ./check C13 quick for the verdict on designation cases");
            return 1;
        }
        _ => return 2,
    }
    if rec.viol_count.load(std::sync::atomic::Ordering::Relaxed) > 0 {
        println!("REPLAY: violation reproduced");
        1
    } else {
        println!("REPLAY: case passes");
        0
    }
}
