//! Shared DST-rule alphabets and precomputed model tables.

use refmodel::cal::Cycle;
use refmodel::rule::{Day, DayTable, RuleSpec};

pub const Y0: i64 = 1996;
pub const NYEARS: usize = 410;

/// precomputed model tables: per-notation day numbers for NYEARS years, and New Year instants
pub struct Tables {
    pub days: Vec<Day>,
    pub tabs: Vec<DayTable>,
    /// ny[k] = instant of 1 January 00:00:00Z of year Y0+k
    pub ny: Vec<i64>,
}

impl Tables {
    pub fn build(cyc: &Cycle) -> Tables {
        let days = Day::all();
        let tabs = days.iter().map(|&d| DayTable::build(cyc, d, Y0, NYEARS)).collect();
        let ny = (0..=NYEARS).map(|k| cyc.year_start_day(Y0 + k as i64) * 86400).collect();
        Tables { days, tabs, ny }
    }
    pub fn index_of(&self, d: Day) -> usize {
        self.days.iter().position(|&x| x == d).unwrap()
    }
    pub fn tab(&self, d: Day) -> &DayTable {
        &self.tabs[self.index_of(d)]
    }
    #[inline]
    pub fn new_year(&self, y: i64) -> i64 {
        self.ny[(y - Y0) as usize]
    }
    /// UTC year of t, given that it is y-1, y or y+1
    #[inline]
    pub fn utc_year_near(&self, t: i64, y: i64) -> i64 {
        if t < self.new_year(y) {
            if t < self.new_year(y - 1) {
                y - 2
            } else {
                y - 1
            }
        } else if t >= self.new_year(y + 1) {
            if t >= self.new_year(y + 2) {
                y + 2
            } else {
                y + 1
            }
        } else {
            y
        }
    }
}

/// the reduced notation set of the quick tier (boundaries of every notation kind)
pub fn quick_days() -> Vec<Day> {
    let mut v = vec![];
    for n in [1u16, 2, 59, 60, 61, 100, 364, 365] {
        v.push(Day::J(n));
    }
    for n in [0u16, 1, 58, 59, 60, 99, 364, 365] {
        v.push(Day::Z(n));
    }
    for m in [1u8, 2, 3, 10, 11, 12] {
        for w in [1u8, 4, 5] {
            for d in [0u8, 6] {
                v.push(Day::M(m, w, d));
            }
        }
    }
    v.push(Day::M(2, 5, 1));
    v.push(Day::M(2, 4, 3));
    v.push(Day::M(6, 2, 3));
    v.push(Day::M(7, 3, 5));
    v
}

pub const H: i64 = 3600;
pub const D: i64 = 86400;

/// transition times of day (seconds), incl. negative and beyond 24h
pub fn times() -> Vec<i64> {
    vec![-7 * D + 1, -25 * H, -24 * H, -1, 0, 2 * H, 24 * H, 25 * H, 167 * H + 59 * 60 + 59]
}

/// (std, dst) UTC offsets
pub fn offsets() -> Vec<(i64, i64)> {
    vec![(0, H), (H, 2 * H), (-5 * H, -4 * H), (12 * H, 13 * H), (10 * H + 1800, 11 * H), (0, -H), (H, H), (-25 * H + 1, 26 * H - 1), (26 * H - 1, -25 * H + 1)]
}

/// the 16 (start time, end time, offsets) combinations of the quick tier: every time and every offset pair occurs
pub fn quick_combos() -> Vec<(i64, i64, (i64, i64))> {
    let t = times();
    let o = offsets();
    vec![
        (t[5], t[5], o[0]),
        (t[5], 3 * H, o[1]),
        (t[5], t[5], o[2]),
        (t[4], t[6], o[3]),
        (t[3], t[7], o[4]),
        (t[5], t[5], o[5]),
        (t[4], t[4], o[6]),
        (t[0], t[8], o[0]),
        (t[8], t[0], o[2]),
        (t[1], t[2], o[7]),
        (t[2], t[1], o[8]),
        (t[7], t[3], o[1]),
        // extreme time paired with the extreme offset of the opposite sign: transition up to ~8 days into the neighbouring year
        (t[8], t[0], o[7]),
        (t[0], t[8], o[8]),
        (t[8], t[8], o[7]),
        (t[0], t[0], o[8]),
    ]
}

pub fn spec(start: Day, end: Day, st: i64, et: i64, o: (i64, i64)) -> RuleSpec {
    RuleSpec { std_off: o.0, dst_off: o.1, start, start_time: st, end, end_time: et }
}

/// POSIX rendering of a duration: [-]h[:mm[:ss]]
pub fn hms(secs: i64) -> String {
    let a = secs.abs();
    let (h, m, s) = (a / 3600, (a / 60) % 60, a % 60);
    let sign = if secs < 0 { "-" } else { "" };
    if s != 0 {
        format!("{sign}{h}:{m:02}:{s:02}")
    } else if m != 0 {
        format!("{sign}{h}:{m:02}")
    } else {
        format!("{sign}{h}")
    }
}

/// TZ string of a rule with names AAA/BBB (POSIX sign convention: offset = -utoff)
pub fn tz_string(r: &RuleSpec) -> String {
    format!("AAA{}BBB{},{}/{},{}/{}", hms(-r.std_off), hms(-r.dst_off), r.start.text(), hms(r.start_time), r.end.text(), hms(r.end_time))
}

/// day times at numeric thresholds: +-(2^k - 1, 2^k, 2^k + 1), whole hours around the 24 h / 48 h / 7 d marks
pub fn grid_times() -> Vec<i64> {
    let mut ts: Vec<i64> = vec![0];
    for k in 0..=19 {
        for e in [-1i64, 0, 1] {
            let v = (1i64 << k) + e;
            ts.push(v);
            ts.push(-v);
        }
    }
    for h in [1i64, 2, 3, 12, 23, 24, 25, 26, 47, 48, 49, 72, 100, 143, 144, 145, 166, 167] {
        ts.push(h * H);
        ts.push(-h * H);
        ts.push(h * H + 1799);
        ts.push(-h * H - 1);
    }
    ts.push(7 * D - 1);
    ts.push(-7 * D + 1);
    ts.retain(|v| v.abs() < 7 * D);
    ts.sort();
    ts.dedup();
    ts
}

/// UTC offsets at numeric thresholds inside the accepted window (-25 h, +26 h)
pub fn grid_offsets() -> Vec<i64> {
    let mut os: Vec<i64> = vec![0];
    for k in 0..=16 {
        for e in [-1i64, 0, 1] {
            let v = (1i64 << k) + e;
            os.push(v);
            os.push(-v);
        }
    }
    for h in [1i64, 2, 5, 9, 10, 12, 13, 14, 18, 19, 23, 24, 25] {
        os.push(h * H);
        os.push(-h * H);
        os.push(h * H + 1800);
        os.push(-h * H - 2700);
    }
    os.push(26 * H - 1);
    os.push(-25 * H + 1);
    os.retain(|&v| v > -25 * H && v < 26 * H);
    os.sort();
    os.dedup();
    os
}

pub fn grid_day_pairs() -> [(Day, Day); 8] {
    [
        (Day::M(3, 2, 0), Day::M(11, 1, 0)),
        (Day::M(10, 5, 0), Day::M(3, 5, 0)),
        (Day::J(60), Day::J(300)),
        (Day::Z(300), Day::Z(59)),
        (Day::J(1), Day::J(365)),
        (Day::M(12, 5, 6), Day::M(1, 1, 0)),
        (Day::Z(0), Day::Z(365)),
        (Day::M(2, 5, 1), Day::M(9, 1, 3)),
    ]
}
