//! Engine `tzstr`: C09 POSIX TZ string decoding vs the reference recogniser, in both extension modes.
//! Paths: TimeZoneSettings::parse_posix_tz with a failing reader (extensions off), v2 footer (off), v3 footer (on).

use crate::common::*;
use crate::conv::*;
use rayon::prelude::*;
use refmodel::cal::Cycle;
use refmodel::rule::{Day, RuleSpec, Timeline};
use refmodel::tzif::{self, Block};
use refmodel::tzstr::{recognise, trim_ascii_ws, Tz};
use serde_json::{json, Value};
use tz::timezone::{AlternateTime, LocalTimeType, TransitionRule};
use tz::{TimeZone, TimeZoneSettings};

#[derive(Clone, Copy, PartialEq, Eq, Debug)]
pub enum Mode {
    Settings,
    FooterV2,
    FooterV3,
    /// first header says '3', the header of the 64-bit block says '2': no extensions
    FooterV2After3,
    /// first header says '2', the header of the 64-bit block says '3': extensions
    FooterV3After2,
}
impl Mode {
    fn name(&self) -> &'static str {
        match self {
            Mode::Settings => "settings",
            Mode::FooterV2 => "footer_v2",
            Mode::FooterV3 => "footer_v3",
            Mode::FooterV2After3 => "footer_v2_after_header_v3",
            Mode::FooterV3After2 => "footer_v3_after_header_v2",
        }
    }
    fn from(s: &str) -> Mode {
        match s {
            "footer_v2" => Mode::FooterV2,
            "footer_v3" => Mode::FooterV3,
            "footer_v2_after_header_v3" => Mode::FooterV2After3,
            "footer_v3_after_header_v2" => Mode::FooterV3After2,
            _ => Mode::Settings,
        }
    }
}

#[derive(Default, Clone, Copy)]
pub struct Tally {
    pub evals: u64,
    pub accepted: u64,
    pub steps: u64,
    pub alt_accepted: u64,
    pub cross: u64,
    pub digest: u64,
}
impl Tally {
    pub fn merge(mut self, o: Tally) -> Tally {
        self.evals += o.evals;
        self.accepted += o.accepted;
        self.steps += o.steps;
        self.alt_accepted += o.alt_accepted;
        self.cross += o.cross;
        self.digest = self.digest.wrapping_add(o.digest);
        self
    }
}

fn fail_reader(_: &str) -> Result<Vec<u8>, Box<dyn std::error::Error + Send + Sync + 'static>> {
    Err("no file system in this harness".into())
}

fn utc_block() -> Block {
    Block { trans: vec![], types: vec![(0, 0, 0)], chars: b"UTC\0".to_vec(), leaps: vec![], isstd: vec![], isut: vec![] }
}

pub fn footer_file(version: u8, footer: &[u8]) -> Vec<u8> {
    let b = utc_block();
    tzif::file(version, &b, Some(&b), Some(footer))
}

/// what the model expects the decoded rule to be
#[derive(Debug, PartialEq)]
enum Expect {
    /// the string denotes a rule inside the constructor's windows whose start/end order never flips (rule model, 402 years),
    /// yet AlternateTime::new refuses it: whatever the decoder answers, the description was not decoded to the rule it denotes
    RefusedConsistentRule,
    Reject,
    NoRule,
    Rule(TransitionRule),
}

fn expect_rule(tz: &Tz) -> Expect {
    match tz {
        Tz::Reject => Expect::Reject,
        Tz::Fixed { name, utoff } => match LocalTimeType::new(*utoff as i32, false, Some(name)) {
            Ok(l) => Expect::Rule(TransitionRule::Fixed(l)),
            Err(_) => Expect::Reject,
        },
        Tz::Alt { std_name, std_utoff, dst_name, dst_utoff, start, start_time, end, end_time } => {
            let s = LocalTimeType::new(*std_utoff as i32, false, Some(std_name));
            let d = LocalTimeType::new(*dst_utoff as i32, true, Some(dst_name));
            match (s, d) {
                (Ok(s), Ok(d)) => match AlternateTime::new(s, d, rule_day(*start), *start_time as i32, rule_day(*end), *end_time as i32) {
                    // the constructor is C11's subject; here it is a sub-oracle (cross-checked against the model on a subset)
                    Ok(a) => Expect::Rule(TransitionRule::Alternate(a)),
                    Err(_) => {
                        // a refusal by the sub-oracle is believed only if the rule model agrees that the rule is outside the
                        // constructor's windows or flips its start/end order (otherwise a well-formed description that denotes a
                        // consistent rule would be "expected" to be rejected just because the implementation rejects it)
                        let spec = RuleSpec { std_off: *std_utoff, dst_off: *dst_utoff, start: *start, start_time: *start_time, end: *end, end_time: *end_time };
                        if model_accepts(&spec) {
                            Expect::RefusedConsistentRule
                        } else {
                            Expect::Reject
                        }
                    }
                },
                _ => Expect::Reject,
            }
        }
    }
}

thread_local! {
    static CONSISTENCY: std::cell::RefCell<(Option<Cycle>, std::collections::HashMap<(Day, Day, i64), bool>)> = std::cell::RefCell::new((None, std::collections::HashMap::new()));
}

/// C11's criterion by the rule model: windows, and the brute-force "order never flips" over 402 years (memoised per thread by
/// day pair and the one time difference the order depends on)
fn model_accepts(spec: &RuleSpec) -> bool {
    let off_ok = |o: i64| o > -25 * 3600 && o < 26 * 3600;
    let time_ok = |x: i64| x > -7 * 86400 && x < 7 * 86400;
    if !off_ok(spec.std_off) || !off_ok(spec.dst_off) || !time_ok(spec.start_time) || !time_ok(spec.end_time) {
        return false;
    }
    let d = (spec.start_time - spec.std_off) - (spec.end_time - spec.dst_off);
    CONSISTENCY.with(|c| {
        let mut c = c.borrow_mut();
        if c.0.is_none() {
            c.0 = Some(Cycle::build());
        }
        if let Some(&v) = c.1.get(&(spec.start, spec.end, d)) {
            return v;
        }
        let v = Timeline::build(c.0.as_ref().unwrap(), spec, 2000, 402).no_flip();
        c.1.insert((spec.start, spec.end, d), v);
        v
    })
}

/// model of the three decoding paths
fn model(s: &[u8], mode: Mode) -> (Expect, u64) {
    match mode {
        Mode::Settings => {
            if s.is_empty() || s == b"localtime" || s[0] == b':' {
                return (Expect::Reject, 1);
            }
            let (tz, steps) = recognise(trim_ascii_ws(s), false);
            (expect_rule(&tz), steps)
        }
        Mode::FooterV2 | Mode::FooterV3 | Mode::FooterV2After3 | Mode::FooterV3After2 => {
            if std::str::from_utf8(s).is_err() {
                return (Expect::Reject, 1);
            }
            let t = trim_ascii_ws(s);
            if t.first() == Some(&b':') || t.contains(&0) {
                return (Expect::Reject, 1);
            }
            if t.is_empty() {
                return (Expect::NoRule, 1);
            }
            let (tz, steps) = recognise(t, matches!(mode, Mode::FooterV3 | Mode::FooterV3After2));
            (expect_rule(&tz), steps)
        }
    }
}

fn run_impl(s: &[u8], mode: Mode) -> Result<Result<TimeZone, String>, String> {
    guard(|| match mode {
        Mode::Settings => {
            let st = std::str::from_utf8(s).expect("settings mode needs UTF-8");
            TimeZoneSettings::new(&[], fail_reader).parse_posix_tz(st).map_err(|e| format!("{e:?}"))
        }
        Mode::FooterV2 => TimeZone::from_tz_data(&footer_file(b'2', s)).map_err(|e| format!("{e:?}")),
        Mode::FooterV3 => TimeZone::from_tz_data(&footer_file(b'3', s)).map_err(|e| format!("{e:?}")),
        Mode::FooterV2After3 | Mode::FooterV3After2 => {
            let (first, second) = if mode == Mode::FooterV2After3 { (b'3', b'2') } else { (b'2', b'3') };
            let mut f = footer_file(first, s);
            let hdr2 = 44 + tzif::body(&utc_block(), false).len();
            f[hdr2 + 4] = second;
            TimeZone::from_tz_data(&f).map_err(|e| format!("{e:?}"))
        }
    })
}

fn expected_zone(e: &Expect, mode: Mode) -> Option<TimeZone> {
    match (e, mode) {
        (Expect::Reject, _) | (Expect::RefusedConsistentRule, _) => None,
        (Expect::NoRule, _) => TimeZone::new(vec![], vec![LocalTimeType::new(0, false, Some(b"UTC")).unwrap()], vec![], None).ok(),
        (Expect::Rule(r), Mode::Settings) => {
            let types = match r {
                TransitionRule::Fixed(l) => vec![*l],
                TransitionRule::Alternate(a) => vec![*a.std(), *a.dst()],
            };
            TimeZone::new(vec![], types, vec![], Some(*r)).ok()
        }
        (Expect::Rule(r), _) => TimeZone::new(vec![], vec![LocalTimeType::new(0, false, Some(b"UTC")).unwrap()], vec![], Some(*r)).ok(),
    }
}

pub fn check_string(cyc: &Cycle, s: &[u8], mode: Mode, rec: &Recorder, sweep: &str, tl: &mut Tally, cross: bool) {
    if mode == Mode::Settings && std::str::from_utf8(s).is_err() {
        return;
    }
    tl.evals += 1;
    let (exp, steps) = model(s, mode);
    tl.steps += steps;
    let case = || json!({"kind":"string","bytes":s.to_vec(),"text":String::from_utf8_lossy(s),"mode":mode.name()});
    let got = match run_impl(s, mode) {
        Ok(g) => g,
        Err(m) => {
            rec.violation(sweep, case(), json!("no panic"), json!(m));
            return;
        }
    };
    if exp == Expect::RefusedConsistentRule {
        rec.violation(sweep, case(), json!("a well-formed description of a rule whose start/end order never flips (rule model, 402 years) is decoded to that rule"), json!(format!("AlternateTime::new refuses the rule; decoder: {:?}", got.as_ref().map(|z| z.as_ref().extra_rule().clone()))));
        return;
    }
    let ez = expected_zone(&exp, mode);
    match (&ez, &got) {
        (None, Err(_)) => {}
        (Some(e), Ok(g)) if e == g => {
            tl.accepted += 1;
            tl.digest = tl.digest.wrapping_add(s.iter().fold(mode as u64 + 7, |a, &b| a.wrapping_mul(131).wrapping_add(b as u64)));
            if let Expect::Rule(TransitionRule::Alternate(a)) = &exp {
                tl.alt_accepted += 1;
                if cross {
                    // sub-oracle cross-check: the accepted rule does not flip its start/end order (model, 402 years)
                    let spec = RuleSpec { std_off: a.std().ut_offset() as i64, dst_off: a.dst().ut_offset() as i64, start: from_rule_day(a.dst_start()), start_time: a.dst_start_time() as i64, end: from_rule_day(a.dst_end()), end_time: a.dst_end_time() as i64 };
                    assert!(Timeline::build(cyc, &spec, 2000, 402).no_flip(), "sub-oracle AlternateTime::new accepted a flipping rule {spec:?} (C11 territory)");
                    tl.cross += 1;
                }
            }
        }
        _ => rec.violation(sweep, case(), json!(format!("{:?}", exp)), json!(format!("{:?}", got.as_ref().map(|z| z.as_ref().extra_rule().clone())))),
    }
}

fn from_rule_day(d: &tz::timezone::RuleDay) -> refmodel::rule::Day {
    use refmodel::rule::Day;
    match d {
        tz::timezone::RuleDay::Julian1WithoutLeap(j) => Day::J(j.get()),
        tz::timezone::RuleDay::Julian0WithLeap(j) => Day::Z(j.get()),
        tz::timezone::RuleDay::MonthWeekDay(m) => Day::M(m.month(), m.week(), m.week_day()),
    }
}

/// the symbol alphabet: 16 one-byte symbols + one two-byte character; `0xff` (invalid UTF-8) only in footer modes
pub const SYMS: [&[u8]; 18] = [b"A", b"<", b">", b"+", b"-", b"0", b"1", b"9", b":", b",", b"/", b".", b"J", b"M", b" ", b"\0", "\u{c3}".as_bytes(), b"\xff"];

/// every symbol string of length 0..=maxlen appended to `prefix` (and followed by `tail`)
fn sweep_exhaustive(cyc: &Cycle, prefix: &[u8], tail: &[u8], maxlen: usize, modes: &[Mode], rec: &Recorder, name: &str) -> Tally {
    let nsym = SYMS.len();
    // parallelise over the first two symbols
    let heads: Vec<Vec<usize>> = {
        let mut v: Vec<Vec<usize>> = vec![vec![]];
        for a in 0..nsym {
            v.push(vec![a]);
            if maxlen >= 2 {
                for b in 0..nsym {
                    v.push(vec![a, b]);
                }
            }
        }
        v
    };
    let t = heads
        .par_iter()
        .map(|head| {
            let mut tl = Tally::default();
            let rest_max = if head.len() < 2 { 0 } else { maxlen - 2 };
            if head.len() > maxlen {
                return tl;
            }
            let mut idx: Vec<usize> = vec![];
            let mut s: Vec<u8> = Vec::with_capacity(64);
            loop {
                // build string
                s.clear();
                s.extend_from_slice(prefix);
                for &h in head.iter().chain(idx.iter()) {
                    s.extend_from_slice(SYMS[h]);
                }
                s.extend_from_slice(tail);
                let has_ff = head.iter().chain(idx.iter()).any(|&h| h == 17);
                for &m in modes {
                    if has_ff && m == Mode::Settings {
                        continue;
                    }
                    check_string(cyc, &s, m, rec, name, &mut tl, false);
                }
                // next idx (odometer over lengths 0..=rest_max)
                let mut k = idx.len();
                loop {
                    if k == 0 {
                        if idx.len() < rest_max {
                            idx = vec![0; idx.len() + 1];
                        } else {
                            idx.clear();
                            k = usize::MAX;
                        }
                        break;
                    }
                    k -= 1;
                    if idx[k] + 1 < nsym {
                        idx[k] += 1;
                        for j in k + 1..idx.len() {
                            idx[j] = 0;
                        }
                        break;
                    }
                }
                if k == usize::MAX {
                    break;
                }
                if rec.saturated() {
                    break;
                }
            }
            tl
        })
        .reduce(Tally::default, Tally::merge);
    rec.sub(name, json!({"prefix": String::from_utf8_lossy(prefix), "tail": String::from_utf8_lossy(tail), "max_symbols": maxlen, "strings_x_modes": t.evals, "accepted": t.accepted}));
    t
}

pub fn core_sentences() -> Vec<&'static str> {
    vec![
        "EST5EDT,M3.2.0,M11.1.0", "CET-1CEST,M3.5.0,M10.5.0/3", "<+0330>-3:30", "<-03>3<-02>,M3.5.0/-2,M10.5.0/-1", "NZST-12NZDT,M9.5.0,M4.1.0/3", "<+1030>-10:30<+11>-11,M10.1.0,M4.1.0", "IST-1GMT0,M10.5.0,M3.5.0/1", "EET-2EEST,M3.5.0/3,M10.5.0/4", "<+02>-2", "PST8PDT,M3.2.0,M11.1.0", "AEST-10AEDT,M10.1.0,M4.1.0/3",
        "<-04>4<-03>,M9.1.6/24,M4.1.6/24", "IST-2IDT,M3.4.4/26,M10.5.0", "<+00>0<+02>-2,M3.5.0/1,M10.5.0/3", "WET0WEST,M3.5.0/1,M10.5.0", "CST6", "HST10", "JST-9", "<+1245>-12:45<+1345>,M9.5.0/2:45,M4.1.0/3:45", "<-01>1<+00>,M3.5.0/0,M10.5.0/1", "EET-2EEST,M3.5.5/0,M10.5.5/0", "XXX3YYY,J60/0,J300/0", "XXX-3YYY,59,300", "UTC0", "GMT0BST,M3.5.0/1,M10.5.0",
        "AAA0BBB0,J60/0,M2.5.0/24", "AAA-1BBB,J1,365/3", "EST5EDT,0/0,J365/25", "AAA24:59:59BBB-24:59:59,J1/-167:59:59,J365/167:59:59", "abcdefg+0:0:0<A1+b->-0,M12.5.6/24:59:59,M1.1.0/00",
    ]
}

fn sweep_sentences(cyc: &Cycle, rec: &Recorder, thorough: bool) -> Tally {
    let names: Vec<&str> = vec!["ABC", "abcdefg", "<+03>", "<-0330>", "<A1+b->", "AB", "ABCDEFGH", "<ab>", "<a_b>", "<abc"];
    let offsets: Vec<&str> = vec!["0", "5", "+5", "-5", "05", "005", "5:30", "-0:30", "5:30:15", "24", "24:59:59", "25", "5:60", "5:0:60", "-", "", "5:30:15:", "5:", "5:30:", "18446744073709551616", "18446744073709551621", "4294967301", "5:4294967326", "5:00:00:00", "5:00:00:30", "5:0:0:0:0", "340282366920938463463374607431768211461", "5:340282366920938463463374607431768211486"];
    let dst_names: Vec<&str> = vec!["BBB", "<+04>", "BB", ""];
    let dst_offsets: Vec<&str> = vec!["", "4", "-4:30", "24:59:59", "25", "+", "4:60", "4:00:60", "4:00:00:", "18446744073709551620", "4:00:00:00", "4:00:00:30"];
    let days: Vec<&str> = vec!["J1", "J59", "J60", "J365", "J0", "J366", "0", "59", "365", "366", "M1.1.0", "M12.5.6", "M13.1.0", "M1.0.0", "M1.6.0", "M1.1.7", "M1.1",
        // numbers that are valid only modulo 2^8, 2^16 or 2^32
        "M259.2.0", "M3.258.0", "M3.2.256", "J65537", "65537", "J65896", "M4294967299.2.0", "J4294967297", "M18446744073709551619.2.0", "J18446744073709551617", "18446744073709551616", "M340282366920938463463374607431768211459.2.0",
        "J340282366920938463463374607431768211457"];
    let times: Vec<&str> = vec!["", "/2", "/0", "/24", "/24:59:59", "/25", "/-1", "/+2", "/167", "/-167:59:59", "/168", "/2:60", "/1:02:03", "/1:02:03:", "/1:02:", "/2:00:60", "/2:59:59", "/-2:00:60", "/24:00:01", "/-0:30", "/-0:00:01", "/+0:30", "/-00:30:00", "/-0", "/596523", "/596524", "/-596524", "/1193047", "/2147483647", "/2:00:00:00", "/2:00:00:30", "/2:00:00:00:00", "/2:00:00:60", "/340282366920938463463374607431768211458"];
    let trailing: Vec<&str> = vec!["", ",", " ", "x"];
    let modes = [Mode::Settings, Mode::FooterV2, Mode::FooterV3, Mode::FooterV2After3, Mode::FooterV3After2];
    // (a) prefix product x small rule set
    let rules_small: Vec<String> = vec!["".into(), ",M3.2.0,M11.1.0".into(), ",J1/0,J365/24".into(), ",0/-1,365/25".into(), ",M3.2.0".into(), "M3.2.0,M11.1.0".into()];
    let mut list: Vec<String> = vec![];
    for n in &names {
        for o in &offsets {
            list.push(format!("{n}{o}"));
            for dn in &dst_names {
                for dof in &dst_offsets {
                    for r in &rules_small {
                        for t in &trailing {
                            list.push(format!("{n}{o}{dn}{dof}{r}{t}"));
                        }
                    }
                }
            }
        }
    }
    // (b) full rule product behind fixed prefixes
    let prefixes: Vec<&str> = if thorough { vec!["ABC5DEF", "<+03>-3<+04>-4", "ABC-1DEF-1:30", "abc0def0"] } else { vec!["ABC5DEF", "<+03>-3<+04>-4"] };
    for p in &prefixes {
        for d1 in &days {
            for t1 in &times {
                for d2 in &days {
                    for t2 in &times {
                        list.push(format!("{p},{d1}{t1},{d2}{t2}"));
                    }
                }
            }
        }
        for d1 in &days {
            for t1 in &times {
                for t in &trailing {
                    list.push(format!("{p},{d1}{t1},M11.1.0{t}"));
                    list.push(format!("{p},M3.2.0,{d1}{t1}{t}"));
                }
            }
        }
    }
    // (c) rule days close to each other in the calendar x day times up to +-167 h: whether such a rule is consistent is decided by
    // the day times (C11's territory, judged here through the rule model: a refusal must be justified by it)
    {
        let mut close: Vec<(String, String)> = vec![];
        for w1 in 1..=5 {
            for w2 in 1..=5 {
                for d1 in [0, 1, 6] {
                    for d2 in [0, 1, 6] {
                        close.push((format!("M3.{w1}.{d1}"), format!("M3.{w2}.{d2}")));
                    }
                }
            }
        }
        for (a, b) in [("J59", "J60"), ("J60", "J61"), ("59", "60"), ("J60", "60"), ("M2.5.0", "J60"), ("M2.4.3", "59"), ("M3.1.0", "J60"), ("J365", "0"), ("365", "J1"), ("M12.5.6", "M1.1.0")] {
            close.push((a.into(), b.into()));
            close.push((b.into(), a.into()));
        }
        let ext = ["", "/0", "/24", "/-24", "/48", "/-48", "/100", "/-100", "/167", "/-167", "/-1", "/25", "/72", "/-72"];
        for (a, b) in &close {
            for t1 in &ext {
                for t2 in &ext {
                    list.push(format!("AAA0BBB,{a}{t1},{b}{t2}"));
                }
            }
        }
    }
    list.sort();
    list.dedup();
    let t = list
        .par_iter()
        .enumerate()
        .map(|(i, s)| {
            let mut tl = Tally::default();
            for &m in &modes {
                check_string(cyc, s.as_bytes(), m, rec, "sentences", &mut tl, i % 7 == 0);
                // surrounding whitespace is stripped before decoding
                if i % 5 == 0 {
                    let padded = format!(" \t{s}\n");
                    check_string(cyc, padded.as_bytes(), m, rec, "sentences", &mut tl, false);
                }
            }
            tl
        })
        .reduce(Tally::default, Tally::merge);
    rec.sub("sentences", json!({"distinct_sentences": list.len(), "strings_x_modes": t.evals, "accepted": t.accepted, "accepted_dst_rules": t.alt_accepted, "sub_oracle_cross_checks": t.cross}));
    t
}

/// long call histories on one thread: string A, N other strings, string A' (N = 2^k - 2 .. 2^k + 1, k = 4..=16), through the
/// string route and the footer route
fn sweep_long_histories(cyc: &Cycle, rec: &Recorder) -> Tally {
    let mut tl = Tally::default();
    let a = ["EST5EDT,M3.2.0,M11.1.0", "CET-1CEST,M3.5.0,M10.5.0/3", "<+1030>-10:30<+11>-11,M10.1.0,M4.1.0", "EST5EDT,M3.2.0,M11.1.0/3"];
    let fillers = ["UTC0", "JST-9", "<+03>-3", "HST10", "AAA0BBB,J60,J300", "bad string", "XYZ5:30"];
    let mut j = 0usize;
    for k in 4..=16u32 {
        for d in [-2i64, -1, 0, 1] {
            let n = ((1i64 << k) + d) as usize;
            let mode = if j % 2 == 0 { Mode::Settings } else { Mode::FooterV3 };
            check_string(cyc, a[j % 4].as_bytes(), mode, rec, "long_histories", &mut tl, false);
            for f in 0..n {
                check_string(cyc, fillers[f % fillers.len()].as_bytes(), mode, rec, "long_histories", &mut tl, false);
            }
            check_string(cyc, a[(j + 1) % 4].as_bytes(), mode, rec, "long_histories", &mut tl, false);
            j += 1;
        }
    }
    rec.sub("long_histories", json!({"evaluations": tl.evals}));
    tl
}

fn sweep_edits(cyc: &Cycle, rec: &Recorder, two_edit_shortest: usize) -> Tally {
    let modes = [Mode::Settings, Mode::FooterV2, Mode::FooterV3];
    let core = core_sentences();
    let alphabet: Vec<u8> = b"A<>+-0159:,/.JMa _\0\n\r\t\x0b\x0c\x7f\x80".to_vec();
    let one_edits = |s: &[u8]| -> Vec<Vec<u8>> {
        let mut v = vec![];
        for i in 0..s.len() {
            let mut d = s.to_vec();
            d.remove(i);
            v.push(d);
            for &c in &alphabet {
                let mut x = s.to_vec();
                x[i] = c;
                v.push(x);
            }
        }
        for i in 0..=s.len() {
            for &c in &alphabet {
                let mut x = s.to_vec();
                x.insert(i, c);
                v.push(x);
            }
        }
        v
    };
    let mut shortest: Vec<&str> = core.clone();
    shortest.sort_by_key(|s| s.len());
    let shortest: Vec<&str> = shortest.into_iter().take(two_edit_shortest).collect();
    // numbers that are valid only modulo an integer width (k + 2^8, 2^16, 2^32, 2^64, 2^128) or with huge zero padding,
    // spelled out in every numeric slot of every core sentence
    let wrap = |s: &[u8]| -> Vec<Vec<u8>> {
        let mut v = vec![];
        let mut k = 0;
        while k < s.len() {
            if s[k].is_ascii_digit() {
                let end = (k..s.len()).find(|&j| !s[j].is_ascii_digit()).unwrap_or(s.len());
                if end - k <= 6 {
                    let val: u128 = std::str::from_utf8(&s[k..end]).unwrap().parse().unwrap();
                    for add in [1u128 << 8, 1 << 16, 1 << 31, 1 << 32, 1 << 63, 1 << 64, 1 << 65, 3 << 64, u128::MAX - 500] {
                        for mul in [1u128, 2] {
                            if let Some(x) = add.checked_mul(mul).and_then(|a| a.checked_add(val)) {
                                let mut t = s[..k].to_vec();
                                t.extend_from_slice(x.to_string().as_bytes());
                                t.extend_from_slice(&s[end..]);
                                v.push(t);
                            }
                        }
                    }
                    // 2^128 + value and 2^256-ish + value (decimal strings longer than any machine integer)
                    for big in ["340282366920938463463374607431768211456", "115792089237316195423570985008687907853269984665640564039457584007913129639936"] {
                        let sum = add_decimal(big, &val.to_string());
                        let mut t = s[..k].to_vec();
                        t.extend_from_slice(sum.as_bytes());
                        t.extend_from_slice(&s[end..]);
                        v.push(t);
                    }
                    for zeros in [1usize, 2, 19, 20, 40, 300] {
                        let mut t = s[..k].to_vec();
                        t.extend(std::iter::repeat(b'0').take(zeros));
                        t.extend_from_slice(&s[k..]);
                        v.push(t);
                    }
                }
                k = end;
            } else {
                k += 1;
            }
        }
        v
    };
    let t = core
        .par_iter()
        .map(|s| {
            let mut tl = Tally::default();
            let e1 = one_edits(s.as_bytes());
            for x in wrap(s.as_bytes()) {
                for &m in &modes {
                    check_string(cyc, &x, m, rec, "edits", &mut tl, false);
                }
            }
            for &m in &modes {
                check_string(cyc, s.as_bytes(), m, rec, "edits", &mut tl, true);
            }
            for x in &e1 {
                for &m in &modes {
                    check_string(cyc, x, m, rec, "edits", &mut tl, false);
                }
                if shortest.contains(s) {
                    for y in one_edits(x) {
                        for &m in &modes {
                            check_string(cyc, &y, m, rec, "edits", &mut tl, false);
                        }
                    }
                }
            }
            tl
        })
        .reduce(Tally::default, Tally::merge);
    rec.sub("edits", json!({"core_sentences": core.len(), "two_edit_for_shortest": two_edit_shortest, "strings_x_modes": t.evals, "accepted": t.accepted}));
    t
}

/// schoolbook addition of two decimal strings
fn add_decimal(a: &str, b: &str) -> String {
    let (a, b) = (a.as_bytes(), b.as_bytes());
    let mut out = vec![];
    let mut carry = 0u8;
    for i in 0..a.len().max(b.len()) {
        let x = if i < a.len() { a[a.len() - 1 - i] - b'0' } else { 0 };
        let y = if i < b.len() { b[b.len() - 1 - i] - b'0' } else { 0 };
        let s = x + y + carry;
        out.push(b'0' + s % 10);
        carry = s / 10;
    }
    if carry > 0 {
        out.push(b'0' + carry);
    }
    out.reverse();
    String::from_utf8(out).unwrap()
}

pub fn run(args: &Args) -> i32 {
    let rec = Recorder::new(args, "model_checking");
    let cyc = Cycle::build();
    let thorough = args.thorough();
    let modes = [Mode::Settings, Mode::FooterV2, Mode::FooterV3];
    let mut total = Tally::default();
    let l0 = if args.digest_mode { 4 } else if thorough { 7 } else { 6 };
    total = total.merge(sweep_exhaustive(&cyc, b"", b"", l0, &modes, &rec, "all_short_strings"));
    let l1 = if args.digest_mode { 3 } else if thorough { 6 } else { 5 };
    for (i, (p, t)) in [("AAA", ""), ("AAA0", ""), ("AAA0A", "A0,0,0"), ("AAA0AAA", ""), ("AAA0AAA,", ",0"), ("AAA0AAA,0,", ""), ("AAA0AAA,0/", ",0"), ("AAA0AAA,M1.1.0,M", ""), ("<", "0"), ("<AAA>", ""), ("AAA0AAA0,J1/", ",J9")].iter().enumerate() {
        total = total.merge(sweep_exhaustive(&cyc, p.as_bytes(), t.as_bytes(), l1, &modes, &rec, &format!("prefix_{i}")));
    }
    total = total.merge(sweep_sentences(&cyc, &rec, thorough));
    total = total.merge(sweep_edits(&cyc, &rec, if thorough { 10 } else { 4 }));
    if !args.digest_mode {
        total = total.merge(sweep_long_histories(&cyc, &rec));
    }
    // special values of the settings path
    let mut tl = Tally::default();
    for s in ["", "localtime", ":", ":UTC0", " UTC0 ", "\tUTC0\n", "\u{b}UTC0", "UTC0\u{b}", "\u{c}UTC0\u{c}", "\rUTC0\r", "UTC0\u{a0}", "\u{85}UTC0", "UTC0\u{2003}", "\u{3000}EST5EDT,M3.2.0,M11.1.0\u{2028}", "UTC0\u{feff}", "\u{1680}UTC0", "UTC0\u{200b}"] {
        for &m in &modes {
            check_string(&cyc, s.as_bytes(), m, &rec, "special", &mut tl, false);
        }
    }
    total = total.merge(tl);
    rec.add(total.evals, total.accepted);
    rec.add_model(total.steps, total.steps, total.evals);
    rec.digest("tzstr", total.digest);
    rec.set_rule("every symbol string up to the length bound over an 18-symbol TZ alphabet (alone and behind 11 grammar prefixes), every sentence of a bounded grammar (names x offsets x DST parts x day notations x times x trailing), every one-edit (two-edit for the shortest) deviation of 30 core sentences; each through 3 decoding paths (settings/extensions off, v2 footer/off, v3 footer/on); accept/reject and decoded value compared with the reference recogniser. states/transitions = recogniser steps. non-trivial = accepted strings");
    rec.set_exhaustive(true);
    rec.outcome("reject");
    rec.outcome("fixed");
    rec.outcome("dst_rule");
    rec.outcome("no_rule");
    let cs = core_sentences();
    let s = cs[(args.seed as usize) % cs.len()];
    rec.sample(json!({"string": s, "model_off": format!("{:?}", recognise(s.as_bytes(), false).0), "model_on": format!("{:?}", recognise(s.as_bytes(), true).0)}));
    rec.finish()
}

pub fn replay(case: &Value, args: &Args) -> i32 {
    let rec = Recorder::new(args, "model_checking");
    let cyc = Cycle::build();
    if case["kind"] != "string" {
        return 2;
    }
    let s: Vec<u8> = case["bytes"].as_array().unwrap().iter().map(|x| x.as_u64().unwrap() as u8).collect();
    let mode = Mode::from(case["mode"].as_str().unwrap_or(""));
    let mut tl = Tally::default();
    for _ in 0..2 {
        check_string(&cyc, &s, mode, &rec, "replay", &mut tl, false);
    }
    if rec.viol_count.load(std::sync::atomic::Ordering::Relaxed) > 0 {
        println!("REPLAY: violation reproduced");
        1
    } else {
        println!("REPLAY: case passes");
        0
    }
}
