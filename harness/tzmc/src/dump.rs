//! `tzmc dump`: answers a request file with what tz-rs reports (used by py/e2e.py for C10).
//!
//! request lines:
//!   F <path>                 select a TZif file (TimeZone::from_tz_data)
//!   S <tz string>            select a POSIX TZ string (settings with a failing reader)
//!   R <dir>\t<TZ value>      resolve a TZ value the way tzset(3) does, with <dir> as the only zoneinfo directory and the real file system
//!   T <unix time>            -> "T <offset> <abbr> <isdst>"  or  "T ERR <error>"
//!   L <y> <mo> <d> <h> <mi> <s>  -> "L <instant>:<offset>:<abbr>:<isdst>,...|<gap instant>:<offset before>:<offset after>,..." or "L ERR .."
//!   X <y0> <y1>              -> "X <instants...>" model DST start/end instants of the selected rule for years y0..=y1
//!                               (taken from the reference model; they only select where to probe)
//! one response line per request line (F/S answer "OK" or "ERR ..").

use refmodel::cal::Cycle;
use refmodel::rule::RuleSpec;
use std::io::{BufRead, Write};
use tz::datetime::FoundDateTimeKind;
use tz::timezone::TransitionRule;
use tz::{DateTime, TimeZone, TimeZoneSettings};

fn fail_reader(_: &str) -> Result<Vec<u8>, Box<dyn std::error::Error + Send + Sync + 'static>> {
    Err("no file system".into())
}

pub fn run(args: &crate::common::Args) -> i32 {
    let req = args.extra.get("requests").expect("--requests <file>");
    let out = args.extra.get("out").expect("--out <file>");
    let cyc = Cycle::build();
    let rd = std::io::BufReader::new(std::fs::File::open(req).expect("open requests"));
    let mut w = std::io::BufWriter::new(std::fs::File::create(out).expect("create out"));
    let mut zone: Option<TimeZone> = None;
    for line in rd.lines() {
        let line = line.expect("read");
        let (cmd, rest) = line.split_at(line.len().min(2));
        let rest = rest.trim_end_matches('\n');
        match cmd.trim() {
            "F" => {
                let r = std::fs::read(rest).map_err(|e| e.to_string()).and_then(|b| crate::common::guard(|| TimeZone::from_tz_data(&b).map_err(|e| format!("{e:?}"))).unwrap_or_else(|m| Err(format!("PANIC {m}"))));
                match r {
                    Ok(z) => {
                        zone = Some(z);
                        writeln!(w, "OK").unwrap();
                    }
                    Err(e) => {
                        zone = None;
                        writeln!(w, "ERR {e}").unwrap();
                    }
                }
            }
            "S" => match crate::common::guard(|| TimeZoneSettings::new(&[], fail_reader).parse_posix_tz(rest).map_err(|e| format!("{e:?}"))).unwrap_or_else(|m| Err(format!("PANIC {m}"))) {
                Ok(z) => {
                    zone = Some(z);
                    writeln!(w, "OK").unwrap();
                }
                Err(e) => {
                    zone = None;
                    writeln!(w, "ERR {e}").unwrap();
                }
            },
            "R" => {
                let (dir, value) = rest.split_once('\t').unwrap_or((rest, ""));
                let dirs = [dir];
                match crate::common::guard(|| TimeZoneSettings::new(&dirs, |p| Ok(std::fs::read(p)?)).parse_posix_tz(value).map_err(|e| format!("{e:?}"))).unwrap_or_else(|m| Err(format!("PANIC {m}"))) {
                    Ok(z) => {
                        zone = Some(z);
                        writeln!(w, "OK").unwrap();
                    }
                    Err(e) => {
                        zone = None;
                        writeln!(w, "ERR {e}").unwrap();
                    }
                }
            }
            "T" => {
                let t: i64 = rest.trim().parse().expect("instant");
                match &zone {
                    None => writeln!(w, "T ERR nozone").unwrap(),
                    Some(z) => match crate::common::guard(|| {
                        let direct = z.find_local_time_type(t).map(|l| (l.ut_offset(), l.time_zone_designation().to_string(), l.is_dst())).map_err(|e| format!("{e:?}"))?;
                        // the same question asked through the other public routes (localtime = timestamp + zone; projection of a
                        // date-time that was obtained in another zone showing the same / another offset): one answer
                        let zr = z.as_ref();
                        let mut routes: Vec<(&str, Result<DateTime, tz::TzError>)> = vec![("from_timespec", DateTime::from_timespec(t, 0, zr))];
                        for (name, off, dst) in [("project from same offset", direct.0, !direct.2), ("project from other offset", direct.0.wrapping_add(3600), direct.2)] {
                            if let Ok(src) = tz::LocalTimeType::new(off, dst, Some(b"SRC")) {
                                if let Ok(d0) = DateTime::from_timespec_and_local(t, 0, src) {
                                    routes.push((name, d0.project(zr)));
                                }
                            }
                        }
                        if let Ok(u) = tz::UtcDateTime::from_timespec(t, 0) {
                            routes.push(("UtcDateTime::project", u.project(zr)));
                        }
                        for (name, r) in routes {
                            match r {
                                Ok(d) => {
                                    let l = d.local_time_type();
                                    let got = (l.ut_offset(), l.time_zone_designation().to_string(), l.is_dst());
                                    if got != direct || d.unix_time() != t {
                                        return Err(format!("route {name} reports {got:?} at {} but the lookup reports {direct:?} at {t}", d.unix_time()));
                                    }
                                }
                                Err(tz::TzError::OutOfRange) => {}
                                Err(e) => return Err(format!("route {name} fails with {e:?} where the lookup reports {direct:?}")),
                            }
                        }
                        Ok(direct)
                    }) {
                        Ok(Ok((o, n, d))) => writeln!(w, "T {o} {} {}", if n.is_empty() { "-" } else { &n }, d as u8).unwrap(),
                        Ok(Err(e)) => writeln!(w, "T ERR {e}").unwrap(),
                        Err(m) => writeln!(w, "T ERR PANIC {m}").unwrap(),
                    },
                }
            }
            "L" => {
                let v: Vec<i64> = rest.split_whitespace().map(|x| x.parse().expect("field")).collect();
                match &zone {
                    None => writeln!(w, "L ERR nozone").unwrap(),
                    Some(z) => match crate::common::guard(|| DateTime::find(v[0] as i32, v[1] as u8, v[2] as u8, v[3] as u8, v[4] as u8, v[5] as u8, 0, z.as_ref()).map(|l| l.into_inner()).map_err(|e| format!("{e:?}"))) {
                        Ok(Ok(list)) => {
                            let mut xs: Vec<String> = vec![];
                            let mut sk: Vec<String> = vec![];
                            for k in list {
                                match k {
                                    FoundDateTimeKind::Normal(d) => {
                                        let l = d.local_time_type();
                                        let n = l.time_zone_designation();
                                        xs.push(format!("{}:{}:{}:{}", d.unix_time(), l.ut_offset(), if n.is_empty() { "-" } else { n }, l.is_dst() as u8))
                                    }
                                    FoundDateTimeKind::Skipped { before_transition, after_transition } => sk.push(format!("{}:{}:{}", before_transition.unix_time(), before_transition.local_time_type().ut_offset(), after_transition.local_time_type().ut_offset())),
                                }
                            }
                            writeln!(w, "L {}|{}", xs.join(","), sk.join(",")).unwrap();
                        }
                        Ok(Err(e)) => writeln!(w, "L ERR {e}").unwrap(),
                        Err(m) => writeln!(w, "L ERR PANIC {m}").unwrap(),
                    },
                }
            }
            "X" => {
                let v: Vec<i64> = rest.split_whitespace().map(|x| x.parse().expect("year")).collect();
                let mut xs: Vec<String> = vec![];
                if let Some(z) = &zone {
                    if let Some(TransitionRule::Alternate(a)) = z.as_ref().extra_rule() {
                        let conv = |d: &tz::timezone::RuleDay| match d {
                            tz::timezone::RuleDay::Julian1WithoutLeap(j) => refmodel::rule::Day::J(j.get()),
                            tz::timezone::RuleDay::Julian0WithLeap(j) => refmodel::rule::Day::Z(j.get()),
                            tz::timezone::RuleDay::MonthWeekDay(m) => refmodel::rule::Day::M(m.month(), m.week(), m.week_day()),
                        };
                        let spec = RuleSpec { std_off: a.std().ut_offset() as i64, dst_off: a.dst().ut_offset() as i64, start: conv(a.dst_start()), start_time: a.dst_start_time() as i64, end: conv(a.dst_end()), end_time: a.dst_end_time() as i64 };
                        for y in v[0]..=v[1] {
                            xs.push(spec.s(&cyc, y).to_string());
                            xs.push(spec.e(&cyc, y).to_string());
                        }
                    }
                }
                writeln!(w, "X {}", xs.join(" ")).unwrap();
            }
            _ => writeln!(w, "?").unwrap(),
        }
    }
    w.flush().unwrap();
    0
}
