//! Engine `cal`: C01 (gmtime) and C02 (timegm) against the odometer calendar model.

use crate::common::*;
use rayon::prelude::*;
use refmodel::cal::{Civil, Cycle, SECS_PER_DAY};
use serde_json::{json, Value};
use tz::{DateTime, TimeZoneRef, TzError, UtcDateTime};

pub const MIN_UNIX_TIME: i64 = -67768100567971200;
pub const MAX_UNIX_TIME: i64 = 67767976233532799;

const SECS_EDGE: [i64; 9] = [0, 1, 59, 60, 3599, 3600, 43199, 43200, 86399];
const NS_SET: [u32; 4] = [0, 1, 999_999_999, 123_456_789];

#[derive(Clone, Copy, PartialEq, Debug)]
enum SecSet {
    Edge,
    All,
    Two, // both ends of the day
}

impl SecSet {
    fn name(&self) -> &'static str {
        match self {
            SecSet::Edge => "edge",
            SecSet::All => "all",
            SecSet::Two => "two",
        }
    }
    fn from(s: &str) -> SecSet {
        match s {
            "all" => SecSet::All,
            "two" => SecSet::Two,
            _ => SecSet::Edge,
        }
    }
}

#[derive(Default, Clone, Copy)]
struct Tally {
    states: u64,
    steps: u64,
    evals: u64,
    nontrivial: u64,
    digest: u64,
}
impl Tally {
    fn merge(mut self, o: Tally) -> Tally {
        self.states += o.states;
        self.steps += o.steps;
        self.evals += o.evals;
        self.nontrivial += o.nontrivial;
        self.digest = self.digest.wrapping_add(o.digest);
        self
    }
}

fn in_i32(y: i64) -> bool {
    y >= i32::MIN as i64 && y <= i32::MAX as i64
}

fn err_name(e: &TzError) -> String {
    format!("{e:?}")
}

/// C01 check of one instant; returns Err(description) on disagreement.
#[inline]
/// local time types of the fixed-offset source zones of the projection route
fn offset_types() -> &'static [tz::LocalTimeType] {
    static T: std::sync::OnceLock<Vec<tz::LocalTimeType>> = std::sync::OnceLock::new();
    T.get_or_init(|| [-3600, 3600, -86_399, 93_599, i32::MAX, i32::MIN + 1].iter().map(|&o| tz::LocalTimeType::with_ut_offset(o).expect("offset type")).collect())
}

fn check_gmtime(cyc: &Cycle, c: &Civil, s: i64, ns: u32, with_dt: bool) -> Result<u64, (Value, Value)> {
    let t = match c.day.checked_mul(SECS_PER_DAY).and_then(|x| x.checked_add(s)) {
        Some(t) => t,
        None => return Ok(0),
    };
    check_gmtime_t(cyc, c, t, s, ns, with_dt)
}

#[inline]
fn check_gmtime_t(_cyc: &Cycle, c: &Civil, t: i64, s: i64, ns: u32, with_dt: bool) -> Result<u64, (Value, Value)> {
    let (h, mi, se) = ((s / 3600) as u8, ((s / 60) % 60) as u8, (s % 60) as u8);
    let exp_ok = in_i32(c.year);
    let r = UtcDateTime::from_timespec(t, ns);
    let mut dg = 0u64;
    match r {
        Ok(u) => {
            let good = exp_ok
                && u.year() as i64 == c.year
                && u.month() == c.month
                && u.month_day() == c.mday
                && u.hour() == h
                && u.minute() == mi
                && u.second() == se
                && u.nanoseconds() == ns
                && u.week_day() == c.wday
                && u.year_day() == c.yday;
            if !good {
                return Err((
                    if exp_ok { json!({"year":c.year,"month":c.month,"mday":c.mday,"h":h,"m":mi,"s":se,"wday":c.wday,"yday":c.yday,"ns":ns}) } else { json!("Err(OutOfRange)") },
                    json!({"year":u.year(),"month":u.month(),"mday":u.month_day(),"h":u.hour(),"m":u.minute(),"s":u.second(),"wday":u.week_day(),"yday":u.year_day(),"ns":u.nanoseconds()}),
                ));
            }
            dg = (u.year() as u64).wrapping_mul(31).wrapping_add(u.year_day() as u64 * 7 + u.week_day() as u64).wrapping_add(t as u64);
        }
        Err(TzError::OutOfRange) => {
            if exp_ok {
                return Err((json!({"year":c.year,"month":c.month,"mday":c.mday}), json!("Err(OutOfRange)")));
            }
        }
        Err(e) => return Err((json!("Ok or OutOfRange"), json!(err_name(&e)))),
    }
    if with_dt {
        check_total(_cyc, t as i128 * 1_000_000_000 + ns as i128)?;
        // the previous second written as second 60 of its minute denotes this instant: projecting that date-time (into UTC,
        // i.e. a zone showing the same offset) must show this instant's fields
        if exp_ok && se == 0 && t > MIN_UNIX_TIME {
            let (pc, ph, pm, _ps) = _cyc.gmtime(t - 1);
            if in_i32(pc.year) {
                if let Ok(l) = DateTime::new(pc.year as i32, pc.month, pc.mday, ph, pm, 60, ns, tz::LocalTimeType::utc()) {
                    match l.project(TimeZoneRef::utc()) {
                        Ok(d) => {
                            if !(d.year() as i64 == c.year && d.month() == c.month && d.month_day() == c.mday && d.hour() == h && d.minute() == mi && d.second() == 0 && d.week_day() == c.wday && d.year_day() == c.yday && d.unix_time() == t) {
                                return Err((json!({"via":"DateTime::new(second 60).project(utc)","year":c.year,"month":c.month,"mday":c.mday,"h":h,"m":mi,"s":0,"wday":c.wday,"yday":c.yday}), json!(format!("{d:?}"))));
                            }
                        }
                        Err(e) => return Err((json!({"via":"DateTime::new(second 60).project(utc)"}), json!(err_name(&e)))),
                    }
                }
            }
        }
        // a source shown with a non-zero offset may hold an instant up to |offset| outside the UTC range: projecting it onto UTC
        // must give this instant's UTC fields, or refuse when they do not exist
        if t & 15 == 0 || t < MIN_UNIX_TIME + (1 << 21) || t > MAX_UNIX_TIME - (1 << 21) {
            for lt in offset_types() {
                let one = [*lt];
                let zone = match TimeZoneRef::new(&[], &one, &[], &None) {
                    Ok(z) => z,
                    Err(e) => return Err((json!("fixed-offset zone"), json!(err_name(&e)))),
                };
                let src = match DateTime::from_timespec(t, ns, zone) {
                    Ok(s) => s,
                    Err(_) => continue, // the local date-time itself is not representable (judged by C03 / C14)
                };
                let via = format!("DateTime::from_timespec(t, ns, fixed {}).project(utc)", lt.ut_offset());
                match src.project(TimeZoneRef::utc()) {
                    Ok(d) => {
                        let good = exp_ok && d.year() as i64 == c.year && d.month() == c.month && d.month_day() == c.mday && d.hour() == h && d.minute() == mi && d.second() == se
                            && d.nanoseconds() == ns && d.week_day() == c.wday && d.year_day() == c.yday && d.unix_time() == t && d.local_time_type().ut_offset() == 0;
                        if !good {
                            return Err((if exp_ok { json!({"via":via,"year":c.year,"month":c.month,"mday":c.mday,"h":h,"m":mi,"s":se}) } else { json!({"via":via,"expected":"Err(OutOfRange)"}) }, json!(format!("{d:?}"))));
                        }
                    }
                    Err(TzError::OutOfRange) => {
                        if exp_ok {
                            return Err((json!({"via":via,"year":c.year}), json!("Err(OutOfRange)")));
                        }
                    }
                    Err(e) => return Err((json!({"via":via,"expected":"Ok or OutOfRange"}), json!(err_name(&e)))),
                }
            }
        }
        match DateTime::from_timespec(t, ns, TimeZoneRef::utc()) {
            Ok(d) => {
                let good = exp_ok
                    && d.year() as i64 == c.year
                    && d.month() == c.month
                    && d.month_day() == c.mday
                    && d.hour() == h
                    && d.minute() == mi
                    && d.second() == se
                    && d.nanoseconds() == ns
                    && d.week_day() == c.wday
                    && d.year_day() == c.yday
                    && d.unix_time() == t
                    && d.local_time_type().ut_offset() == 0;
                if !good {
                    return Err((json!({"via":"DateTime::from_timespec(utc)","year":c.year,"month":c.month,"mday":c.mday,"h":h,"m":mi,"s":se}), json!({"year":d.year(),"month":d.month(),"mday":d.month_day(),"h":d.hour(),"m":d.minute(),"s":d.second(),"unix_time":d.unix_time()})));
                }
            }
            Err(TzError::OutOfRange) => {
                if exp_ok {
                    return Err((json!({"via":"DateTime::from_timespec(utc)","year":c.year}), json!("Err(OutOfRange)")));
                }
            }
            Err(e) => return Err((json!("Ok or OutOfRange"), json!(err_name(&e)))),
        }
    }
    Ok(dg)
}

/// the same conversion entered through a total nanosecond count (i128): floor split, then exactly C01's contract
fn check_total(cyc: &Cycle, total: i128) -> Result<(), (Value, Value)> {
    let secs = refmodel::cal::floor_div128(total, 1_000_000_000);
    let ns = total.rem_euclid(1_000_000_000) as u32;
    let exp: Option<(Civil, u8, u8, u8)> = if secs >= i64::MIN as i128 && secs <= i64::MAX as i128 {
        let (c, h, mi, se) = cyc.gmtime(secs as i64);
        if in_i32(c.year) {
            Some((c, h, mi, se))
        } else {
            None
        }
    } else {
        None
    };
    match (UtcDateTime::from_total_nanoseconds(total), &exp) {
        (Ok(u), Some((c, h, mi, se))) => {
            let good = u.year() as i64 == c.year && u.month() == c.month && u.month_day() == c.mday && u.hour() == *h && u.minute() == *mi && u.second() == *se && u.nanoseconds() == ns && u.week_day() == c.wday && u.year_day() == c.yday && u.unix_time() as i128 == secs;
            if good {
                Ok(())
            } else {
                Err((json!({"year":c.year,"month":c.month,"mday":c.mday,"h":h,"m":mi,"s":se,"ns":ns}), json!(format!("{u:?}"))))
            }
        }
        (Err(TzError::OutOfRange), None) => Ok(()),
        (Ok(u), None) => Err((json!("Err(OutOfRange)"), json!(format!("{u:?}")))),
        (Err(e), Some((c, _, _, _))) => Err((json!({"year":c.year,"month":c.month,"mday":c.mday}), json!(err_name(&e)))),
        (Err(e), None) => Err((json!("Err(OutOfRange)"), json!(err_name(&e)))),
    }
}

/// totals whose second count equals an in-range instant modulo 2^m (a lossy recombination of a split division, a narrowing
/// cast): (k x 2^m + t) x 10^9 + ns and k x 2^m + t x 10^9 + ns for every m, small k, boundary t
pub fn wrap_total_candidates() -> Vec<i128> {
    let ts: [i64; 9] = [0, 1, -1, 86_400, -86_400, 951_868_800, 1_700_000_000, MIN_UNIX_TIME, MAX_UNIX_TIME];
    let mut totals: Vec<i128> = vec![];
    // the wrapped quantity may be the count of nanoseconds, seconds, minutes, hours, days or weeks
    // ... or of any decimal unit (10^j ns: microseconds, milliseconds, blocks of 10^k seconds)
    let mut units: Vec<i128> = vec![1, 1_000_000_000, 60_000_000_000, 3_600_000_000_000, 86_400_000_000_000, 604_800_000_000_000];
    for j in 1..=27u32 {
        if j != 9 {
            units.push(10i128.pow(j));
        }
    }
    for m in 20..=126u32 {
        for k in [-3i128, -2, -1, 1, 2, 3] {
            for &t in &ts {
                for ns in [0i128, 1, 999_999_999] {
                    for &u in &units {
                        if let Some(v) = k.checked_mul(1i128 << m).and_then(|x| x.checked_mul(u)).and_then(|x| x.checked_add(t as i128 * 1_000_000_000 + ns)) {
                            totals.push(v);
                        }
                    }
                }
            }
        }
    }
    totals
}

fn sweep_wrap_totals(cyc: &Cycle, rec: &Recorder) -> Tally {
    let mut tl = Tally::default();
    let totals = wrap_total_candidates();
    for total in totals {
        tl.evals += 1;
        match guard(|| check_total(cyc, total)) {
            Ok(Ok(())) => {}
            Ok(Err((e, g))) => rec.violation("wrap_totals", json!({"kind":"total","total":total.to_string()}), e, g),
            Err(m) => rec.violation("wrap_totals", json!({"kind":"total","total":total.to_string()}), json!("no panic"), json!(m)),
        }
    }
    rec.sub("wrap_totals", json!({"evaluations": tl.evals}));
    tl
}

/// C02 check of one (date, second): constructor accepts, unix_time exact, both round trips, second 60.
#[inline]
fn check_timegm(c: &Civil, s: i64, ns: u32, prev: &mut Option<UtcDateTime>) -> Result<u64, (Value, Value)> {
    if !in_i32(c.year) {
        return Ok(0);
    }
    let t = c.day * SECS_PER_DAY + s;
    let (h, mi, se) = ((s / 3600) as u8, ((s / 60) % 60) as u8, (s % 60) as u8);
    let y = c.year as i32;
    let u = match UtcDateTime::new(y, c.month, c.mday, h, mi, se, ns) {
        Ok(u) => u,
        Err(e) => return Err((json!("Ok"), json!(err_name(&e)))),
    };
    if u.unix_time() != t {
        return Err((json!({"unix_time": t}), json!({"unix_time": u.unix_time()})));
    }
    // Unix -> calendar -> Unix and calendar -> Unix -> calendar
    match UtcDateTime::from_timespec(t, ns) {
        Ok(v) => {
            if v != u || v.unix_time() != t {
                return Err((json!({"roundtrip": format!("{u:?}")}), json!(format!("{v:?}"))));
            }
        }
        Err(e) => return Err((json!("from_timespec Ok"), json!(err_name(&e)))),
    }
    // strict monotonicity along the walk
    if let Some(p) = prev.as_ref().copied() {
        let ok = p < u && p.unix_time() < u.unix_time() && p.cmp(&u) == std::cmp::Ordering::Less && u > p;
        if !ok {
            return Err((json!({"order": "previous < current", "prev": format!("{p:?}")}), json!({"cur": format!("{u:?}"), "prev_unix": p.unix_time(), "cur_unix": u.unix_time()})));
        }
    }
    *prev = Some(u);
    // second 60 == second 0 of the next minute
    if se == 59 {
        let last = y == i32::MAX && c.month == 12 && c.mday == 31 && h == 23 && mi == 59;
        match UtcDateTime::new(y, c.month, c.mday, h, mi, 60, ns) {
            Ok(l) => {
                if last || l.unix_time() != t + 1 || l.second() != 60 {
                    return Err((json!({"second60_unix_time": t + 1, "must_fail": last}), json!({"unix_time": l.unix_time()})));
                }
                // a leap-second date-time orders after second 59 of its minute
                if !(u < l) {
                    return Err((json!("59 < 60"), json!("not less")));
                }
            }
            Err(TzError::OutOfRange) if last => {}
            Err(e) => return Err((json!("Ok (second 60)"), json!(err_name(&e)))),
        }
    }
    Ok(t as u64 ^ (u.year_day() as u64))
}

struct Unit {
    name: &'static str,
    start_day: i64,
    n_days: i64,
    secs: SecSet,
}

fn run_chunk(cyc: &Cycle, c02: bool, start_day: i64, n_days: i64, secs: SecSet, rec: &Recorder, sweep: &str) -> Tally {
    let mut tl = Tally::default();
    let mut c = cyc.civil(start_day);
    let mut prev: Option<UtcDateTime> = None;
    if c02 {
        // seed the ordering chain with the last second of the previous day
        let mut p = c;
        p.prev();
        if in_i32(p.year) {
            prev = UtcDateTime::new(p.year as i32, p.month, p.mday, 23, 59, 59, 0).ok();
        }
    }
    static ALL: std::sync::OnceLock<Vec<i64>> = std::sync::OnceLock::new();
    let sset: &[i64] = match secs {
        SecSet::Edge => &SECS_EDGE,
        SecSet::Two => &[0, 86399],
        SecSet::All => ALL.get_or_init(|| (0..86400).collect()),
    };
    for k in 0..n_days {
        tl.states += 1;
        if c.is_month_edge() {
            tl.nontrivial += 1;
        }
        for (j, &s) in sset.iter().enumerate() {
            let ns = NS_SET[((k as usize) + j) & 3];
            let r = if c02 { check_timegm(&c, s, ns, &mut prev) } else { check_gmtime(cyc, &c, s, ns, secs != SecSet::All || j % 97 == 0) };
            tl.evals += 1;
            match r {
                Ok(d) => tl.digest = tl.digest.wrapping_add(d),
                Err((exp, got)) => rec.violation(sweep, json!({"kind":"t","day":c.day,"sec":s,"ns":ns,"c02":c02}), exp, got),
            }
        }
        if k + 1 < n_days {
            c.next();
            tl.steps += 1;
        }
    }
    // odometer and closed-form table must agree at the end of the chunk (model self-check)
    let e = cyc.civil(start_day + n_days - 1);
    assert!(e == c, "model self-check: odometer {c:?} != table {e:?}");
    tl
}

fn run_units(cyc: &Cycle, c02: bool, units: &[Unit], rec: &Recorder) -> Tally {
    let mut total = Tally::default();
    for u in units {
        let chunk: i64 = if u.secs == SecSet::All { 16 } else { 2048 };
        let nchunks = (u.n_days + chunk - 1) / chunk;
        let t = (0..nchunks)
            .into_par_iter()
            .map(|i| {
                let s = u.start_day + i * chunk;
                let n = chunk.min(u.start_day + u.n_days - s);
                match guard(|| run_chunk(cyc, c02, s, n, u.secs, rec, u.name)) {
                    Ok(t) => t,
                    Err(msg) => {
                        rec.violation(u.name, json!({"kind":"chunk","start_day":s,"n_days":n,"secs":u.secs.name(),"c02":c02}), json!("no panic"), json!(msg));
                        Tally::default()
                    }
                }
            })
            .reduce(Tally::default, Tally::merge);
        rec.sub(u.name, json!({"start_day": u.start_day, "days": u.n_days, "seconds_per_day": u.secs.name(), "evaluations": t.evals}));
        total = total.merge(t);
    }
    total
}

fn units_for(cyc: &Cycle, thorough: bool) -> Vec<Unit> {
    let mut v = vec![];
    let min_day = cyc.day_of(i32::MIN as i64, 1, 1);
    let max_day = cyc.day_of(i32::MAX as i64, 12, 31);
    assert_eq!(min_day * SECS_PER_DAY, MIN_UNIX_TIME);
    assert_eq!(max_day * SECS_PER_DAY + 86399, MAX_UNIX_TIME);
    let cd = refmodel::cal::CYCLE_DAYS;
    if !thorough {
        v.push(Unit { name: "around_2000_16_cycles", start_day: cyc.day_of(-1200, 1, 1), n_days: 16 * cd, secs: SecSet::Edge });
        v.push(Unit { name: "i32_min_2_cycles", start_day: min_day - 1000, n_days: 2 * cd + 1000, secs: SecSet::Edge });
        v.push(Unit { name: "i32_max_2_cycles", start_day: max_day - 2 * cd, n_days: 2 * cd + 1000, secs: SecSet::Edge });
        v.push(Unit { name: "all_seconds_1968_1971", start_day: cyc.day_of(1968, 1, 1), n_days: 1461, secs: SecSet::All });
        v.push(Unit { name: "all_seconds_m4_m1", start_day: cyc.day_of(-4, 1, 1), n_days: 1461, secs: SecSet::All });
        v.push(Unit { name: "all_seconds_first_days_of_range", start_day: min_day - 1, n_days: 3, secs: SecSet::All });
        v.push(Unit { name: "all_seconds_last_days_of_range", start_day: max_day - 1, n_days: 3, secs: SecSet::All });
    } else {
        v.push(Unit { name: "all_seconds_cycle_1970_2369", start_day: 0, n_days: cd, secs: SecSet::All });
        v.push(Unit { name: "around_0_20000_cycles_day_ends", start_day: cyc.day_of(0, 1, 1) - 10_000 * cd, n_days: 20_000 * cd, secs: SecSet::Two });
        v.push(Unit { name: "around_2000_64_cycles", start_day: cyc.day_of(-12000, 1, 1), n_days: 64 * cd, secs: SecSet::Edge });
        v.push(Unit { name: "i32_min_50_cycles", start_day: min_day - 5000, n_days: 50 * cd + 5000, secs: SecSet::Edge });
        v.push(Unit { name: "i32_max_50_cycles", start_day: max_day - 50 * cd, n_days: 50 * cd + 5000, secs: SecSet::Edge });
        v.push(Unit { name: "all_seconds_m4_m1", start_day: cyc.day_of(-4, 1, 1), n_days: 1461, secs: SecSet::All });
        v.push(Unit { name: "all_seconds_i32_min_year", start_day: min_day - 2, n_days: 400, secs: SecSet::All });
        v.push(Unit { name: "all_seconds_i32_max_year", start_day: max_day - 397, n_days: 400, secs: SecSet::All });
    }
    v
}

/// day windows around numeric thresholds of the three quantities an implementation may narrow: the year (+-2^k, +-10^k),
/// the day count since the epoch (+-2^k) and the second count (+-2^k): (first day, number of days)
pub fn threshold_windows(cyc: &Cycle, thorough: bool) -> Vec<(i64, i64)> {
    let min_day = cyc.day_of(i32::MIN as i64, 1, 1);
    let max_day = cyc.day_of(i32::MAX as i64, 12, 31);
    let mut v: Vec<(i64, i64)> = vec![];
    let mut years: Vec<i64> = vec![];
    for k in 5..=31 {
        years.push(1i64 << k);
        years.push(-(1i64 << k));
    }
    let mut p = 10i64;
    while p < (1 << 31) {
        years.push(p);
        years.push(-p);
        p *= 10;
    }
    // thresholds of the year relative to common epochs (1900, 1970, 2000)
    for base in [1900i64, 1970, 2000] {
        for k in [7u32, 8, 15, 16] {
            years.push(base + (1i64 << k));
            years.push(base - (1i64 << k));
        }
    }
    // years at which a narrower day or month count would overflow: 2^k / 365, 2^k / 366, 2^k / 12, relative to common epochs
    for k in [15u32, 16, 31, 32] {
        for c in [12i64, 365, 366] {
            for e in [0i64, 1900, 1970, 2000] {
                for adj in [0i64, 1] {
                    years.push(e + (1i64 << k) / c + adj);
                    years.push(e - (1i64 << k) / c - adj);
                }
            }
        }
    }
    years.sort();
    years.dedup();
    for y in years {
        if y - 1 >= i32::MIN as i64 && y + 1 <= i32::MAX as i64 {
            v.push((cyc.day_of(y - 1, 12, 1), if thorough { 31 + 366 + 60 } else { 31 + 60 }));
        }
    }
    // day counts relative to the epochs an implementation may count from: 1970-01-01, 2000-03-01, 2000-01-01, 0000-03-01,
    // 0001-01-01, 0000-01-01, 1900-01-01, 1601-01-01, the Julian Day epoch
    let epochs: [i64; 9] = [0, 11017, 10957, -719468, -719162, -719528, -25567, -134774, -2440588];
    for e in epochs {
        for k in 6..=40 {
            for sgn in [1i64, -1] {
                for adj in [-1i64, 0] {
                    // 2^k and 2^k - 1 (the largest value of a k-bit field) as day counts since the epoch
                    let d = e + sgn * ((1i64 << k) + adj);
                    if d - 400 >= min_day && d + 400 <= max_day {
                        // the year that follows an overflowing day count starts within 366 days
                        let w = if e == 0 && adj == 0 { if k >= 16 { 400 } else { 40 } } else { 3 };
                        v.push((d - w, 2 * w + 1));
                    }
                }
            }
        }
    }
    // epochs shifted by whole 400-year cycles (algorithms that add K cycles to make the day count non-negative): the day on
    // which the shifted count reaches 2^29 .. 2^32 (where 4 x days + 3 leaves 32 bits), for every K in +-20 000 (thorough:
    // every K for which the day lies in the supported range)
    {
        let cd = refmodel::cal::CYCLE_DAYS;
        let kmax: i64 = if thorough { (max_day - min_day) / cd + 2 } else { 20_000 };
        for base in [11017i64, 0] {
            for k in -kmax..=kmax {
                for p in [29u32, 30, 31, 32] {
                    let d = base - k * cd + (1i64 << p);
                    if d - 1 >= min_day && d + 1 <= max_day {
                        v.push((d - 1, 3));
                    }
                }
            }
        }
    }
    // years at which 1461 x year, 365 x year or 12 x year leaves 31 / 32 bits, counted from an epoch shifted by whole cycles:
    // five days around 1 January, 1 March and 31 December of the threshold year and its neighbours
    {
        let kmax: i64 = if thorough { 200_000 } else { 20_000 };
        for base in [0i64, 2000] {
            for q in [(1i64 << 32) / 1461, (1i64 << 31) / 1461, (1i64 << 32) / 365, (1i64 << 31) / 365] {
                for k in -kmax..=kmax {
                    for dy in [-2i64, -1, 0, 1, 2] {
                        let y = base + q + dy - 400 * k;
                        if y - 1 > i32::MIN as i64 && y + 1 < i32::MAX as i64 {
                            v.push((cyc.day_of(y, 1, 1) - 2, 5));
                            v.push((cyc.day_of(y, 3, 1) - 2, 5));
                        }
                    }
                }
            }
        }
    }
    for k in 10..=56 {
        for sgn in [1i64, -1] {
            let d = refmodel::cal::floor_div(sgn * (1i64 << k), SECS_PER_DAY);
            if d - 2 >= min_day && d + 2 <= max_day {
                v.push((d - 2, 5));
            }
        }
    }
    v
}

fn sweep_thresholds(cyc: &Cycle, c02: bool, thorough: bool, rec: &Recorder) -> Tally {
    let ws = threshold_windows(cyc, thorough);
    let t = ws
        .par_iter()
        .map(|&(d0, n)| match guard(|| run_chunk(cyc, c02, d0, n, SecSet::Edge, rec, "threshold_windows")) {
            Ok(t) => t,
            Err(msg) => {
                rec.violation("threshold_windows", json!({"kind":"chunk","start_day":d0,"n_days":n,"secs":"edge","c02":c02}), json!("no panic"), json!(msg));
                Tally::default()
            }
        })
        .reduce(Tally::default, Tally::merge);
    rec.sub("threshold_windows", json!({"windows": ws.len(), "days": t.states, "evaluations": t.evals, "note": "days around year = +-2^k, +-10^k, epoch +- 2^k; day count = +-2^k; second count = +-2^k"}));
    t
}

/// the 40 seam days of a 400-year cycle (offsets from the cycle's 1 January of year 0 mod 400)
fn seam_days(cyc: &Cycle) -> Vec<i64> {
    let base = cyc.day_of(2000, 1, 1);
    let mut v = vec![];
    for y in [2000i64, 2001, 2004, 2099, 2100, 2101, 2199, 2200, 2300, 2396, 2399] {
        for (m, d) in [(1u8, 1i64), (2, 28), (3, 1), (12, 31)] {
            v.push(cyc.day_of(y, m, d) - base);
        }
        v.push(cyc.day_of(y, 3, 1) - 1 - base); // 28 or 29 Feb
    }
    v.sort();
    v.dedup();
    v
}

/// every cycle of the i32 range at its seam days (thorough) / every 1000th cycle (quick)
fn sweep_all_cycles(cyc: &Cycle, c02: bool, thorough: bool, rec: &Recorder) -> Tally {
    let seams = seam_days(cyc);
    let base = cyc.day_of(2000, 1, 1);
    let cd = refmodel::cal::CYCLE_DAYS;
    let c_min = refmodel::cal::floor_div(i32::MIN as i64 - 2000, 400) - 1;
    let c_max = refmodel::cal::floor_div(i32::MAX as i64 - 2000, 400) + 1;
    let stride: i64 = if thorough { 1 } else { 997 };
    let n = (c_max - c_min) / stride + 1;
    let t = (0..n)
        .into_par_iter()
        .fold(Tally::default, |mut tl, i| {
            let ci = c_min + i * stride;
            for &sd in &seams {
                let day = base + ci * cd + sd;
                let c = cyc.civil(day);
                tl.states += 1;
                tl.nontrivial += 1;
                for &s in &[0i64, 86399] {
                    let mut prev = None;
                    let r = guard(|| if c02 { check_timegm(&c, s, 0, &mut prev) } else { check_gmtime(cyc, &c, s, 7, true) });
                    tl.evals += 1;
                    match r {
                        Ok(Ok(d)) => tl.digest = tl.digest.wrapping_add(d),
                        Ok(Err((exp, got))) => rec.violation("every_cycle_seams", json!({"kind":"t","day":day,"sec":s,"ns":if c02 {0} else {7},"c02":c02}), exp, got),
                        Err(msg) => rec.violation("every_cycle_seams", json!({"kind":"t","day":day,"sec":s,"ns":0,"c02":c02}), json!("no panic"), json!(msg)),
                    }
                }
            }
            tl
        })
        .reduce(Tally::default, Tally::merge);
    rec.sub("every_cycle_seams", json!({"cycles": n, "stride": stride, "seam_days_per_cycle": seams.len(), "evaluations": t.evals}));
    t
}

/// out-of-range and boundary instants for C01: any Ok must equal the (total) model, which cannot fit i32 there
fn sweep_out_of_range(cyc: &Cycle, rec: &Recorder, thorough: bool) -> Tally {
    let w: i64 = if thorough { 1 << 22 } else { 1 << 20 };
    let mut ranges: Vec<(i64, i64)> = vec![(MIN_UNIX_TIME - w, MIN_UNIX_TIME + w), (MAX_UNIX_TIME - w, MAX_UNIX_TIME + w), (i64::MIN, i64::MIN + w), (i64::MAX - w, i64::MAX), (-w, w)];
    for k in 0..63 {
        let p = 1i64 << k;
        ranges.push((p - 2, p.saturating_add(2)));
        ranges.push((-p - 2, -p + 2));
    }
    // second, minute and hour counts relative to other epochs (2000-03-01, 2000-01-01, 0000-03-01, 0001-01-01, 1900, 1601)
    for e in [951_868_800i64, 946_684_800, -62_162_035_200, -62_135_596_800, -2_208_988_800, -11_644_473_600] {
        for unit in [1i64, 60, 3600] {
            for k in 20..62 {
                if let Some(p) = (1i64 << k).checked_mul(unit) {
                    for c in [e.checked_add(p), e.checked_sub(p)].into_iter().flatten() {
                        ranges.push((c.saturating_sub(2), c.saturating_add(2)));
                    }
                }
            }
        }
    }
    // the last / first instants a source shown with each offset of the projection route can hold
    for lt in offset_types() {
        let o = lt.ut_offset() as i64;
        ranges.push((MAX_UNIX_TIME - o - 3, MAX_UNIX_TIME - o + 3));
        ranges.push((MIN_UNIX_TIME - o - 3, MIN_UNIX_TIME - o + 3));
    }
    ranges.push((951868800 - 100_000, 951868800 + 100_000));
    ranges.push((i64::MIN + 951868800 - 1000, i64::MIN + 951868800 + 1000));
    let t = ranges
        .par_iter()
        .map(|&(a, b)| {
            let mut tl = Tally::default();
            let mut t = a;
            loop {
                let (c, _, _, _) = cyc.gmtime(t);
                let s = refmodel::cal::floor_mod(t, SECS_PER_DAY);
                tl.evals += 1;
                if !in_i32(c.year) {
                    tl.nontrivial += 1;
                }
                match guard(|| check_gmtime_t(cyc, &c, t, s, 5, true)) {
                    Ok(Ok(_)) => {}
                    Ok(Err((exp, got))) => rec.violation("out_of_range", json!({"kind":"t","day":c.day,"sec":s,"ns":5,"c02":false}), exp, got),
                    Err(msg) => rec.violation("out_of_range", json!({"kind":"t","day":c.day,"sec":s,"ns":5,"c02":false}), json!("no panic"), json!(msg)),
                }
                if t == b {
                    break;
                }
                t += 1;
            }
            tl
        })
        .reduce(Tally::default, Tally::merge);
    rec.sub("range_gates", json!({"ranges": ranges.len(), "evaluations": t.evals, "expected_out_of_range": t.nontrivial}));
    Tally { nontrivial: 0, ..t }
}

// ------------------------------------------------------------------------------------------ C02 validity

fn dt_err(e: &TzError) -> String {
    format!("{e:?}")
}

/// expected outcome of UtcDateTime::new for arbitrary fields: Ok / the set of applicable error kinds
fn expected_new(cyc: &Cycle, y: i32, mo: u8, d: u8, h: u8, mi: u8, s: u8, ns: u32) -> Vec<&'static str> {
    let mut defects = vec![];
    if !(1..=12).contains(&mo) {
        defects.push("DateTime(InvalidMonth)");
    }
    if !(1..=31).contains(&d) || ((1..=12).contains(&mo) && !cyc.valid_date(y as i64, mo as i64, d as i64)) {
        defects.push("DateTime(InvalidMonthDay)");
    }
    if h > 23 {
        defects.push("DateTime(InvalidHour)");
    }
    if mi > 59 {
        defects.push("DateTime(InvalidMinute)");
    }
    if s > 60 {
        defects.push("DateTime(InvalidSecond)");
    }
    if ns >= 1_000_000_000 {
        defects.push("DateTime(InvalidNanoseconds)");
    }
    if y == i32::MAX && mo == 12 && d == 31 && h == 23 && mi == 59 && s == 60 {
        defects.push("OutOfRange");
    }
    defects
}

fn check_new(cyc: &Cycle, y: i32, mo: u8, d: u8, h: u8, mi: u8, s: u8, ns: u32, rec: &Recorder, sweep: &str) -> (u64, u64) {
    let exp = expected_new(cyc, y, mo, d, h, mi, s, ns);
    let r = guard(|| UtcDateTime::new(y, mo, d, h, mi, s, ns));
    let case = || json!({"kind":"fields","y":y,"mo":mo,"d":d,"h":h,"mi":mi,"s":s,"ns":ns});
    let mut nontrivial = 0;
    match r {
        Err(msg) => rec.violation(sweep, case(), json!("no panic"), json!(msg)),
        Ok(Ok(u)) => {
            if !exp.is_empty() {
                rec.violation(sweep, case(), json!({"err_one_of": exp}), json!(format!("Ok({u:?})")));
            } else {
                let t = cyc.timegm(y as i64, mo, d, h, mi, s);
                if u.unix_time() != t {
                    rec.violation(sweep, case(), json!({"unix_time": t}), json!({"unix_time": u.unix_time()}));
                }
            }
        }
        Ok(Err(e)) => {
            nontrivial = 1;
            let name = dt_err(&e);
            if exp.is_empty() {
                rec.violation(sweep, case(), json!("Ok"), json!(name));
            } else if !exp.contains(&name.as_str()) {
                // C02 states "refused", not which error a refusal carries: a kind other than the expected one is recorded, not judged
                rec.note("refusal_carries_another_error_kind", || json!({"case": case(), "expected_one_of": exp, "got": name}));
            }
        }
    }
    (1, nontrivial)
}

fn sweep_validity(cyc: &Cycle, rec: &Recorder, thorough: bool) -> Tally {
    // (a) every (month 0..=13, day 0..=32) for a set of years
    let mut years: Vec<i32> = vec![];
    let span = if thorough { 3000 } else { 450 };
    for y in -span..=span {
        years.push(1970 + y);
    }
    for k in 0..(if thorough { 1200 } else { 450 }) {
        years.push(i32::MIN + k);
        years.push(i32::MAX - k);
    }
    let a = years
        .par_iter()
        .map(|&y| {
            let mut tl = Tally::default();
            for mo in 0..=13u8 {
                for d in 0..=32u8 {
                    let (e, n) = check_new(cyc, y, mo, d, 12, 30, 30, 0, rec, "validity_month_day");
                    tl.evals += e;
                    tl.nontrivial += n;
                }
            }
            for mo in [0u8, 1, 2, 12, 13, 255] {
                for d in [0u8, 1, 28, 29, 30, 31, 32, 255] {
                    let (e, n) = check_new(cyc, y, mo, d, 23, 59, 60, 999_999_999, rec, "validity_month_day");
                    tl.evals += e;
                    tl.nontrivial += n;
                }
            }
            tl
        })
        .reduce(Tally::default, Tally::merge);
    rec.sub("validity_month_day", json!({"years": years.len(), "evaluations": a.evals, "refused": a.nontrivial}));
    // (b) time-of-day / ns fields on a set of dates
    let mut dates: Vec<(i32, u8, u8)> = vec![];
    for &y in &[i32::MIN, -1, 0, 1, 1900, 1969, 1970, 1972, 2000, 2023, 2024, 2100, i32::MAX - 1, i32::MAX] {
        for &(m, d) in &[(1u8, 1u8), (2, 28), (2, 29), (12, 31)] {
            dates.push((y, m, d));
        }
    }
    let dates: Vec<_> = if thorough { dates } else { dates.into_iter().step_by(3).collect() };
    let hours: Vec<u8> = (0..=25u8).chain([255]).collect();
    let dh: Vec<((i32, u8, u8), u8)> = dates.iter().flat_map(|&d| hours.iter().map(move |&h| (d, h))).collect();
    let b = dh
        .par_iter()
        .map(|&((y, mo, d), h)| {
            let mut tl = Tally::default();
            {
                for mi in (0..=61u8).chain([255]) {
                    for s in (0..=62u8).chain([255]) {
                        for ns in [0u32, 999_999_999, 1_000_000_000, u32::MAX] {
                            let (e, n) = check_new(cyc, y, mo, d, h, mi, s, ns, rec, "validity_time_fields");
                            tl.evals += e;
                            tl.nontrivial += n;
                        }
                    }
                }
            }
            tl
        })
        .reduce(Tally::default, Tally::merge);
    rec.sub("validity_time_fields", json!({"dates": dates.len(), "evaluations": b.evals, "refused": b.nontrivial}));
    Tally { nontrivial: 0, states: 0, steps: 0, ..a.merge(b) }
}

/// year seam: for a range of i32 years check new(y,1,1) new(y,3,1) new(y,12,31) and validity of (y,2,29) against the
/// closed table of the model
fn sweep_years(cyc: &Cycle, rec: &Recorder, thorough: bool) -> Tally {
    let mut ranges: Vec<(i64, i64)> = vec![];
    if thorough {
        ranges.push((i32::MIN as i64, i32::MAX as i64));
    } else {
        ranges.push((-20_000, 20_000));
        ranges.push((i32::MIN as i64, i32::MIN as i64 + 10_000));
        ranges.push((i32::MAX as i64 - 10_000, i32::MAX as i64));
    }
    let mut total = Tally::default();
    for (a, b) in ranges {
        let chunk = 1 << 16;
        let n = (b - a) / chunk + 1;
        let t = (0..n)
            .into_par_iter()
            .map(|i| {
                let mut tl = Tally::default();
                let lo = a + i * chunk;
                let hi = (lo + chunk - 1).min(b);
                let r = guard(|| {
                    let mut tl = Tally::default();
                    let mut jan1 = cyc.year_start_day(lo);
                    for y in lo..=hi {
                        let leap = refmodel::cal::is_leap(y);
                        let diy = if leap { 366 } else { 365 };
                        let yi = y as i32;
                        let checks = [(1u8, 1u8, jan1), (3, 1, jan1 + 59 + leap as i64), (12, 31, jan1 + diy - 1), (2, 28, jan1 + 58)];
                        for (mo, d, day) in checks {
                            tl.evals += 1;
                            match UtcDateTime::new(yi, mo, d, 0, 0, 0, 0) {
                                Ok(u) if u.unix_time() == day * SECS_PER_DAY => {}
                                other => rec.violation("year_seam", json!({"kind":"fields","y":yi,"mo":mo,"d":d,"h":0,"mi":0,"s":0,"ns":0}), json!({"unix_time": day * SECS_PER_DAY}), json!(format!("{other:?}"))),
                            }
                        }
                        tl.evals += 1;
                        let feb29 = UtcDateTime::new(yi, 2, 29, 0, 0, 0, 0);
                        if feb29.is_ok() != leap {
                            rec.violation("year_seam", json!({"kind":"fields","y":yi,"mo":2,"d":29,"h":0,"mi":0,"s":0,"ns":0}), json!({"accepted": leap}), json!(format!("{feb29:?}")));
                        }
                        if leap {
                            tl.nontrivial += 1;
                        }
                        tl.states += 1;
                        jan1 += diy;
                    }
                    // model self check: incremental year starts agree with the closed table
                    assert_eq!(jan1, cyc.year_start_day(hi + 1));
                    tl
                });
                match r {
                    Ok(t) => tl = tl.merge(t),
                    Err(msg) => rec.violation("year_seam", json!({"kind":"years","lo":lo,"hi":hi}), json!("no panic"), json!(msg)),
                }
                tl
            })
            .reduce(Tally::default, Tally::merge);
        total = total.merge(t);
    }
    rec.sub("year_seam", json!({"years": total.states, "evaluations": total.evals, "leap_years": total.nontrivial}));
    Tally { states: 0, nontrivial: 0, ..total }
}

type FieldsT = (i64, u8, u8, u8, u8, u8, u32);

fn check_order_pair(fa: &FieldsT, a: &UtcDateTime, fb: &FieldsT, b: &UtcDateTime, rec: &Recorder, sweep: &str) {
    use std::cmp::Ordering;
    let exp = fa.cmp(fb);
    let arr = |f: &FieldsT| json!([f.0, f.1, f.2, f.3, f.4, f.5, f.6]);
    let case = || json!({"kind":"order","a":arr(fa),"b":arr(fb)});
    match guard(|| (a.cmp(b), a.partial_cmp(b), a < b, a == b, std::cmp::max(*a, *b) == if exp == Ordering::Less { *b } else { *a }, (a.unix_time() as i128, a.nanoseconds()).cmp(&(b.unix_time() as i128, b.nanoseconds())))) {
        Ok((c, pc, lt, eq, mx, by_instant)) => {
            if c != exp || pc != Some(exp) || lt != (exp == Ordering::Less) || eq != (exp == Ordering::Equal) || !mx || by_instant != exp {
                rec.violation(sweep, case(), json!(format!("{exp:?} by every comparison")), json!(format!("cmp {c:?}, partial_cmp {pc:?}, < {lt}, == {eq}, max ok {mx}, by unix time {by_instant:?}")));
            }
        }
        Err(m) => rec.violation(sweep, case(), json!("no panic"), json!(m)),
    }
}

/// C02: "a later calendar date always gives a strictly larger Unix time" for every PAIR of date-times, also far apart:
/// the derived order of UtcDateTime (cmp, <, ==, max) equals the lexicographic order of the fields and the order of the instants
fn sweep_order_pairs(cyc: &Cycle, rec: &Recorder, thorough: bool) -> Tally {
    let mut years: Vec<i64> = vec![i32::MIN as i64, i32::MIN as i64 + 1, -1, 0, 1, 1969, 1970, 2000, i32::MAX as i64 - 1, i32::MAX as i64];
    for k in 1..31 {
        years.push(1i64 << k);
        years.push(-(1i64 << k));
    }
    for k in 1..10 {
        years.push(10i64.pow(k));
        years.push(-(10i64.pow(k)));
    }
    let steps: i64 = if thorough { 257 } else { 67 };
    for i in 0..=steps {
        years.push(i32::MIN as i64 + ((u32::MAX as i64) * i) / steps);
    }
    years.sort();
    years.dedup();
    let variants: [(u8, u8, u8, u8, u8, u32); 5] = [(1, 1, 0, 0, 0, 0), (12, 31, 23, 59, 59, 999_999_999), (6, 15, 12, 30, 30, 5), (6, 15, 12, 30, 30, 6), (2, 28, 23, 59, 59, 0)];
    let mut items: Vec<(FieldsT, UtcDateTime)> = vec![];
    for &y in &years {
        for &(mo, d, h, mi, se, ns) in &variants {
            match UtcDateTime::new(y as i32, mo, d, h, mi, se, ns) {
                Ok(u) => items.push(((y, mo, d, h, mi, se, ns), u)),
                Err(e) => rec.violation("order_pairs", json!({"kind":"fields","y":y,"mo":mo,"d":d,"h":h,"mi":mi,"s":se,"ns":ns}), json!("Ok"), json!(err_name(&e))),
            }
        }
    }
    let n = items.len();
    let t = (0..n)
        .into_par_iter()
        .map(|i| {
            let mut tl = Tally::default();
            let (fa, a) = &items[i];
            let day_a = cyc.day_of(fa.0, fa.1, fa.2 as i64);
            let ta = day_a as i128 * 86_400 + fa.3 as i128 * 3600 + fa.4 as i128 * 60 + fa.5 as i128;
            for (fb, b) in items.iter() {
                let day_b = cyc.day_of(fb.0, fb.1, fb.2 as i64);
                let tb = day_b as i128 * 86_400 + fb.3 as i128 * 3600 + fb.4 as i128 * 60 + fb.5 as i128;
                let exp = fa.cmp(fb);
                tl.evals += 1;
                if (fa.0 - fb.0).abs() >= 1 << 31 {
                    tl.nontrivial += 1;
                }
                check_order_pair(fa, a, fb, b, rec, "order_pairs");
                // model self check: the lexicographic order of the fields is the order of the true instants
                assert_eq!(exp, (ta, fa.6).cmp(&(tb, fb.6)));
            }
            tl
        })
        .reduce(Tally::default, Tally::merge);
    rec.sub("order_pairs", json!({"date_times": n, "pairs": t.evals, "pairs_2^31_years_or_more_apart": t.nontrivial}));
    Tally { nontrivial: 0, ..t }
}

pub fn run(args: &Args) -> i32 {
    let c02 = args.prop == "C02";
    let rec = Recorder::new(args, "model_checking");
    let cyc = Cycle::build();
    let thorough = args.thorough();
    let mut units = units_for(&cyc, thorough);
    if args.digest_mode {
        // C19 digest mode: reduced deterministic workload
        units.retain(|u| u.secs != SecSet::All || u.name == "all_seconds_1968_1971" || u.n_days <= 3);
        for u in units.iter_mut() {
            if u.name == "around_2000_16_cycles" {
                u.n_days /= 4;
            }
        }
    }
    let mut total = run_units(&cyc, c02, &units, &rec);
    total = total.merge(sweep_all_cycles(&cyc, c02, thorough, &rec));
    if !args.digest_mode {
        total = total.merge(sweep_thresholds(&cyc, c02, thorough, &rec));
    }
    if c02 {
        total = total.merge(sweep_validity(&cyc, &rec, thorough));
        total = total.merge(sweep_years(&cyc, &rec, thorough));
        total = total.merge(sweep_order_pairs(&cyc, &rec, thorough));
    } else {
        total = total.merge(sweep_out_of_range(&cyc, &rec, thorough));
    }
    total = total.merge(sweep_wrap_totals(&cyc, &rec));
    rec.add(total.evals, total.nontrivial);
    rec.add_model(total.states, total.steps, total.evals);
    rec.digest("cal", total.digest);
    rec.set_rule(if c02 {
        "states = calendar days visited by the odometer model; every (day, second) of the listed sweeps goes through UtcDateTime::new/unix_time/from_timespec and the derived Ord of consecutive values; plus all (month 0..13, day 0..32) per year, time-field products, and the year seam. non-trivial = days that are first/last of a month or 28/29 February"
    } else {
        "states = calendar days visited by the odometer model; every (day, second) of the listed sweeps is converted by UtcDateTime::from_timespec and DateTime::from_timespec(utc) and compared field by field (incl. week_day/year_day) with the model; plus range gates. non-trivial = days that are first/last of a month or 28/29 February"
    });
    rec.set_exhaustive(false);
    rec.outcome("Ok");
    rec.outcome("OutOfRange");
    // samples
    for (i, u) in units.iter().enumerate() {
        let day = u.start_day + (args.seed as i64 + i as i64 * 7919) % u.n_days;
        let c = cyc.civil(day);
        rec.sample(json!({"sweep": u.name, "day": day, "model": format!("{:04}-{:02}-{:02} wday={} yday={}", c.year, c.month, c.mday, c.wday, c.yday), "impl": format!("{:?}", UtcDateTime::from_timespec(day.saturating_mul(86400), 0))}));
    }
    rec.finish()
}

pub fn replay(case: &Value, args: &Args) -> i32 {
    let cyc = Cycle::build();
    let rec = Recorder::new(args, "model_checking");
    let c02 = case["c02"].as_bool().unwrap_or(args.prop == "C02");
    match case["kind"].as_str().unwrap_or("") {
        "t" => {
            let day = case["day"].as_i64().unwrap();
            let s = case["sec"].as_i64().unwrap();
            let ns = case["ns"].as_u64().unwrap_or(0) as u32;
            let c = cyc.civil(day);
            for _ in 0..2 {
                let mut prev = None;
                match guard(|| if c02 { check_timegm(&c, s, ns, &mut prev) } else { check_gmtime(&cyc, &c, s, ns, true) }) {
                    Ok(Ok(_)) => {}
                    Ok(Err((e, g))) => rec.violation("replay", case.clone(), e, g),
                    Err(m) => rec.violation("replay", case.clone(), json!("no panic"), json!(m)),
                }
            }
        }
        "chunk" => {
            let s = case["start_day"].as_i64().unwrap();
            let n = case["n_days"].as_i64().unwrap();
            let secs = SecSet::from(case["secs"].as_str().unwrap_or("edge"));
            for d in s..s + n {
                if let Err(m) = guard(|| run_chunk(&cyc, c02, d, 1, secs, &rec, "replay")) {
                    rec.violation("replay", json!({"kind":"chunk","start_day":d,"n_days":1,"secs":secs.name(),"c02":c02}), json!("no panic"), json!(m));
                }
            }
        }
        "total" => {
            let total: i128 = case["total"].as_str().unwrap().parse().unwrap();
            for _ in 0..2 {
                match guard(|| check_total(&cyc, total)) {
                    Ok(Ok(())) => {}
                    Ok(Err((e, g))) => rec.violation("replay", case.clone(), e, g),
                    Err(m) => rec.violation("replay", case.clone(), json!("no panic"), json!(m)),
                }
            }
        }
        "fields" => {
            let g = |k: &str| case[k].as_i64().unwrap_or(0);
            for _ in 0..2 {
                check_new(&cyc, g("y") as i32, g("mo") as u8, g("d") as u8, g("h") as u8, g("mi") as u8, g("s") as u8, g("ns") as u32, &rec, "replay");
            }
        }
        "order" => {
            let f = |v: &Value| -> FieldsT { (v[0].as_i64().unwrap(), v[1].as_u64().unwrap() as u8, v[2].as_u64().unwrap() as u8, v[3].as_u64().unwrap() as u8, v[4].as_u64().unwrap() as u8, v[5].as_u64().unwrap() as u8, v[6].as_u64().unwrap() as u32) };
            let (fa, fb) = (f(&case["a"]), f(&case["b"]));
            let mk = |f: &FieldsT| UtcDateTime::new(f.0 as i32, f.1, f.2, f.3, f.4, f.5, f.6).expect("recorded date-times were constructible");
            for _ in 0..2 {
                check_order_pair(&fa, &mk(&fa), &fb, &mk(&fb), &rec, "replay");
            }
        }
        "years" => {
            let mut a = args.clone();
            a.tier = Tier::Quick;
            sweep_years(&cyc, &rec, false);
        }
        _ => {
            eprintln!("unknown case kind");
            return 2;
        }
    }
    let n = rec.viol_count.load(std::sync::atomic::Ordering::Relaxed);
    if n > 0 {
        println!("REPLAY: violation reproduced ({} observations)", n);
        1
    } else {
        println!("REPLAY: case passes");
        0
    }
}
