//! Engine `resolve`: C20 TZ value resolution (tzset-like) vs a protocol model, over all virtual file systems.

use crate::common::*;
use crate::tzstr::footer_file;
use rayon::prelude::*;
use refmodel::tzstr::{recognise, trim_ascii_ws, Tz};
use serde_json::{json, Value};
use std::cell::RefCell;
use std::collections::BTreeMap;
use tz::timezone::{AlternateTime, LocalTimeType, TransitionRule};
use tz::{TimeZone, TimeZoneSettings};

#[derive(Clone, Copy, PartialEq, Eq, Debug, PartialOrd, Ord)]
pub enum FileState {
    Unreadable,
    ValidA,
    ValidB,
    InvalidNoMagic,
    InvalidWithMagic,
    EmptyFile,
    /// well-formed container whose transitions are not in ascending order (refused by the zone constructor)
    SemanticTransitions,
    /// well-formed container whose footer is not a TZ string
    SemanticFooter,
    /// well-formed container with a one-letter designation (refused by the local time type constructor)
    SemanticType,
    /// the reader fails with std::io::Error of kind PermissionDenied (any failure to read means "try the next candidate")
    UnreadablePermission,
    /// the reader fails with std::io::Error of kind NotFound
    UnreadableNotFound,
    /// the first request fails with std::io::Error of kind Interrupted, a second request for the same path would succeed
    /// (no request is ever repeated: a failure means "try the next candidate")
    InterruptedOnce,
    /// well-formed TZif container whose version octet is not one the decoder supports ('5')
    UnsupportedVersion,
    /// well-formed version-1 file followed by extra octets
    TrailingData,
    /// the reader fails with an error that is the crate's OWN error type (a reader that validates what it read with
    /// `TimeZone::from_tz_data(..)?`): still a failure to read, i.e. an I/O error, not a decoding error
    UnreadableOwnError,
}
const STATES: [FileState; 15] = [
    FileState::UnreadableOwnError,
    FileState::InterruptedOnce,
    FileState::UnreadablePermission,
    FileState::UnreadableNotFound,
    FileState::Unreadable,
    FileState::ValidA,
    FileState::ValidB,
    FileState::InvalidNoMagic,
    FileState::InvalidWithMagic,
    FileState::EmptyFile,
    FileState::SemanticTransitions,
    FileState::SemanticFooter,
    FileState::SemanticType,
    FileState::UnsupportedVersion,
    FileState::TrailingData,
];

fn semantic_file(which: FileState) -> Vec<u8> {
    use refmodel::tzif::{file, Block};
    let mut b = Block { trans: vec![], types: vec![(0, 0, 0), (3600, 1, 4)], chars: b"UTC\0CEST\0".to_vec(), leaps: vec![], isstd: vec![], isut: vec![] };
    let mut footer: &[u8] = b"";
    match which {
        FileState::SemanticTransitions => b.trans = vec![(1000, 1), (500, 0)],
        FileState::SemanticFooter => footer = b"not a tz string",
        _ => b.chars = b"U\0\0\0CEST\0".to_vec(),
    }
    file(b'2', &b, Some(&b), Some(footer))
}

fn file_a() -> Vec<u8> {
    footer_file(b'2', b"<+01>-1")
}
fn file_b() -> Vec<u8> {
    footer_file(b'3', b"<-02>2")
}
fn bytes_of(s: FileState) -> Option<Vec<u8>> {
    match s {
        FileState::Unreadable | FileState::UnreadablePermission | FileState::UnreadableNotFound | FileState::UnreadableOwnError | FileState::InterruptedOnce => None,
        FileState::ValidA => Some(file_a()),
        FileState::ValidB => Some(file_b()),
        FileState::InvalidNoMagic => Some(b"# zone.tab style text, not a TZif file\n".to_vec()),
        FileState::InvalidWithMagic => Some(b"TZif2\0\0\0truncated".to_vec()),
        FileState::EmptyFile => Some(vec![]),
        FileState::SemanticTransitions | FileState::SemanticFooter | FileState::SemanticType => Some(semantic_file(s)),
        FileState::UnsupportedVersion => Some(footer_file(b'5', b"<+01>-1")),
        FileState::TrailingData => {
            use refmodel::tzif::{file, Block};
            let b = Block { trans: vec![], types: vec![(3600, 0, 0)], chars: b"CET\0".to_vec(), leaps: vec![], isstd: vec![], isut: vec![] };
            let mut f = file(0, &b, None, None);
            f.extend_from_slice(b"\nCET-1\n");
            Some(f)
        }
    }
}

thread_local! {
    static VFS: RefCell<BTreeMap<String, FileState>> = const { RefCell::new(BTreeMap::new()) };
    static LOG: RefCell<Vec<String>> = const { RefCell::new(Vec::new()) };
    static SEEN: RefCell<std::collections::BTreeSet<String>> = const { RefCell::new(std::collections::BTreeSet::new()) };
}

fn vfs_reader(path: &str) -> Result<Vec<u8>, Box<dyn std::error::Error + Send + Sync + 'static>> {
    LOG.with(|l| l.borrow_mut().push(path.to_string()));
    // a path the model does not name is readable and holds zone B: opening it would also change the outcome
    let st = VFS.with(|v| v.borrow().get(path).copied()).unwrap_or(FileState::ValidB);
    if st == FileState::InterruptedOnce {
        let again = SEEN.with(|s| !s.borrow_mut().insert(path.to_string()));
        return if again { Ok(file_a()) } else { Err(Box::new(std::io::Error::from(std::io::ErrorKind::Interrupted))) };
    }
    match bytes_of(st) {
        Some(b) => Ok(b),
        None => match st {
            FileState::UnreadablePermission => Err(Box::new(std::io::Error::from(std::io::ErrorKind::PermissionDenied))),
            FileState::UnreadableNotFound => Err(Box::new(std::io::Error::from(std::io::ErrorKind::NotFound))),
            FileState::UnreadableOwnError => match TimeZone::from_tz_data(b"not a TZif file") {
                Err(e) => Err(Box::new(e)),
                Ok(_) => Err("unexpectedly decoded".into()),
            },
            _ => Err("virtual file system: no such file".into()),
        },
    }
}

#[derive(Clone, Debug, PartialEq)]
pub enum Outcome {
    Empty,
    Io,
    DecodeError,
    StringError,
    Zone(Box<TimeZone>),
}

fn outcome_name(o: &Outcome) -> String {
    match o {
        Outcome::Zone(z) => format!("Zone(rule={:?}, types={:?})", TimeZone::as_ref(z).extra_rule(), TimeZone::as_ref(z).local_time_types()),
        x => format!("{x:?}"),
    }
}

fn zone_of_file(st: FileState) -> Outcome {
    match st {
        FileState::ValidA => Outcome::Zone(Box::new(TimeZone::from_tz_data(&file_a()).unwrap())),
        FileState::ValidB => Outcome::Zone(Box::new(TimeZone::from_tz_data(&file_b()).unwrap())),
        FileState::Unreadable | FileState::UnreadablePermission | FileState::UnreadableNotFound | FileState::UnreadableOwnError | FileState::InterruptedOnce => Outcome::Io,
        // the outcome class follows the component that refuses the file's content (see `classify`)
        FileState::SemanticFooter | FileState::SemanticType => Outcome::StringError,
        _ => Outcome::DecodeError,
    }
}

fn posix_zone(s: &[u8]) -> Outcome {
    let (tz, _) = recognise(trim_ascii_ws(s), false);
    let rule = match tz {
        Tz::Reject => return Outcome::StringError,
        Tz::Fixed { name, utoff } => match LocalTimeType::new(utoff as i32, false, Some(&name)) {
            Ok(l) => TransitionRule::Fixed(l),
            Err(_) => return Outcome::StringError,
        },
        Tz::Alt { std_name, std_utoff, dst_name, dst_utoff, start, start_time, end, end_time } => {
            let s = LocalTimeType::new(std_utoff as i32, false, Some(&std_name));
            let d = LocalTimeType::new(dst_utoff as i32, true, Some(&dst_name));
            match (s, d) {
                (Ok(s), Ok(d)) => match AlternateTime::new(s, d, crate::conv::rule_day(start), start_time as i32, crate::conv::rule_day(end), end_time as i32) {
                    Ok(a) => TransitionRule::Alternate(a),
                    Err(_) => return Outcome::StringError,
                },
                _ => return Outcome::StringError,
            }
        }
    };
    let types = match &rule {
        TransitionRule::Fixed(l) => vec![*l],
        TransitionRule::Alternate(a) => vec![*a.std(), *a.dst()],
    };
    Outcome::Zone(Box::new(TimeZone::new(vec![], types, vec![], Some(rule)).unwrap()))
}

fn unreadable(st: FileState) -> bool {
    matches!(st, FileState::Unreadable | FileState::UnreadablePermission | FileState::UnreadableNotFound | FileState::UnreadableOwnError | FileState::InterruptedOnce)
}

/// The protocol model: ordered list of paths opened + outcome
pub fn model(value: &str, dirs: &[&str], vfs: &BTreeMap<String, FileState>) -> (Vec<String>, Outcome) {
    // a path in state InterruptedOnce fails on its first request and holds zone A on any later one (a repeated directory
    // legitimately requests the same path twice)
    let seen: RefCell<std::collections::BTreeSet<String>> = RefCell::new(Default::default());
    let state = |p: &str| {
        let st = vfs.get(p).copied().unwrap_or(FileState::ValidB);
        if st == FileState::InterruptedOnce && !seen.borrow_mut().insert(p.to_string()) {
            FileState::ValidA
        } else {
            st
        }
    };
    if value.is_empty() {
        return (vec![], Outcome::Empty);
    }
    if value == "localtime" {
        let p = "/etc/localtime";
        return (vec![p.to_string()], zone_of_file(state(p)));
    }
    // file lookup: absolute path as is, relative name under each directory in order, first readable wins
    let lookup = |name: &str| -> (Vec<String>, Option<FileState>) {
        if name.starts_with('/') {
            let st = state(name);
            (vec![name.to_string()], if unreadable(st) { None } else { Some(st) })
        } else {
            let mut opened = vec![];
            for d in dirs {
                let p = format!("{d}/{name}");
                let st = state(&p);
                opened.push(p);
                if !unreadable(st) {
                    return (opened, Some(st));
                }
            }
            (opened, None)
        }
    };
    if let Some(rest) = value.strip_prefix(':') {
        let (opened, hit) = lookup(rest);
        return (opened, match hit {
            Some(st) => zone_of_file(st),
            None => Outcome::Io,
        });
    }
    let (opened, hit) = lookup(value);
    match hit {
        Some(st) => (opened, zone_of_file(st)),
        None => (opened, posix_zone(value.as_bytes())),
    }
}

/// candidate paths the model can name for a value (used to enumerate virtual file systems)
fn candidates(value: &str, dirs: &[&str]) -> Vec<String> {
    let empty = BTreeMap::new();
    // with every file unreadable the model walks through all candidates
    let mut all_unreadable = BTreeMap::new();
    let (first, _) = model(value, dirs, &empty);
    for p in first {
        all_unreadable.insert(p, FileState::Unreadable);
    }
    loop {
        let (opened, _) = model(value, dirs, &all_unreadable);
        let mut grew = false;
        for p in opened {
            if !all_unreadable.contains_key(&p) {
                all_unreadable.insert(p, FileState::Unreadable);
                grew = true;
            }
        }
        if !grew {
            break;
        }
    }
    all_unreadable.keys().cloned().collect()
}

fn classify(r: Result<TimeZone, tz::Error>) -> Outcome {
    match r {
        Ok(z) => Outcome::Zone(Box::new(z)),
        Err(tz::Error::Io(_)) => Outcome::Io,
        Err(tz::Error::Tz(tz::TzError::TzString(tz::error::parse::TzStringError::Empty))) => Outcome::Empty,
        Err(tz::Error::Tz(tz::TzError::TzFile(_))) => Outcome::DecodeError,
        Err(tz::Error::Tz(tz::TzError::TzString(_))) => Outcome::StringError,
        // constructor-level refusals of a decoded string / file (local time type, rule)
        Err(tz::Error::Tz(tz::TzError::LocalTimeType(_))) | Err(tz::Error::Tz(tz::TzError::TransitionRule(_))) => Outcome::StringError,
        Err(_) => Outcome::DecodeError,
    }
}

#[derive(Default, Clone, Copy)]
struct Tally {
    evals: u64,
    nontrivial: u64,
    opens: u64,
    digest: u64,
}
impl Tally {
    fn merge(mut self, o: Tally) -> Tally {
        self.evals += o.evals;
        self.nontrivial += o.nontrivial;
        self.opens += o.opens;
        self.digest = self.digest.wrapping_add(o.digest);
        self
    }
}

fn check_config(value: &str, dirs: &[&str], vfs: &BTreeMap<String, FileState>, local: bool, rec: &Recorder, tl: &mut Tally) {
    tl.evals += 1;
    let (exp_paths, exp_out) = model(value, dirs, vfs);
    VFS.with(|v| *v.borrow_mut() = vfs.clone());
    LOG.with(|l| l.borrow_mut().clear());
    SEEN.with(|s| s.borrow_mut().clear());
    let settings = TimeZoneSettings::new(dirs, vfs_reader);
    let got = guard(|| if local { settings.parse_local() } else { settings.parse_posix_tz(value) });
    let log: Vec<String> = LOG.with(|l| l.borrow().clone());
    let case = || json!({"kind":"resolve","value":value,"dirs":dirs,"vfs":vfs.iter().map(|(k,v)| (k.clone(), json!(format!("{v:?}")))).collect::<serde_json::Map<_,_>>(),"parse_local":local});
    let got = match got {
        Ok(g) => classify(g),
        Err(m) => {
            rec.violation("configurations", case(), json!("no panic"), json!(m));
            return;
        }
    };
    tl.opens += log.len() as u64;
    if exp_paths.len() >= 2 || !matches!(exp_out, Outcome::Zone(_)) {
        tl.nontrivial += 1;
    }
    rec.outcome(match &exp_out {
        Outcome::Zone(_) => "Zone",
        Outcome::Empty => "Empty",
        Outcome::Io => "Io",
        Outcome::DecodeError => "DecodeError",
        Outcome::StringError => "StringError",
    });
    tl.digest = tl.digest.wrapping_add(log.iter().fold(7u64, |a, p| p.bytes().fold(a, |x, b| x.wrapping_mul(131).wrapping_add(b as u64))));
    if log != exp_paths || got != exp_out {
        rec.violation("configurations", case(), json!({"paths_opened": exp_paths, "outcome": outcome_name(&exp_out)}), json!({"paths_opened": log, "outcome": outcome_name(&got)}));
    }
}

/// one `TimeZoneSettings` value used for several lookups in a row: every sequence of up to three values over names that exist in
/// the first, the second or both directories (with different contents), under every assignment of {unreadable, zone A, zone B}
/// to the six candidate paths; each call must open the paths and give the outcome the protocol model gives for that call alone
fn sweep_sequences(rec: &Recorder) -> Tally {
    let dirs: [&str; 2] = ["/first", "/second"];
    let names = ["One", "Two", "Three"];
    let values = ["One", "Two", "Three", ":Two", "/second/Two", "UTC0"];
    let paths: Vec<String> = dirs.iter().flat_map(|d| names.iter().map(move |n| format!("{d}/{n}"))).collect();
    let st = [FileState::Unreadable, FileState::ValidA, FileState::ValidB];
    let mut seqs: Vec<Vec<usize>> = vec![];
    for a in 0..values.len() {
        for b in 0..values.len() {
            seqs.push(vec![a, b]);
            for c in 0..values.len() {
                seqs.push(vec![a, b, c]);
            }
        }
    }
    let t = (0..3usize.pow(paths.len() as u32))
        .into_par_iter()
        .map(|code| {
            let mut tl = Tally::default();
            let mut vfs = BTreeMap::new();
            let mut c = code;
            for p in &paths {
                vfs.insert(p.clone(), st[c % 3]);
                c /= 3;
            }
            // a value spelled like a TZ string names files too: they do not exist
            for d in dirs {
                vfs.insert(format!("{d}/UTC0"), FileState::Unreadable);
            }
            for seq in &seqs {
                tl.evals += 1;
                tl.nontrivial += 1;
                VFS.with(|v| *v.borrow_mut() = vfs.clone());
                let settings = TimeZoneSettings::new(&dirs, vfs_reader);
                for (pos, &vi) in seq.iter().enumerate() {
                    let value = values[vi];
                    let (exp_paths, exp_out) = model(value, &dirs, &vfs);
                    LOG.with(|l| l.borrow_mut().clear());
                    SEEN.with(|s| s.borrow_mut().clear());
                    let case = || json!({"kind":"resolve_sequence","values":seq.iter().map(|&i| values[i]).collect::<Vec<_>>(),"failing_position":pos,"dirs":dirs,"vfs":vfs.iter().map(|(k,v)| (k.clone(), json!(format!("{v:?}")))).collect::<serde_json::Map<_,_>>()});
                    let got = match guard(|| settings.parse_posix_tz(value)) {
                        Ok(g) => classify(g),
                        Err(m) => {
                            rec.violation("sequences", case(), json!("no panic"), json!(m));
                            break;
                        }
                    };
                    let log: Vec<String> = LOG.with(|l| l.borrow().clone());
                    tl.opens += log.len() as u64;
                    if log != exp_paths || got != exp_out {
                        rec.violation("sequences", case(), json!({"paths_opened": exp_paths, "outcome": outcome_name(&exp_out)}), json!({"paths_opened": log, "outcome": outcome_name(&got)}));
                        break;
                    }
                }
            }
            tl
        })
        .reduce(Tally::default, Tally::merge);
    rec.sub("sequences", json!({"file_systems": 3usize.pow(paths.len() as u32), "sequences_per_file_system": seqs.len(), "sequences": t.evals, "file_open_requests_compared": t.opens}));
    t
}

fn long_values() -> &'static Vec<String> {
    static L: std::sync::OnceLock<Vec<String>> = std::sync::OnceLock::new();
    L.get_or_init(|| {
        let mut v = vec![];
        for n in [255usize, 256, 1023, 4088, 4090, 4092, 4096, 5000, 70000] {
            v.push("Z".repeat(n));
            v.push(format!(":{}", "y".repeat(n)));
        }
        v.push(format!("/{}", "a/".repeat(3000)));
        v
    })
}

pub fn values() -> Vec<&'static str> {
    let mut v = base_values();
    v.extend(long_values().iter().map(|s| s.as_str()));
    v
}

fn base_values() -> Vec<&'static str> {
    vec![
        "", "localtime", ":", ":UTC", ":/abs/f", "/abs/f", "UTC", "UTC0", " UTC0 ", "\tUTC0\n", "EST5EDT", "EST5EDT,M3.2.0,M11.1.0", "rel/f", "localtime ", ":localtime", " :UTC", "::UTC", "bad string", " localtime", "localtime\n", ": UTC", "/", ":/", "<+03>-3", " ", "\n", "EST5 ", ":EST5", "Europe/Paris", "../etc/passwd", ":/etc/localtime", "/etc/localtime",
        // a NUL byte is an ordinary character of a name (the reader decides what it can open)
        "UTC\0", ":UTC\0", "UTC0\0", "\0", ":\0", "Europe\0/Paris", "/abs\0/f",
        // absolute values that lie inside a configured directory (read as they are: no other directory is consulted)
        "/d1/f", ":/d1/f", "/d2/UTC0", ":/d2/Europe/Paris", "/usr/share/zoneinfo/UTC", ":/d1/", "/d1",
        // white space inside the value (only leading and trailing white space is insignificant)
        "UTC0 junk", "UTC0\nEST5", "EST5EDT,M3.2.0,M11.1.0\t/etc/passwd", "UTC 0", "a b", "\tUTC0 x\n", "EST5", ":UTC0 junk",
    ]
}

pub fn dir_lists(thorough: bool) -> Vec<Vec<&'static str>> {
    let all: Vec<&'static str> = if thorough { vec!["/d1", "/d2", "/d3", ""] } else { vec!["/d1", "/d2", "/d3"] };
    // every ordered sub-list (no repetition) + a list with a repeated directory
    let mut out: Vec<Vec<&'static str>> = vec![vec![]];
    fn rec_build(all: &[&'static str], cur: &mut Vec<&'static str>, out: &mut Vec<Vec<&'static str>>) {
        for &d in all {
            if !cur.contains(&d) {
                cur.push(d);
                out.push(cur.clone());
                rec_build(all, cur, out);
                cur.pop();
            }
        }
    }
    rec_build(&all, &mut vec![], &mut out);
    out.push(vec!["/d1", "/d1"]);
    // directory strings of other shapes: empty, root, trailing slash, doubled slash, relative (the candidate is always
    // "<dir>/<name>", nothing is normalised)
    for l in [vec![""], vec!["/"], vec!["/d1/"], vec!["/d1/", "/d2"], vec!["rel"], vec!["", "/d1"], vec!["/d1//", "/d1"], vec!["/d2", "/"]] {
        out.push(l);
    }
    out.push(vec!["/usr/share/zoneinfo", "/share/zoneinfo", "/etc/zoneinfo"]);
    out
}

/// child mode `resolve-long`: directory lists far longer than any real one (recursion over the list shows as a stack
/// overflow, which aborts the process): every candidate is requested once, in order; exit 0 = as the protocol says
pub fn run_long(_args: &Args) -> i32 {
    let ok = std::thread::Builder::new()
        .stack_size(2 << 20)
        .spawn(|| {
            let mut ok = true;
            for n in [1_000usize, 20_000, 100_000] {
                let owned: Vec<String> = (0..n).map(|i| format!("/dir{i:06}")).collect();
                let dirs: Vec<&str> = owned.iter().map(|s| s.as_str()).collect();
                for (value, name, want_zone) in [(":Europe/Paris", "Europe/Paris", false), ("UTC0", "UTC0", true)] {
                    VFS.with(|v| v.borrow_mut().clear());
                    LOG.with(|l| l.borrow_mut().clear());
                    // every unnamed path is unreadable in this mode
                    let reader = |p: &str| -> Result<Vec<u8>, Box<dyn std::error::Error + Send + Sync + 'static>> {
                        LOG.with(|l| l.borrow_mut().push(p.to_string()));
                        Err(Box::new(std::io::Error::from(std::io::ErrorKind::NotFound)))
                    };
                    let settings = TimeZoneSettings::new(&dirs, reader);
                    let got = classify(settings.parse_posix_tz(value));
                    let log: Vec<String> = LOG.with(|l| l.borrow().clone());
                    let paths_ok = log.len() == n && log.iter().zip(owned.iter()).all(|(a, d)| *a == format!("{d}/{name}"));
                    let out_ok = if want_zone { matches!(got, Outcome::Zone(_)) } else { matches!(got, Outcome::Io) };
                    if !(paths_ok && out_ok) {
                        println!("LONG-DIRS mismatch: n={n} value={value} requests={} outcome={}", log.len(), outcome_name(&got));
                        ok = false;
                    }
                }
            }
            ok
        })
        .expect("spawn")
        .join()
        .unwrap_or(false);
    if ok {
        0
    } else {
        1
    }
}

pub fn run(args: &Args) -> i32 {
    let rec = Recorder::new(args, "model_checking");
    let thorough = args.thorough();
    let vals = values();
    let dls = dir_lists(thorough);
    let mut work: Vec<(usize, usize)> = vec![];
    for v in 0..vals.len() {
        for d in 0..dls.len() {
            work.push((v, d));
        }
    }
    let total = work
        .par_iter()
        .map(|&(vi, di)| {
            let mut tl = Tally::default();
            let value = vals[vi];
            let dirs: Vec<&str> = dls[di].clone();
            let mut cands = candidates(value, &dirs);
            // paths that must never be opened but exist in the file system (their content would change the outcome)
            for extra in ["/etc/localtime", "UTC", "UTC0", "/d1/localtime", "/d1/UTC0"] {
                if !cands.iter().any(|c| c == extra) && cands.len() < 4 {
                    cands.push(extra.to_string());
                    break;
                }
            }
            let n = cands.len().min(if args.digest_mode { 3 } else { 4 });
            let cands = &cands[..n];
            // quick tier, four paths: the first path takes every state, the others the eleven states that differ in kind (one
            // representative per kind of reader failure / decoder refusal); thorough: the full product
            let base_of = |k: usize| if n >= 4 && k > 0 && !thorough { 11 } else { STATES.len() };
            let total: usize = (0..n).map(base_of).product();
            const REDUCED: [usize; 11] = [0, 1, 3, 4, 5, 6, 7, 8, 9, 10, 12];
            for code in 0..total {
                let mut c = code;
                let mut vfs = BTreeMap::new();
                for (k, p) in cands.iter().enumerate() {
                    let b = base_of(k);
                    vfs.insert(p.clone(), if b == STATES.len() { STATES[c % b] } else { STATES[REDUCED[c % b]] });
                    c /= b;
                }
                check_config(value, &dirs, &vfs, false, &rec, &mut tl);
                if value == "localtime" {
                    // parse_local == parse_posix_tz("localtime")
                    check_config(value, &dirs, &vfs, true, &rec, &mut tl);
                }
            }
            tl
        })
        .reduce(Tally::default, Tally::merge);
    let total = total.merge(sweep_sequences(&rec));
    // directory lists of up to 100 000 entries in a child process (a stack overflow aborts the process)
    if !args.digest_mode {
        let exe = std::env::current_exe().expect("exe");
        let out = std::process::Command::new(&exe).arg("resolve-long").output();
        let (ok, status, text) = match out {
            Ok(o) => (o.status.success(), format!("{:?}", o.status), format!("{}{}", String::from_utf8_lossy(&o.stdout), String::from_utf8_lossy(&o.stderr))),
            Err(e) => (false, format!("spawn failed: {e}"), String::new()),
        };
        rec.sub("long_directory_lists", json!({"lengths": [1000, 20000, 100000], "values": [":Europe/Paris", "UTC0"], "child_status": status}));
        if !ok {
            rec.violation("long_directory_lists", json!({"kind":"long_dirs"}), json!("every candidate requested once, in order; Io error / POSIX zone; no abort"), json!({"status": status, "output": text.chars().take(600).collect::<String>()}));
        }
    }
    rec.sub("configurations", json!({"tz_values": vals.len(), "directory_lists": dls.len(), "configurations": total.evals, "file_open_requests_compared": total.opens}));
    rec.add(total.evals, total.nontrivial);
    rec.add_model(total.evals, total.opens + total.evals, total.evals);
    rec.digest("resolve", total.digest);
    rec.set_rule("complete product: TZ values x ordered directory lists x every assignment of {unreadable (opaque error, io::Error PermissionDenied, io::Error NotFound, io::Error Interrupted once then readable), valid A, valid B, invalid without magic, invalid with magic, empty, well-formed container with unsorted transitions / bad footer / bad designation, unsupported version octet, version-1 file with trailing octets} to the candidate paths the model names plus one path that must never be opened; the logged sequence of read requests and the outcome class (incl. the decoded zone) must equal the protocol model's. plus every sequence of 2 or 3 lookups through ONE settings value over 6 values x 729 file systems (each call judged as if made alone). states = configurations, transitions = file-open requests. non-trivial = configurations with >= 2 opens or a non-zone outcome");
    rec.set_exhaustive(true);
    let v = vals[(args.seed as usize * 5 + 6) % vals.len()];
    let d = &dls[(args.seed as usize + 3) % dls.len()];
    let (p, o) = model(v, d, &BTreeMap::new());
    rec.sample(json!({"value": v, "dirs": d, "vfs": "every unnamed path readable (zone B)", "model_paths": p, "model_outcome": outcome_name(&o)}));
    rec.finish()
}

pub fn replay(case: &Value, args: &Args) -> i32 {
    let rec = Recorder::new(args, "model_checking");
    if case["kind"] == "long_dirs" {
        let exe = std::env::current_exe().expect("exe");
        let ok = std::process::Command::new(&exe).arg("resolve-long").status().map(|s| s.success()).unwrap_or(false);
        println!("{}", if ok { "REPLAY: case passes" } else { "REPLAY: violation reproduced" });
        return if ok { 0 } else { 1 };
    }
    if case["kind"] == "resolve_sequence" {
        let dirs_owned: Vec<String> = case["dirs"].as_array().unwrap().iter().map(|x| x.as_str().unwrap().to_string()).collect();
        let dirs: Vec<&str> = dirs_owned.iter().map(|s| s.as_str()).collect();
        let mut vfs = BTreeMap::new();
        for (k, v) in case["vfs"].as_object().unwrap() {
            let st = STATES.iter().find(|s| format!("{s:?}") == v.as_str().unwrap()).copied().unwrap();
            vfs.insert(k.clone(), st);
        }
        let values: Vec<String> = case["values"].as_array().unwrap().iter().map(|x| x.as_str().unwrap().to_string()).collect();
        let mut bad = false;
        for _ in 0..2 {
            VFS.with(|v| *v.borrow_mut() = vfs.clone());
            let settings = TimeZoneSettings::new(&dirs, vfs_reader);
            for value in &values {
                let (exp_paths, exp_out) = model(value, &dirs, &vfs);
                LOG.with(|l| l.borrow_mut().clear());
                SEEN.with(|s| s.borrow_mut().clear());
                let got = guard(|| settings.parse_posix_tz(value)).map(classify);
                let log: Vec<String> = LOG.with(|l| l.borrow().clone());
                println!("{value:?}: opened {log:?} (model {exp_paths:?}), outcome {:?} (model {})", got.as_ref().map(outcome_name), outcome_name(&exp_out));
                if log != exp_paths || got.as_ref().ok() != Some(&exp_out) {
                    bad = true;
                }
            }
        }
        println!("{}", if bad { "REPLAY: violation reproduced" } else { "REPLAY: case passes" });
        return bad as i32;
    }
    if case["kind"] != "resolve" {
        return 2;
    }
    let value = case["value"].as_str().unwrap().to_string();
    let dirs_owned: Vec<String> = case["dirs"].as_array().unwrap().iter().map(|x| x.as_str().unwrap().to_string()).collect();
    let dirs: Vec<&str> = dirs_owned.iter().map(|s| s.as_str()).collect();
    let mut vfs = BTreeMap::new();
    for (k, v) in case["vfs"].as_object().unwrap() {
        let st = STATES.iter().find(|s| format!("{s:?}") == v.as_str().unwrap()).copied().unwrap();
        vfs.insert(k.clone(), st);
    }
    let mut tl = Tally::default();
    for _ in 0..2 {
        check_config(&value, &dirs, &vfs, case["parse_local"].as_bool().unwrap_or(false), &rec, &mut tl);
    }
    if rec.viol_count.load(std::sync::atomic::Ordering::Relaxed) > 0 {
        println!("REPLAY: violation reproduced");
        1
    } else {
        println!("REPLAY: case passes");
        0
    }
}
