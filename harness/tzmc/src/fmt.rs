//! Engine `fmt`: C18 text rendering, checked with an independent strict reader.

use crate::common::*;
use core::fmt::Write;
use rayon::prelude::*;
use serde_json::{json, Value};
use tz::{DateTime, LocalTimeType, UtcDateTime};

/// stack buffer so that the engine needs no allocator for rendering (C19)
pub struct Buf {
    b: [u8; 96],
    n: usize,
}
impl Buf {
    pub fn new() -> Buf {
        Buf { b: [0; 96], n: 0 }
    }
    pub fn as_bytes(&self) -> &[u8] {
        &self.b[..self.n]
    }
}
impl Write for Buf {
    fn write_str(&mut self, s: &str) -> core::fmt::Result {
        let bytes = s.as_bytes();
        if self.n + bytes.len() > self.b.len() {
            return Err(core::fmt::Error);
        }
        self.b[self.n..self.n + bytes.len()].copy_from_slice(bytes);
        self.n += bytes.len();
        Ok(())
    }
}

#[derive(Debug, PartialEq, Clone, Copy)]
pub struct Parsed {
    year: i64,
    month: u32,
    day: u32,
    hour: u32,
    minute: u32,
    second: u32,
    ns: u32,
    offset: i64,
    zulu: bool,
    has_offset_seconds: bool,
}

fn digits(b: &[u8], i: &mut usize, min: usize, max: usize) -> Option<(u64, usize)> {
    let st = *i;
    let mut v: u64 = 0;
    while *i < b.len() && b[*i].is_ascii_digit() && *i - st < max {
        v = v.checked_mul(10)?.checked_add((b[*i] - b'0') as u64)?;
        *i += 1;
    }
    let n = *i - st;
    if n < min {
        None
    } else {
        Some((v, n))
    }
}
fn lit(b: &[u8], i: &mut usize, c: u8) -> Option<()> {
    if *i < b.len() && b[*i] == c {
        *i += 1;
        Some(())
    } else {
        None
    }
}

/// strict reader of the documented format; None = not in the format
pub fn read_iso(b: &[u8]) -> Option<Parsed> {
    let mut i = 0;
    let neg = lit(b, &mut i, b'-').is_some();
    let st = i;
    let (y, ny) = digits(b, &mut i, 1, 12)?;
    // plain decimal: no leading zeros, no "-0"
    if ny > 1 && b[st] == b'0' {
        return None;
    }
    if neg && y == 0 {
        return None;
    }
    let year = if neg { -(y as i64) } else { y as i64 };
    lit(b, &mut i, b'-')?;
    let (month, _) = digits(b, &mut i, 2, 2)?;
    lit(b, &mut i, b'-')?;
    let (day, _) = digits(b, &mut i, 2, 2)?;
    lit(b, &mut i, b'T')?;
    let (hour, _) = digits(b, &mut i, 2, 2)?;
    lit(b, &mut i, b':')?;
    let (minute, _) = digits(b, &mut i, 2, 2)?;
    lit(b, &mut i, b':')?;
    let (second, _) = digits(b, &mut i, 2, 2)?;
    lit(b, &mut i, b'.')?;
    let (ns, _) = digits(b, &mut i, 9, 9)?;
    let mut p = Parsed { year, month: month as u32, day: day as u32, hour: hour as u32, minute: minute as u32, second: second as u32, ns: ns as u32, offset: 0, zulu: false, has_offset_seconds: false };
    if lit(b, &mut i, b'Z').is_some() {
        p.zulu = true;
    } else {
        let sign = if lit(b, &mut i, b'+').is_some() {
            1
        } else if lit(b, &mut i, b'-').is_some() {
            -1
        } else {
            return None;
        };
        let hst = i;
        let (oh, nh) = digits(b, &mut i, 2, 12)?;
        // at least two hour digits, and no padding beyond two
        if nh > 2 && b[hst] == b'0' {
            return None;
        }
        lit(b, &mut i, b':')?;
        let (om, _) = digits(b, &mut i, 2, 2)?;
        let mut os = 0;
        if i < b.len() {
            lit(b, &mut i, b':')?;
            os = digits(b, &mut i, 2, 2)?.0;
            p.has_offset_seconds = true;
        }
        if om > 59 || os > 59 {
            return None;
        }
        p.offset = sign * (oh as i64 * 3600 + om as i64 * 60 + os as i64);
    }
    if i != b.len() {
        return None;
    }
    Some(p)
}

/// compare a rendering with the value it came from
fn judge(text: &[u8], year: i32, month: u8, day: u8, hour: u8, minute: u8, second: u8, ns: u32, offset: i32) -> Result<(), (Value, Value)> {
    let got = String::from_utf8_lossy(text).to_string();
    let p = match read_iso(text) {
        Some(p) => p,
        None => return Err((json!("text in the documented format"), json!(got))),
    };
    let ok = p.year == year as i64
        && p.month == month as u32
        && p.day == day as u32
        && p.hour == hour as u32
        && p.minute == minute as u32
        && p.second == second as u32
        && p.ns == ns
        && p.offset == offset as i64
        && p.zulu == (offset == 0)
        && (p.zulu || p.has_offset_seconds == (offset % 60 != 0));
    if ok {
        Ok(())
    } else {
        Err((json!({"year":year,"month":month,"day":day,"hour":hour,"minute":minute,"second":second,"ns":ns,"offset":offset}), json!({"text": got, "read_back": format!("{p:?}")})))
    }
}

fn check_dt(d: &DateTime) -> Result<u64, (Value, Value)> {
    let mut b = Buf::new();
    if write!(b, "{d}").is_err() {
        return Err((json!("rendering fits 96 bytes"), json!("fmt error")));
    }
    judge(b.as_bytes(), d.year(), d.month(), d.month_day(), d.hour(), d.minute(), d.second(), d.nanoseconds(), d.local_time_type().ut_offset())?;
    let mut f = Fnv::default();
    f.bytes(b.as_bytes());
    Ok(f.0)
}

fn check_utc(u: &UtcDateTime) -> Result<u64, (Value, Value)> {
    let mut b = Buf::new();
    if write!(b, "{u}").is_err() {
        return Err((json!("rendering fits 96 bytes"), json!("fmt error")));
    }
    judge(b.as_bytes(), u.year(), u.month(), u.month_day(), u.hour(), u.minute(), u.second(), u.nanoseconds(), 0)?;
    let mut f = Fnv::default();
    f.bytes(b.as_bytes());
    Ok(f.0)
}

#[derive(Default, Clone, Copy)]
struct Tally {
    evals: u64,
    nontrivial: u64,
    digest: u64,
}
impl Tally {
    fn merge(mut self, o: Tally) -> Tally {
        self.evals += o.evals;
        self.nontrivial += o.nontrivial;
        self.digest = self.digest.wrapping_add(o.digest);
        self
    }
}

fn offset_case(off: i32, t: i64, ns: u32, rec: &Recorder, sweep: &str, tl: &mut Tally) {
    tl.evals += 1;
    if off % 60 != 0 || off.unsigned_abs() >= 360_000 || (off < 0 && off > -3600) {
        tl.nontrivial += 1;
    }
    let r = guard(|| {
        // the same offset through local time types with and without designation / DST flag (rendering depends on the offset only)
        let variant = (off as u32 ^ (t as u32)) % 4;
        let ltt = match variant {
            0 => LocalTimeType::with_ut_offset(off),
            1 => LocalTimeType::new(off, false, Some(b"GMT")),
            2 => LocalTimeType::new(off, true, None),
            _ => LocalTimeType::new(off, true, Some(b"-00")),
        }
        .map_err(|e| (json!("LocalTimeType"), json!(format!("{e:?}"))))?;
        let d = DateTime::from_timespec_and_local(t, ns, ltt).map_err(|e| (json!("DateTime"), json!(format!("{e:?}"))))?;
        let mut dg = check_dt(&d)?;
        if off.unsigned_abs() <= 1 || off % 3600 == 0 {
            for l2 in [
                LocalTimeType::new(off, false, Some(b"GMT")),
                LocalTimeType::new(off, true, None),
                LocalTimeType::new(off, true, Some(b"UTC")),
                LocalTimeType::with_ut_offset(off),
                // designations that themselves look like an offset or a marker (the rendering depends on the offset only)
                LocalTimeType::new(off, false, Some(b"-00")),
                LocalTimeType::new(off, true, Some(b"+00")),
                LocalTimeType::new(off, false, Some(b"+0000")),
                LocalTimeType::new(off, false, Some(b"ZZZ")),
                LocalTimeType::new(off, false, Some(b"LMT")),
                LocalTimeType::new(off, true, Some(b"-0000")),
            ] {
                let l2 = l2.map_err(|e| (json!("LocalTimeType"), json!(format!("{e:?}"))))?;
                let d2 = DateTime::from_timespec_and_local(t, ns, l2).map_err(|e| (json!("DateTime"), json!(format!("{e:?}"))))?;
                dg = dg.wrapping_add(check_dt(&d2)?);
            }
        }
        Ok(dg)
    });
    match r {
        Ok(Ok(dg)) => tl.digest = tl.digest.wrapping_add(dg),
        Ok(Err((e, g))) => rec.violation(sweep, json!({"kind":"offset","offset":off,"t":t,"ns":ns}), e, g),
        Err(m) => rec.violation(sweep, json!({"kind":"offset","offset":off,"t":t,"ns":ns}), json!("no panic"), json!(m)),
    }
}

fn fields_case(y: i32, mo: u8, d: u8, h: u8, mi: u8, s: u8, ns: u32, off: i32, rec: &Recorder, tl: &mut Tally) {
    let case = || json!({"kind":"fields","y":y,"mo":mo,"d":d,"h":h,"mi":mi,"s":s,"ns":ns,"offset":off});
    let r = guard(|| -> Result<u64, (Value, Value)> {
        let mut dg = 0u64;
        if off == 0 {
            if let Ok(u) = UtcDateTime::new(y, mo, d, h, mi, s, ns) {
                dg = dg.wrapping_add(check_utc(&u)?);
            }
        }
        for ltt in [LocalTimeType::with_ut_offset(off), LocalTimeType::new(off, mo % 2 == 0, Some(b"ABC"))] {
            if let Ok(ltt) = ltt {
                if let Ok(dt) = DateTime::new(y, mo, d, h, mi, s, ns, ltt) {
                    dg = dg.wrapping_add(check_dt(&dt)?);
                }
            }
        }
        Ok(dg)
    });
    tl.evals += 1;
    if y < 0 || y > 9999 || s == 60 {
        tl.nontrivial += 1;
    }
    match r {
        Ok(Ok(dg)) => tl.digest = tl.digest.wrapping_add(dg),
        Ok(Err((e, g))) => rec.violation("fields", case(), e, g),
        Err(m) => rec.violation("fields", case(), json!("no panic"), json!(m)),
    }
}

/// format specifications (width, fill, alignment, precision, sign, alternate): ignored or applied to the text as a whole (C18);
/// every feature configuration must do the same (C19): the rendered text is folded into the returned digest
fn check_format_specs(rec: &Recorder) -> u64 {
    let mut f = Fnv::default();
    let mut n = 0u64;
    let samples: Vec<DateTime> = [(0i64, 0u32, 0i32), (1_700_000_000, 123_456_789, 19_800), (-62_135_596_801, 999_999_999, -1), (crate::cal::MAX_UNIX_TIME - (1 << 31) - 10, 5, i32::MAX), (crate::cal::MIN_UNIX_TIME + (1 << 31) + 10, 0, i32::MIN + 1), (crate::cal::MIN_UNIX_TIME + (1 << 31) + 10, 4_000_000_000, i32::MIN + 1), (0, u32::MAX, -1)]
        .iter()
        .filter_map(|&(t, ns, off)| DateTime::from_timespec_and_local(t, ns, LocalTimeType::with_ut_offset(off).ok()?).ok())
        .collect();
    macro_rules! spec {
        ($($s:literal),*) => {
            for d in &samples {
                let u = UtcDateTime::from_timespec(d.unix_time(), d.nanoseconds()).ok();
                let mut canon = Buf::new();
                let _ = write!(canon, "{}", d);
                let canon_str = core::str::from_utf8(canon.as_bytes()).unwrap_or("");
                $(
                    let mut b = Buf::new();
                    let _ = write!(b, $s, d);
                    // C18: options either are ignored or apply to the text as a whole (what Formatter::pad does to a string);
                    // they never reach into a field
                    let mut padded = Buf::new();
                    let _ = write!(padded, $s, canon_str);
                    if b.as_bytes() != canon.as_bytes() && b.as_bytes() != padded.as_bytes() {
                        rec.violation("format_specifications", json!({"kind":"spec","spec":$s,"t":d.unix_time(),"ns":d.nanoseconds(),"offset":d.local_time_type().ut_offset()}), json!({"either": canon_str, "or": String::from_utf8_lossy(padded.as_bytes())}), json!(String::from_utf8_lossy(b.as_bytes())));
                    }
                    f.bytes(b.as_bytes());
                    f.bytes(b"|");
                    if let Some(u) = &u {
                        let mut b = Buf::new();
                        let _ = write!(b, $s, u);
                        f.bytes(b.as_bytes());
                        f.bytes(b"|");
                    }
                    n += 1;
                )*
            }
        };
    }
    spec!("{}", "{:40}", "{:<40}", "{:>40}", "{:^41}", "{:*^50}", "{:.10}", "{:.0}", "{:40.10}", "{:>60.5}", "{:^33.33}", "{:+}", "{:#}", "{:010}", "{:1}", "{:.100}", "{:3.3}");
    let _ = n;
    rec.sub("format_specifications", json!({"renderings": n, "digest": format!("{:016x}", f.0), "note": "judged: each rendering equals the plain text or the plain text padded / truncated as a whole; also compared across feature configurations (C19)"}));
    f.0
}

pub fn run(args: &Args) -> i32 {
    let rec = Recorder::new(args, "exploration");
    let thorough = args.thorough();
    // reader self-test: the reader must refuse near-misses (so that a lax reader cannot hide a formatting slip)
    for bad in ["2000-1-01T00:00:00.000000000Z", "2000-01-01T00:00:00.00000000Z", "+2000-01-01T00:00:00.000000000Z", "02000-01-01T00:00:00.000000000Z", "2000-01-01T00:00:00.000000000+1:00", "2000-01-01T00:00:00.000000000+01:0", "2000-01-01T00:00:00.000000000+0100:00", "2000-01-01T00:00:00.000000000", "2000-01-01T00:00:00.000000000+01:00:0", "2000-01-01T00:00:00.000000000+01:60", "2000-01-01 00:00:00.000000000Z", "-0-01-01T00:00:00.000000000Z", "2000-01-01T00:00:00.000000000Zx"] {
        assert!(read_iso(bad.as_bytes()).is_none(), "reader accepts {bad}");
    }
    assert!(read_iso(b"-2147483648-12-31T23:59:60.999999999-596523:14:08").is_some());
    assert!(read_iso(b"0-01-01T00:00:00.000000000Z").is_some());

    let mut total = Tally::default();
    // (1) offsets
    let mut ranges: Vec<(i64, i64)> = vec![];
    if thorough {
        ranges.push((i32::MIN as i64 + 1, i32::MAX as i64));
    } else {
        ranges.push((-2_000_000, 2_000_000));
        ranges.push((i32::MIN as i64 + 1, i32::MIN as i64 + 5000));
        ranges.push((i32::MAX as i64 - 5000, i32::MAX as i64));
        for k in 0..31 {
            let p = 1i64 << k;
            ranges.push((p - 3700, (p + 3700).min(i32::MAX as i64)));
            ranges.push(((-p - 3700).max(i32::MIN as i64 + 1), -p + 3700));
        }
        let mut p = 10i64;
        while p < i32::MAX as i64 {
            ranges.push((p - 3700, p + 3700));
            ranges.push((-p - 3700, -p + 3700));
            p *= 10;
        }
        for h in [99i64, 100, 101, 999, 1000, 9999, 10000, 99999, 100000, 596523] {
            ranges.push((h * 3600 - 61, (h * 3600 + 61).min(i32::MAX as i64)));
            ranges.push(((-h * 3600 - 61).max(i32::MIN as i64 + 1), -h * 3600 + 61));
        }
    }
    let instants: &[(i64, u32)] = &[(0, 0), (1_700_000_000, 123_456_789)];
    for (a, b) in ranges {
        let chunk = 1 << 16;
        let n = (b - a) / chunk + 1;
        let t = (0..n)
            .into_par_iter()
            .map(|i| {
                let mut tl = Tally::default();
                let lo = a + i * chunk;
                let hi = (lo + chunk - 1).min(b);
                for off in lo..=hi {
                    let (t, ns) = instants[(off & 1) as usize];
                    offset_case(off as i32, t, ns, &rec, "offsets", &mut tl);
                }
                tl
            })
            .reduce(Tally::default, Tally::merge);
        total = total.merge(t);
    }
    // every whole hour of the i32 range -61..+61 s around it would be 7 x 10^7 cases; quick: the seconds -1, 0, +1, +59, +60, +61
    // around every whole hour (both signs)
    if !thorough {
        let hours: i64 = i32::MAX as i64 / 3600;
        let t = (-hours..=hours)
            .into_par_iter()
            .map(|h| {
                let mut tl = Tally::default();
                for d in [-61i64, -60, -59, -1, 0, 1, 59, 60, 61] {
                    let off = h * 3600 + d;
                    if off > i32::MIN as i64 && off <= i32::MAX as i64 {
                        let (t, ns) = instants[(h & 1) as usize];
                        offset_case(off as i32, t, ns, &rec, "offsets", &mut tl);
                    }
                }
                tl
            })
            .reduce(Tally::default, Tally::merge);
        total = total.merge(t);
    }
    rec.sub("offsets", json!({"evaluations": total.evals, "nontrivial": total.nontrivial}));
    // (1b) nanosecond field: every value below 200 000, a lattice of step 997 over the whole field, windows around d x 10^k
    // (thorough: every one of the 10^9 values), rendered through UtcDateTime and a zoned date-time
    {
        let mut nsv: Vec<u32> = (0..200_000u32).collect();
        if thorough {
            nsv = vec![];
        } else {
            let mut x = 0u64;
            while x < 1_000_000_000 {
                nsv.push(x as u32);
                x += 997;
            }
            let mut p = 1u64;
            while p < 1_000_000_000 {
                for d in 1..=10u64 {
                    for e in -3i64..=3 {
                        let v = (d * p) as i64 + e;
                        if (0..1_000_000_000).contains(&v) {
                            nsv.push(v as u32);
                        }
                    }
                }
                p *= 10;
            }
            for e in 0..2000u32 {
                nsv.push(999_999_999 - e);
            }
        }
        let ltt = LocalTimeType::with_ut_offset(-12_600).unwrap();
        let one = |ns: u32, tl: &mut Tally| {
            tl.evals += 1;
            let r = guard(|| -> Result<u64, (Value, Value)> {
                let u = UtcDateTime::from_timespec(1_700_000_000, ns).map_err(|e| (json!("UtcDateTime"), json!(format!("{e:?}"))))?;
                let d = DateTime::from_timespec_and_local(-1, ns, ltt).map_err(|e| (json!("DateTime"), json!(format!("{e:?}"))))?;
                Ok(check_utc(&u)?.wrapping_add(check_dt(&d)?))
            });
            match r {
                Ok(Ok(dg)) => tl.digest = tl.digest.wrapping_add(dg),
                Ok(Err((e, g))) => rec.violation("nanoseconds", json!({"kind":"offset","offset":-12600,"t":-1,"ns":ns}), e, g),
                Err(m) => rec.violation("nanoseconds", json!({"kind":"offset","offset":-12600,"t":-1,"ns":ns}), json!("no panic"), json!(m)),
            }
        };
        let t = if thorough {
            (0..1000u32)
                .into_par_iter()
                .map(|blk| {
                    let mut tl = Tally::default();
                    for ns in blk * 1_000_000..(blk + 1) * 1_000_000 {
                        one(ns, &mut tl);
                    }
                    tl
                })
                .reduce(Tally::default, Tally::merge)
        } else {
            nsv.par_chunks(4096)
                .map(|c| {
                    let mut tl = Tally::default();
                    for &ns in c {
                        one(ns, &mut tl);
                    }
                    tl
                })
                .reduce(Tally::default, Tally::merge)
        };
        rec.sub("nanoseconds", json!({"evaluations": t.evals, "all_values": thorough}));
        total = total.merge(t);
    }
    // i32::MIN offset cannot be constructed
    assert!(LocalTimeType::with_ut_offset(i32::MIN).is_err());

    // (2) field products
    let mut years: Vec<i32> = vec![i32::MIN, -10000, -9999, -1000, -999, -100, -99, -10, -9, -1, 0, 1, 9, 10, 99, 100, 999, 1000, 9999, 10000, 99999, i32::MAX];
    let span = if thorough { 1100 } else { 120 };
    for y in -span..=span {
        years.push(y);
    }
    // width thresholds of the year field: +-10^k and +-2^k, -2..+2
    let mut p = 10i64;
    while p < i32::MAX as i64 {
        for e in -2..=2 {
            years.push((p + e) as i32);
            years.push((-p + e) as i32);
        }
        p *= 10;
    }
    for k in 7..31 {
        for e in -1..=1 {
            years.push(((1i64 << k) + e) as i32);
            years.push((-(1i64 << k) + e) as i32);
        }
    }
    years.sort();
    years.dedup();
    let offs: &[i32] = &[0, 1, -1, 59, -59, 60, -60, 3599, -3599, 3600, -3600, 19800, -12600, 45296, -45296, 86399, 360000, -360000, 359999, i32::MAX, i32::MIN + 1];
    let nss: &[u32] = &[0, 1, 9, 10, 99_999_999, 100_000_000, 123_456_789, 999_999_999];
    let t = years
        .par_iter()
        .map(|&y| {
            let mut tl = Tally::default();
            let mut k = 0usize;
            for mo in 1..=12u8 {
                for d in 1..=31u8 {
                    for &(h, mi, s) in &[(0u8, 0u8, 0u8), (9, 9, 9), (10, 10, 10), (23, 59, 59), (23, 59, 60), (0, 0, 60)] {
                        let ns = nss[k % nss.len()];
                        let off = offs[(k / 3) % offs.len()];
                        k += 1;
                        fields_case(y, mo, d, h, mi, s, ns, off, &rec, &mut tl);
                        fields_case(y, mo, d, h, mi, s, ns, 0, &rec, &mut tl);
                    }
                }
            }
            tl
        })
        .reduce(Tally::default, Tally::merge);
    rec.sub("fields", json!({"years": years.len(), "evaluations": t.evals}));
    total = total.merge(t);
    // (3) full small product: one leap-year date x all listed offsets x all ns x seconds
    let mut tl = Tally::default();
    for &off in offs {
        for &ns in nss {
            for &(y, mo, d) in &[(2024, 2, 29), (-1, 12, 31), (i32::MIN, 1, 1), (i32::MAX, 12, 31), (0, 1, 1)] {
                for s in [0u8, 59, 60] {
                    fields_case(y, mo, d, 23, 59, s, ns, off, &rec, &mut tl);
                }
            }
        }
    }
    rec.sub("small_product", json!({"evaluations": tl.evals}));
    total = total.merge(tl);

    // (3b) every distinct local time type of the vendored IANA corpus (offset, DST flag, designation as they occur in real files)
    #[cfg(feature = "tz-alloc")]
    if !args.digest_mode {
        let mut seen = std::collections::BTreeSet::new();
        let mut tl = Tally::default();
        for sub in ["fat", "slim"] {
            for p in crate::tzif::corpus_files(sub) {
                if let Ok(z) = std::fs::read(&p).map_err(|_| ()).and_then(|b| tz::TimeZone::from_tz_data(&b).map_err(|_| ())) {
                    let r = z.as_ref();
                    let mut types: Vec<LocalTimeType> = r.local_time_types().to_vec();
                    match r.extra_rule() {
                        Some(tz::timezone::TransitionRule::Fixed(l)) => types.push(*l),
                        Some(tz::timezone::TransitionRule::Alternate(a)) => {
                            types.push(*a.std());
                            types.push(*a.dst());
                        }
                        None => {}
                    }
                    for l in types {
                        if seen.insert((l.ut_offset(), l.is_dst(), l.time_zone_designation().to_string())) {
                            for (t, ns) in [(0i64, 0u32), (1_700_000_000, 123_456_789)] {
                                if let Ok(d) = DateTime::from_timespec_and_local(t, ns, l) {
                                    tl.evals += 1;
                                    match check_dt(&d) {
                                        Ok(dg) => tl.digest = tl.digest.wrapping_add(dg),
                                        Err((e, g)) => rec.violation("corpus_types", json!({"kind":"offset","offset":l.ut_offset(),"t":t,"ns":ns}), e, g),
                                    }
                                }
                            }
                        }
                    }
                }
            }
        }
        rec.sub("corpus_types", json!({"distinct_local_time_types": seen.len(), "evaluations": tl.evals}));
        total = total.merge(tl);
    }
    // (4) format specifications
    total.digest = total.digest.wrapping_add(check_format_specs(&rec));

    rec.add(total.evals, total.nontrivial);
    rec.digest("fmt", total.digest);
    rec.set_rule("offsets: every offset in +-2 000 000, +-3700 around +-2^k and +-10^k, -61..+61 around every whole hour of the i32 range (thorough: every i32 offset); nanoseconds: every value < 200 000, step-997 lattice, windows at d x 10^k (thorough: all 10^9 values); years incl. +-10^k, +-2^k; every listed (offset) and (fields, ns, offset) case is rendered with Display into a stack buffer and read back by an independent strict reader; fields, ns, offset, 'Z' iff offset 0, ':SS' iff offset%60!=0 must match. non-trivial = offsets that are not whole minutes, need >2 hour digits or are negative and smaller than an hour; years outside 0..9999; second 60");
    rec.set_exhaustive(thorough);
    rec.outcome("Z");
    rec.outcome("+HH:MM");
    rec.outcome("-HH:MM:SS");
    for off in [0i32, -59, 45296, i32::MAX, i32::MIN + 1, (args.seed as i32).wrapping_mul(7919) % 500_000] {
        let ltt = LocalTimeType::with_ut_offset(off).unwrap();
        let d = DateTime::from_timespec_and_local(0, 5, ltt).unwrap();
        let mut b = Buf::new();
        let _ = write!(b, "{d}");
        rec.sample(json!({"offset": off, "text": String::from_utf8_lossy(b.as_bytes())}));
    }
    rec.finish()
}

pub fn replay(case: &Value, args: &Args) -> i32 {
    let rec = Recorder::new(args, "exploration");
    let mut tl = Tally::default();
    let g = |k: &str| case[k].as_i64().unwrap_or(0);
    for _ in 0..2 {
        match case["kind"].as_str().unwrap_or("") {
            "offset" => offset_case(g("offset") as i32, g("t"), g("ns") as u32, &rec, "replay", &mut tl),
            "spec" => {
                check_format_specs(&rec);
            }
            "fields" => fields_case(g("y") as i32, g("mo") as u8, g("d") as u8, g("h") as u8, g("mi") as u8, g("s") as u8, g("ns") as u32, g("offset") as i32, &rec, &mut tl),
            _ => return 2,
        }
    }
    if rec.viol_count.load(std::sync::atomic::Ordering::Relaxed) > 0 {
        println!("REPLAY: violation reproduced");
        1
    } else {
        println!("REPLAY: case passes");
        0
    }
}
