//! Real zones: every distinct TZif file of the vendored corpus decoded by the INDEPENDENT reader into a model zone
//! (used by `table` for forward lookups and by `find` for searches, so that the real IANA shapes - 27 leap records,
//! 300-transition tables, every footer - are explored against the model as well).

use refmodel::cal::Cycle;
use refmodel::rule::RuleSpec;
use refmodel::tzif;
use refmodel::tzstr::{recognise, trim_ascii_ws, Tz};
use refmodel::zone::{MRule, MType, MZone};
use std::collections::BTreeSet;
use std::path::{Path, PathBuf};

pub fn corpus_dir() -> PathBuf {
    PathBuf::from(std::env::var("VERIF_DATA").unwrap_or_else(|_| "/verif/data/tzdb".into()))
}

pub fn files(sub: &str) -> Vec<PathBuf> {
    fn walk(d: &Path, out: &mut Vec<PathBuf>) {
        if let Ok(rd) = std::fs::read_dir(d) {
            let mut es: Vec<_> = rd.filter_map(|e| e.ok()).map(|e| e.path()).collect();
            es.sort();
            for p in es {
                if p.is_dir() {
                    walk(&p, out);
                } else {
                    out.push(p);
                }
            }
        }
    }
    let mut v = vec![];
    walk(&corpus_dir().join(sub), &mut v);
    v
}

/// distinct (by content) corpus files as model zones; files the model cannot express (designation longer than 7 bytes,
/// unparsable footer) are skipped and counted
pub fn model_zones(cyc: &Cycle) -> (Vec<(String, MZone)>, usize) {
    let mut seen = BTreeSet::new();
    let mut out = vec![];
    let mut skipped = 0;
    for sub in ["slim", "fat"] {
        for p in files(sub) {
            let b = match std::fs::read(&p) {
                Ok(b) => b,
                Err(_) => continue,
            };
            let mut h = 0xcbf29ce484222325u64;
            for &x in &b {
                h ^= x as u64;
                h = h.wrapping_mul(0x100000001b3);
            }
            if !seen.insert((h, b.len())) {
                continue;
            }
            match to_model(cyc, &b) {
                Some(z) => out.push((p.display().to_string(), z)),
                None => skipped += 1,
            }
        }
    }
    (out, skipped)
}

pub fn to_model(cyc: &Cycle, bytes: &[u8]) -> Option<MZone> {
    let d = tzif::decode(bytes).ok()?;
    let mk = |off: i64, dst: bool, name: &[u8]| -> Option<MType> {
        if name.len() > 8 || off < i32::MIN as i64 + 1 || off > i32::MAX as i64 {
            return None;
        }
        Some(MType::from_bytes(off as i32, dst, if name.is_empty() { None } else { Some(name) }))
    };
    let mut types = vec![];
    for (o, dst, n) in &d.types {
        types.push(mk(*o as i64, *dst, n)?);
    }
    let rule = match &d.footer {
        None => None,
        Some(f) => {
            let t = trim_ascii_ws(f);
            if t.is_empty() {
                None
            } else {
                match recognise(t, d.version == b'3').0 {
                    Tz::Reject => return None,
                    Tz::Fixed { name, utoff } => Some(MRule::Fixed(mk(utoff, false, &name)?)),
                    Tz::Alt { std_name, std_utoff, dst_name, dst_utoff, start, start_time, end, end_time } => {
                        Some(MRule::alt(cyc, RuleSpec { std_off: std_utoff, dst_off: dst_utoff, start, start_time, end, end_time }, mk(std_utoff, false, &std_name)?, mk(dst_utoff, true, &dst_name)?))
                    }
                }
            }
        }
    };
    if d.trans.iter().any(|&(_, i)| i >= types.len()) {
        return None;
    }
    let z = MZone { trans: d.trans.clone(), types, leaps: d.leaps.clone(), rule };
    // RFC 8536 3.3: the footer must agree with the last transition (I12); zones that do not are refused by the constructor
    if let (Some(_), Some(&(t, i))) = (&z.rule, z.trans.last()) {
        let u = z.to_utc(t)?;
        if z.rule_type(cyc, u).ok().copied() != Some(z.types[i]) {
            return None;
        }
    }
    Some(z)
}
