//! Engine `tzif`: C08 TZif decoding vs an independent writer (synthesised files), an independent reader (corpus files)
//! and the corruption classes named by the property.

use crate::common::*;
use crate::conv::*;
use rayon::prelude::*;
use refmodel::tzif::{self, Block, CountOverride, Decoded};
use refmodel::tzstr::{recognise, trim_ascii_ws, Tz};
use serde_json::{json, Value};
use std::path::{Path, PathBuf};
use tz::timezone::{AlternateTime, LeapSecond, LocalTimeType, Transition, TransitionRule};
use tz::TimeZone;

#[derive(Default, Clone, Copy)]
pub struct Tally {
    pub v2_bases: u64,
    pub evals: u64,
    pub accepted: u64,
    pub rejected: u64,
    pub digest: u64,
    pub corrupt: u64,
}
impl Tally {
    pub fn merge(mut self, o: Tally) -> Tally {
        self.evals += o.evals;
        self.accepted += o.accepted;
        self.rejected += o.rejected;
        self.digest = self.digest.wrapping_add(o.digest);
        self.corrupt += o.corrupt;
        self.v2_bases += o.v2_bases;
        self
    }
}

pub fn corpus_dir() -> PathBuf {
    PathBuf::from(std::env::var("VERIF_DATA").unwrap_or_else(|_| "/verif/data/tzdb".into()))
}

pub fn corpus_files(sub: &str) -> Vec<PathBuf> {
    fn walk(d: &Path, out: &mut Vec<PathBuf>) {
        if let Ok(rd) = std::fs::read_dir(d) {
            let mut es: Vec<_> = rd.filter_map(|e| e.ok()).map(|e| e.path()).collect();
            es.sort();
            for p in es {
                if p.is_dir() {
                    walk(&p, out);
                } else {
                    out.push(p);
                }
            }
        }
    }
    let mut v = vec![];
    walk(&corpus_dir().join(sub), &mut v);
    v
}

/// rule denoted by a footer text (model): Err = must be rejected
pub fn footer_rule(text: &[u8], ext: bool) -> Result<Option<TransitionRule>, ()> {
    if std::str::from_utf8(text).is_err() {
        return Err(());
    }
    let t = trim_ascii_ws(text);
    if t.first() == Some(&b':') || t.contains(&0) {
        return Err(());
    }
    if t.is_empty() {
        return Ok(None);
    }
    match recognise(t, ext).0 {
        Tz::Reject => Err(()),
        Tz::Fixed { name, utoff } => LocalTimeType::new(utoff as i32, false, Some(&name)).map(|l| Some(TransitionRule::Fixed(l))).map_err(|_| ()),
        Tz::Alt { std_name, std_utoff, dst_name, dst_utoff, start, start_time, end, end_time } => {
            let s = LocalTimeType::new(std_utoff as i32, false, Some(&std_name)).map_err(|_| ())?;
            let d = LocalTimeType::new(dst_utoff as i32, true, Some(&dst_name)).map_err(|_| ())?;
            AlternateTime::new(s, d, rule_day(start), start_time as i32, rule_day(end), end_time as i32).map(|a| Some(TransitionRule::Alternate(a))).map_err(|_| ())
        }
    }
}

/// zone that a decoded file denotes, built through the public constructors (None = the parts are not a valid zone)
pub fn expected_zone(d: &Decoded) -> Option<TimeZone> {
    let trans: Vec<Transition> = d.trans.iter().map(|&(t, i)| Transition::new(t, i)).collect();
    let mut types = vec![];
    for (off, dst, name) in &d.types {
        let n = if name.is_empty() { None } else { Some(name.as_slice()) };
        types.push(LocalTimeType::new(*off, *dst, n).ok()?);
    }
    let leaps: Vec<LeapSecond> = d.leaps.iter().map(|&(t, c)| LeapSecond::new(t, c)).collect();
    let rule = match &d.footer {
        None => None,
        Some(f) => footer_rule(f, d.version == b'3').ok()?,
    };
    TimeZone::new(trans, types, leaps, rule).ok()
}

fn check_file(bytes: &[u8], what: &str, rec: &Recorder, sweep: &str, tl: &mut Tally) -> bool {
    tl.evals += 1;
    let case = || json!({"kind":"file","what":what,"bytes_hex":hex(bytes)});
    let got = match guard(|| TimeZone::from_tz_data(bytes)) {
        Ok(g) => g,
        Err(m) => {
            rec.violation(sweep, case(), json!("no panic"), json!(m));
            return false;
        }
    };
    let model = tzif::decode(bytes);
    let exp = match &model {
        Ok(d) => expected_zone(d),
        Err(_) => None,
    };
    match (&exp, &got) {
        (Some(e), Ok(g)) if e == g => {
            tl.accepted += 1;
            let r = g.as_ref();
            tl.digest = tl.digest.wrapping_add(r.transitions().len() as u64 * 31 + r.local_time_types().len() as u64 * 7 + r.leap_seconds().len() as u64 + bytes.len() as u64);
            true
        }
        (None, Err(_)) => {
            tl.rejected += 1;
            true
        }
        _ => {
            rec.violation(sweep, case(), json!(format!("{:?} / model decode: {:?}", exp.as_ref().map(|z| format!("{z:?}")), model.as_ref().map(|_| "ok").map_err(|e| e.clone()))), json!(format!("{got:?}")));
            false
        }
    }
}

pub fn hex(b: &[u8]) -> String {
    let mut s = String::with_capacity(b.len() * 2);
    for x in b {
        s.push_str(&format!("{x:02x}"));
    }
    s
}
pub fn unhex(s: &str) -> Vec<u8> {
    (0..s.len() / 2).map(|i| u8::from_str_radix(&s[2 * i..2 * i + 2], 16).unwrap()).collect()
}

// ------------------------------------------------------------------------------------------ synthesised zones

struct Shape {
    timecnt: usize,
    typecnt: usize,
    leapcnt: usize,
    pool: usize,
    ind: usize,
    times: usize,
}

fn pools() -> Vec<(Vec<u8>, Vec<u8>)> {
    // (chars, valid designation indices)
    vec![
        (b"LMT\0EST\0EDT\0".to_vec(), vec![0, 4, 8]),
        (b"XCEST\0".to_vec(), vec![0, 1, 2]),           // overlapping suffixes XCEST / CEST / EST
        (b"UTC\0\0+0330\0".to_vec(), vec![0, 3, 5]),    // index 3 = empty designation (none)
        (b"abcdefg\0-03\0A".to_vec(), vec![0, 8, 4]),   // pool not ending with NUL after the last used string; index 4 = "efg"
    ]
}

fn block_for(s: &Shape, alt: bool) -> Block {
    let (chars, idxs) = pools()[s.pool].clone();
    let time_sets: [[i64; 3]; 4] = [[-1000, 0, 1000], [i32::MIN as i64, -1, i32::MAX as i64], [i64::MIN + 1, 5, i64::MAX - 1], [-(1i64 << 40), 1 << 33, 1 << 50]];
    let ts = time_sets[s.times];
    let offs = if alt { [7200, -3600, 12345] } else { [-18000, -14400, 3600] };
    let mut b = Block::default();
    for k in 0..s.typecnt {
        b.types.push((offs[k], (k % 2) as u8, idxs[k] as u8));
    }
    for k in 0..s.timecnt {
        b.trans.push((ts[k], ((k + alt as usize) % s.typecnt) as u8));
    }
    b.chars = chars;
    for k in 0..s.leapcnt {
        b.leaps.push((78_796_800 + k as i64 * 28 * 86400, k as i32 + 1));
    }
    // indicator vectors: ind = 0 absent/absent, 1 isstd only, 2 both, 3.. per-type valid combinations
    match s.ind {
        0 => {}
        1 => b.isstd = (0..s.typecnt).map(|k| (k % 2) as u8).collect(),
        2 => {
            b.isstd = vec![1; s.typecnt];
            b.isut = (0..s.typecnt).map(|k| (k % 2) as u8).collect();
        }
        _ => {
            b.isut = vec![0; s.typecnt];
            b.isstd = vec![];
        }
    }
    b
}

fn footers_for(b: &Block) -> Vec<(Vec<u8>, bool)> {
    // (footer, needs_extensions) ; with transitions only footers consistent with the last transition's type are well-formed zones,
    // others exercise the constructor's refusal through the parser (both must then fail)
    let mut v: Vec<(Vec<u8>, bool)> = vec![(b"".to_vec(), false)];
    // footers whose numbers are valid only modulo 2^8 / 2^16 / 2^32 (must be refused, like any malformed footer)
    for f in [&b"EST5EDT,M259.2.0,M267.1.0"[..], b"EST5EDT,M3.258.0,M11.1.0", b"EST5EDT,M3.2.256,M11.1.0", b"EST5EDT,J65537,J300", b"EST5EDT,65537,300", b"EST4294967301EDT,M3.2.0,M11.1.0", b"EST5EDT,M3.2.0/4294967298,M11.1.0"] {
        v.push((f.to_vec(), false));
    }
    if b.trans.is_empty() {
        v.push((b"<+0330>-3:30".to_vec(), false));
        v.push((b"EST5EDT,M3.2.0,M11.1.0".to_vec(), false));
        v.push((b"<-03>3<-02>,M3.5.0/-2,M10.5.0/-1".to_vec(), true));
        v.push((b"AAA0BBB,J1/25,J300".to_vec(), true));
        v.push((b"AAA0BBB,M3.2.0/-0:30,M11.1.0/-0:00:01".to_vec(), true));
        v.push((b"AAA0BBB,M3.2.0/+0:30,M11.1.0/-167:59:59".to_vec(), true));
    } else {
        v.push((b"EST5".to_vec(), false));
        v.push((b"EST5EDT,M3.2.0,M11.1.0".to_vec(), false));
    }
    v
}

fn sweep_synth(rec: &Recorder, thorough: bool) -> Tally {
    let mut shapes = vec![];
    for &timecnt in &[0usize, 1, 3] {
        for typecnt in 1..=3usize {
            for leapcnt in 0..=2usize {
                for pool in 0..4usize {
                    for ind in 0..4usize {
                        for times in 0..4usize {
                            shapes.push(Shape { timecnt, typecnt, leapcnt, pool, ind, times });
                        }
                    }
                }
            }
        }
    }
    let t = shapes
        .par_iter()
        .map(|s| {
            let mut tl = Tally::default();
            let main = block_for(s, false);
            let other = block_for(&Shape { timecnt: (s.timecnt + 1) % 3, typecnt: s.typecnt % 3 + 1, leapcnt: (s.leapcnt + 1) % 3, pool: (s.pool + 1) % 4, ind: s.ind, times: 0 }, true);
            // v1: the 32-bit block is the zone (times must fit i32: only time sets 0 and 1)
            if s.times <= 1 {
                let f = tzif::file(0, &main, None, None);
                check_file(&f, "v1", rec, "synth", &mut tl);
                if thorough || (s.pool + s.ind) % 2 == 0 {
                    corruptions(&f, 0, &main, None, rec, &mut tl);
                }
            }
            for version in [b'2', b'3'] {
                for (footer, _needs_ext) in footers_for(&main) {
                    // the v1 block encodes a different zone than the 64-bit block
                    let f = tzif::file(version, &other, Some(&main), Some(&footer));
                    check_file(&f, "v2+", rec, "synth", &mut tl);
                    // the two headers carry different version bytes: the one in front of the 64-bit block governs the footer
                    let hdr2 = 44 + tzif::body(&other, false).len();
                    for second in [0u8, b'2', b'3'] {
                        if second != version {
                            let mut g = f.clone();
                            g[hdr2 + 4] = second;
                            check_file(&g, "v2+ with different version bytes in the two headers", rec, "synth", &mut tl);
                        }
                    }
                    // corruption classes on v2+ files: base = the file with an empty footer and the one with a fixed-offset footer
                    // (the base must be accepted: checked inside)
                    if (footer.is_empty() || footer == b"<+0330>-3:30") && (thorough || (s.pool + s.ind + s.times) % 3 == 0) {
                        let before = tl.corrupt;
                        corruptions(&f, version, &other, Some(&main), rec, &mut tl);
                        if tl.corrupt > before {
                            tl.v2_bases += 1;
                        }
                    }
                }
            }
            tl
        })
        .reduce(Tally::default, Tally::merge);
    rec.sub("synthesised", json!({"shapes": shapes.len(), "files": t.evals - t.corrupt, "corrupted_files": t.corrupt, "v2_or_v3_base_files_corrupted": t.v2_bases, "accepted": t.accepted, "rejected": t.rejected}));
    // vacuity guard: the corruption classes must have run on v2+ base files too
    assert!(t.v2_bases > 100, "no v2+ base file was accepted: the v2+ corruption classes did not run");
    t
}

/// every corruption class named by the property, applied to a well-formed file; each must be rejected
fn corruptions(f: &[u8], version: u8, v1: &Block, v2: Option<&Block>, rec: &Recorder, tl: &mut Tally) {
    let mut expect_err = |bytes: Vec<u8>, class: &str, kind: Option<&str>, tl: &mut Tally| {
        tl.evals += 1;
        tl.corrupt += 1;
        let got = guard(|| TimeZone::from_tz_data(&bytes).map(|_| ()).map_err(|e| format!("{e:?}")));
        let case = || json!({"kind":"file","what":format!("corruption: {class}"),"bytes_hex":hex(&bytes)});
        match got {
            Err(m) => rec.violation("corruptions", case(), json!("no panic"), json!(m)),
            Ok(Ok(())) => rec.violation("corruptions", case(), json!(format!("rejected ({class})")), json!("accepted")),
            Ok(Err(e)) => {
                tl.rejected += 1;
                if let Some(k) = kind {
                    if !e.contains(k) {
                        // C08 states "rejected", not which error: recorded, not judged
                        rec.note("rejection_carries_another_error_kind", || json!({"case": case(), "expected": k, "got": e}));
                    }
                }
            }
        }
    };
    // well-formedness of the base file is a precondition (otherwise single-defect reasoning is void)
    if TimeZone::from_tz_data(f).is_err() {
        return;
    }
    let hdr2 = if version != 0 { 44 + tzif::body(v1, false).len() } else { 0 };
    let headers: Vec<usize> = if version != 0 { vec![0, hdr2] } else { vec![0] };
    for &h in &headers {
        // magic
        for k in 0..4 {
            let mut x = f.to_vec();
            x[h + k] ^= 0x20;
            expect_err(x, "magic", Some("InvalidMagicNumber"), tl);
        }
        // version byte
        for v in [1u8, b'1', b'4', 0xff] {
            let mut x = f.to_vec();
            x[h + 4] = v;
            expect_err(x, "version", Some("UnsupportedTzFileVersion"), tl);
        }
    }
    // counts: rebuild the file with one header count overridden
    let rebuild = |which: usize, ov: CountOverride| -> Vec<u8> {
        let mut v = vec![];
        let b1 = v1;
        let none = CountOverride::default();
        v.extend(tzif::header(version, b1, if which == 0 { &ov } else { &none }));
        v.extend(tzif::body(b1, false));
        if version != 0 {
            let b2 = v2.unwrap();
            v.extend(tzif::header(version, b2, if which == 1 { &ov } else { &none }));
            v.extend(tzif::body(b2, true));
            v.extend_from_slice(&f[f.len() - (f.len() - hdr2 - 44 - tzif::body(b2, true).len())..]);
        }
        v
    };
    for which in 0..headers.len() {
        let b = if which == 0 { v1 } else { v2.unwrap() };
        let tc = b.types.len() as u32;
        expect_err(rebuild(which, CountOverride { typecnt: Some(0), ..Default::default() }), "typecnt=0", Some("InvalidHeader"), tl);
        expect_err(rebuild(which, CountOverride { charcnt: Some(0), ..Default::default() }), "charcnt=0", Some("InvalidHeader"), tl);
        expect_err(rebuild(which, CountOverride { isutcnt: Some(tc + 1), ..Default::default() }), "isutcnt != typecnt", Some("InvalidHeader"), tl);
        expect_err(rebuild(which, CountOverride { isstdcnt: Some(tc + 1), ..Default::default() }), "isstdcnt != typecnt", Some("InvalidHeader"), tl);
        if !(b.isut.is_empty() && tc == 1) {
            // a count of typecnt with absent data, or 1 with typecnt>1
            expect_err(rebuild(which, CountOverride { isutcnt: Some(if tc > 1 { 1 } else { 2 }), ..Default::default() }), "isutcnt inconsistent", Some("InvalidHeader"), tl);
        }
        // counts larger than the data: the body no longer fits (v1) or the next header / footer is misread
        for (name, ov) in [
            ("timecnt+64", CountOverride { timecnt: Some(b.trans.len() as u32 + 64), ..Default::default() }),
            ("leapcnt+64", CountOverride { leapcnt: Some(b.leaps.len() as u32 + 64), ..Default::default() }),
            ("charcnt+200", CountOverride { charcnt: Some(b.chars.len() as u32 + 200), ..Default::default() }),
            ("typecnt+64", CountOverride { typecnt: Some(tc + 64), isutcnt: Some(0), isstdcnt: Some(0), ..Default::default() }),
            ("timecnt=2^32-1", CountOverride { timecnt: Some(u32::MAX), ..Default::default() }),
            ("charcnt=2^31", CountOverride { charcnt: Some(1 << 31), ..Default::default() }),
        ] {
            expect_err(rebuild(which, ov), name, None, tl);
        }
    }
    // truncation at every block boundary -1 / 0 / +1 and at every byte of the footer
    let body_end = if version == 0 { f.len() } else { hdr2 + 44 + tzif::body(v2.unwrap(), true).len() };
    let mut cuts: Vec<usize> = tzif::boundaries(version, v1, v2);
    if version != 0 {
        cuts.extend(body_end..f.len());
    }
    for &bd in &cuts {
        for d in [-1i64, 0, 1] {
            let cut = bd as i64 + d;
            if cut < 0 || cut as usize >= f.len() {
                continue;
            }
            let cut = cut as usize;
            if version == 0 && cut == f.len() {
                continue;
            }
            expect_err(f[..cut].to_vec(), "truncation", None, tl);
        }
    }
    // v1: trailing byte after the body
    if version == 0 {
        let mut x = f.to_vec();
        x.push(0);
        expect_err(x, "trailing byte after v1 body", Some("RemainingDataV1"), tl);
        let mut x = f.to_vec();
        x.push(b'\n');
        expect_err(x, "trailing newline after v1 body", Some("RemainingDataV1"), tl);
    }
    // data block corruptions in the block that is decoded
    let (b, base, ts) = if version == 0 { (v1, 44usize, 4usize) } else { (v2.unwrap(), hdr2 + 44, 8usize) };
    let types_at = base + b.trans.len() * ts + b.trans.len();
    for k in 0..b.types.len() {
        for v in [2u8, 3, 0x80, 0xff] {
            let mut x = f.to_vec();
            x[types_at + 6 * k + 4] = v;
            expect_err(x, "isdst not 0/1", Some("InvalidDstIndicator"), tl);
        }
        let mut x = f.to_vec();
        x[types_at + 6 * k + 5] = b.chars.len() as u8;
        expect_err(x, "designation index = charcnt", Some("InvalidTimeZoneDesignationCharIndex"), tl);
        let mut x = f.to_vec();
        x[types_at + 6 * k + 5] = 0xff;
        expect_err(x, "designation index 255", Some("InvalidTimeZoneDesignationCharIndex"), tl);
    }
    // unterminated designation: overwrite every NUL of the pool
    let chars_at = types_at + 6 * b.types.len();
    if b.chars.last() == Some(&0) {
        let mut x = f.to_vec();
        for k in 0..b.chars.len() {
            if x[chars_at + k] == 0 {
                x[chars_at + k] = b'Q';
            }
        }
        expect_err(x, "unterminated designation", None, tl);
    }
    // indicator pairs
    let ind_at = chars_at + b.chars.len() + b.leaps.len() * (ts + 4);
    if !b.isstd.is_empty() && !b.isut.is_empty() {
        for k in 0..b.types.len() {
            let mut x = f.to_vec();
            x[ind_at + k] = 0;
            x[ind_at + b.isstd.len() + k] = 1;
            expect_err(x, "indicator pair (std 0, ut 1)", Some("InvalidStdWallUtLocal"), tl);
            let mut x = f.to_vec();
            x[ind_at + k] = 2;
            expect_err(x, "indicator value 2", Some("InvalidStdWallUtLocal"), tl);
        }
    } else if !b.isut.is_empty() {
        let mut x = f.to_vec();
        x[ind_at] = 1;
        expect_err(x, "ut indicator 1 without std block", Some("InvalidStdWallUtLocal"), tl);
    } else if !b.isstd.is_empty() {
        let mut x = f.to_vec();
        x[ind_at] = 7;
        expect_err(x, "std indicator 7", Some("InvalidStdWallUtLocal"), tl);
    }
    // footer
    if version != 0 {
        let pre = &f[..body_end];
        let mk = |foot: &[u8]| {
            let mut x = pre.to_vec();
            x.extend_from_slice(foot);
            x
        };
        expect_err(mk(b"EST5\n"), "footer without leading newline", Some("InvalidFooter"), tl);
        expect_err(mk(b"\nEST5"), "footer without trailing newline", Some("InvalidFooter"), tl);
        expect_err(mk(b""), "no footer at all", Some("InvalidFooter"), tl);
        expect_err(mk(b"\n:EST5\n"), "footer with ':'", Some("InvalidFooter"), tl);
        expect_err(mk(b"\nEST5\0\n"), "footer with NUL", Some("InvalidFooter"), tl);
        expect_err(mk(b"\nEST\xff5\n"), "footer not UTF-8", None, tl);
        expect_err(mk(b"\nEST5EDT\n"), "footer: DST name without rules", None, tl);
        if version == b'2' {
            expect_err(mk(b"\nEST5EDT,M3.2.0/-1,M11.1.0\n"), "extension footer in v2", None, tl);
            expect_err(mk(b"\nEST5EDT,M3.2.0/25,M11.1.0\n"), "extension footer in v2", None, tl);
        }
    }
}

/// leap-second records whose time and correction fields take boundary values of the 32-bit and 64-bit encodings (sign bit set,
/// zero, extremes), one or two records, in v1 and v2 files
fn sweep_leap_fields(rec: &Recorder) -> Tally {
    let t32: [i64; 9] = [i32::MIN as i64, i32::MIN as i64 + 1, -1, 0, 1, 78_796_800, i32::MAX as i64 - 2_500_000, i32::MAX as i64 - 1, i32::MAX as i64];
    let t64: [i64; 12] = [i64::MIN, i64::MIN + 1, -(1 << 32), -(1 << 31), -1, 0, 78_796_800, (1 << 31) - 1, 1 << 31, 1 << 32, i64::MAX - 1, i64::MAX];
    let corrs: [i32; 7] = [i32::MIN, -2, -1, 0, 1, 2, i32::MAX];
    let small = Block { types: vec![(0, 0, 0)], chars: b"UTC\0".to_vec(), ..Default::default() };
    let mut tl = Tally::default();
    for wide in [false, true] {
        let ts: &[i64] = if wide { &t64 } else { &t32 };
        for &a in ts {
            for &ca in &corrs {
                let mut tables: Vec<Vec<(i64, i32)>> = vec![vec![(a, ca)]];
                for &b in ts {
                    for &cb in &[ca.wrapping_add(1), ca.wrapping_sub(1), ca] {
                        tables.push(vec![(a, ca), (b, cb)]);
                    }
                }
                for leaps in tables {
                    let b = Block { trans: vec![(0, 0)], types: vec![(3600, 0, 0)], chars: b"CET\0".to_vec(), leaps, ..Default::default() };
                    let f = if wide { tzif::file(b'2', &small, Some(&b), Some(b"")) } else { tzif::file(0, &b, None, None) };
                    check_file(&f, if wide { "leap record fields (v2)" } else { "leap record fields (v1)" }, rec, "leap_fields", &mut tl);
                }
            }
        }
    }
    rec.sub("leap_fields", json!({"files": tl.evals, "accepted": tl.accepted, "rejected": tl.rejected}));
    tl
}

/// every (designation index, designation length, pool length) combination: index 0..=255, length 0..=8 (0 = no designation,
/// 8 = one more than allowed), the terminating NUL being the last octet of the pool, the last but one, or far from the end
fn sweep_designations(rec: &Recorder) -> Tally {
    let t = (0..256usize)
        .into_par_iter()
        .map(|idx| {
            let mut tl = Tally::default();
            for len in 0..=8usize {
                for tail in [0usize, 1, 40] {
                    let n = idx + len + 1 + tail;
                    let mut chars: Vec<u8> = (0..n).map(|k| b'a' + (k % 26) as u8).collect();
                    chars[idx + len] = 0;
                    if tail > 0 {
                        chars[n - 1] = 0;
                    }
                    let b = Block { trans: vec![(0, 1)], types: vec![(0, 0, idx as u8), (3600, 1, idx as u8)], chars, ..Default::default() };
                    let f1 = tzif::file(0, &b, None, None);
                    check_file(&f1, "designation position (v1)", rec, "designations", &mut tl);
                    let small = Block { types: vec![(0, 0, 0)], chars: b"UTC\0".to_vec(), ..Default::default() };
                    let f2 = tzif::file(b'2', &small, Some(&b), Some(b""));
                    check_file(&f2, "designation position (v2)", rec, "designations", &mut tl);
                }
            }
            tl
        })
        .reduce(Tally::default, Tally::merge);
    rec.sub("designations", json!({"files": t.evals, "accepted": t.accepted, "rejected": t.rejected}));
    t
}

/// header counts that violate the count rules while the block that follows is laid out exactly as those counts say (so that
/// only the count check itself can refuse the file), in the first and in the second header
fn sweep_header_counts(rec: &Recorder) -> Tally {
    // (isutcnt, isstdcnt, leapcnt, timecnt, typecnt, charcnt)
    let mut tuples: Vec<[u32; 6]> = vec![];
    for typ in 0..=3u32 {
        for chr in [0u32, 4] {
            for isut in 0..=4u32 {
                for isstd in 0..=4u32 {
                    for (leap, time) in [(0u32, 0u32), (1, 0), (0, 2)] {
                        tuples.push([isut, isstd, leap, time, typ, chr]);
                    }
                }
            }
        }
    }
    let raw = |version: u8, c: &[u32; 6], ts: usize| -> Vec<u8> {
        let mut v = vec![];
        v.extend_from_slice(b"TZif");
        v.push(version);
        v.extend_from_slice(&[0u8; 15]);
        for x in c {
            v.extend_from_slice(&x.to_be_bytes());
        }
        let (isut, isstd, leap, time, typ, chr) = (c[0] as usize, c[1] as usize, c[2] as usize, c[3] as usize, c[4] as usize, c[5] as usize);
        for k in 0..time {
            let t = 1000 * (k as i64 + 1);
            if ts == 8 {
                v.extend_from_slice(&t.to_be_bytes());
            } else {
                v.extend_from_slice(&(t as i32).to_be_bytes());
            }
        }
        v.extend(std::iter::repeat(0u8).take(time));
        for _ in 0..typ {
            v.extend_from_slice(&[0, 0, 0, 0, 0, 0]);
        }
        v.extend(b"UTC\0".iter().cycle().take(chr));
        for k in 0..leap {
            let t = 78_796_800i64 + k as i64 * 28 * 86400;
            if ts == 8 {
                v.extend_from_slice(&t.to_be_bytes());
            } else {
                v.extend_from_slice(&(t as i32).to_be_bytes());
            }
            v.extend_from_slice(&(k as i32 + 1).to_be_bytes());
        }
        v.extend(std::iter::repeat(0u8).take(isstd + isut));
        v
    };
    let good: [u32; 6] = [0, 0, 0, 0, 1, 4];
    let t = tuples
        .par_iter()
        .map(|c| {
            let mut tl = Tally::default();
            // v1 file
            check_file(&raw(0, c, 4), "header counts with matching layout (v1)", rec, "header_counts", &mut tl);
            for version in [b'2', b'3'] {
                // defect in the first header only
                let mut f = raw(version, c, 4);
                f.extend(raw(version, &good, 8));
                f.extend_from_slice(b"\nUTC0\n");
                check_file(&f, "first header counts with matching layout", rec, "header_counts", &mut tl);
                // defect in the second header only
                let mut f = raw(version, &good, 4);
                f.extend(raw(version, c, 8));
                f.extend_from_slice(b"\n\n");
                check_file(&f, "second header counts with matching layout", rec, "header_counts", &mut tl);
            }
            tl
        })
        .reduce(Tally::default, Tally::merge);
    rec.sub("header_counts", json!({"count_tuples": tuples.len(), "files": t.evals, "accepted": t.accepted, "rejected": t.rejected}));
    t
}

/// model-side evaluation: does the footer rule, evaluated at the last transition, give a different type than the last transition?
fn footer_disagrees_with_last_transition(bytes: &[u8]) -> bool {
    use refmodel::zone::{MRule, MType, MZone};
    let cyc = refmodel::cal::Cycle::build();
    let d = match tzif::decode(bytes) {
        Ok(d) => d,
        Err(_) => return false,
    };
    let foot = match &d.footer {
        Some(f) => trim_ascii_ws(f).to_vec(),
        None => return false,
    };
    let mk = |off: i64, dst: bool, name: &[u8]| MType::from_bytes(off as i32, dst, if name.is_empty() { None } else { Some(name) });
    let rule = match recognise(&foot, d.version == b'3').0 {
        Tz::Reject => return false,
        Tz::Fixed { name, utoff } => MRule::Fixed(mk(utoff, false, &name)),
        Tz::Alt { std_name, std_utoff, dst_name, dst_utoff, start, start_time, end, end_time } => MRule::alt(&cyc, refmodel::rule::RuleSpec { std_off: std_utoff, dst_off: dst_utoff, start, start_time, end, end_time }, mk(std_utoff, false, &std_name), mk(dst_utoff, true, &dst_name)),
    };
    let types: Vec<MType> = d.types.iter().map(|(o, dst, n)| mk(*o as i64, *dst, n)).collect();
    let z = MZone { trans: d.trans.clone(), types, leaps: d.leaps.clone(), rule: Some(rule) };
    match z.trans.last() {
        None => false,
        Some(&(t, i)) => match z.to_utc(t).and_then(|u| z.rule_type(&cyc, u).ok().copied()) {
            Some(ty) => ty != z.types[i],
            None => false,
        },
    }
}

/// every single-byte corruption (6 values at every offset) and every truncation of the corpus files: the implementation must
/// accept exactly what the independent reader + constructor accept, and decode the same zone
fn sweep_corpus_mutations(rec: &Recorder, thorough: bool) -> Tally {
    let mut seen = std::collections::BTreeSet::new();
    let mut files: Vec<(String, Vec<u8>)> = vec![];
    for sub in ["slim", "fat"] {
        for p in corpus_files(sub) {
            if let Ok(b) = std::fs::read(&p) {
                let mut f = Fnv::default();
                f.bytes(&b);
                if seen.insert(f.0) {
                    files.push((p.display().to_string(), b));
                }
            }
        }
    }
    let vals = [0u8, 1, 2, 0x7f, 0x80, 0xff];
    let t = files
        .par_iter()
        .enumerate()
        .map(|(i, (path, b))| {
            let mut tl = Tally::default();
            // quick: every slim file and every 4th fat file; thorough: every file
            let take = if thorough { true } else { path.contains("/slim/") || i % 4 == 0 };
            if !take {
                return tl;
            }
            // thorough: every byte value at every offset of every distinct corpus file
            let all: Vec<u8> = (0..=255u8).collect();
            let vals: &[u8] = if thorough { &all } else { &vals };
            let mut x = b.clone();
            for off in 0..b.len() {
                let orig = x[off];
                for &v in vals {
                    if v == orig {
                        continue;
                    }
                    x[off] = v;
                    tl.corrupt += 1;
                    check_file(&x, &format!("{path} with byte {off} = {v:#x}"), rec, "corpus_mutations", &mut tl);
                    if rec.saturated() {
                        return tl;
                    }
                }
                x[off] = orig;
            }
            for cut in 0..b.len() {
                tl.corrupt += 1;
                check_file(&b[..cut], &format!("{path} truncated to {cut}"), rec, "corpus_mutations", &mut tl);
            }
            tl
        })
        .reduce(Tally::default, Tally::merge);
    rec.sub("corpus_mutations", json!({"distinct_files": files.len(), "mutated_files_compared": t.evals, "accepted_mutants": t.accepted, "rejected_mutants": t.rejected}));
    t
}

/// large tables: RFC 8536 puts no bound on the 32-bit counts (beyond the data being present)
fn sweep_large(rec: &Recorder, thorough: bool) -> Tally {
    let mut tl = Tally::default();
    let mut rejected_names: Vec<String> = vec![];
    let sizes: Vec<(usize, usize, usize)> = if thorough {
        vec![(255, 1, 0), (256, 2, 0), (257, 3, 1), (1999, 2, 0), (2000, 2, 0), (2001, 2, 0), (5000, 2, 27), (70000, 2, 0), (3, 255, 0), (3, 256, 0), (3, 200, 49), (3, 2, 50), (3, 2, 51), (3, 2, 300), (300000, 3, 1000)]
    } else {
        vec![(255, 1, 0), (256, 2, 0), (257, 3, 1), (2000, 2, 0), (2001, 2, 27), (5000, 2, 0), (3, 255, 0), (3, 256, 0), (3, 257, 0), (3, 300, 0), (3, 512, 0), (3, 2, 50), (3, 2, 51), (3, 2, 300), (70000, 3, 100)]
    };
    // (timecnt, typecnt, leapcnt, index pattern): 0 = scattered, 1 = every index 0..min(typecnt, 256) in turn (a transition to
    // every type an octet can name, in particular to type 255 of a file with 256 or more types), 2 = the same from the top
    let mut sizes: Vec<(usize, usize, usize, u8)> = sizes.into_iter().map(|(a, b, c)| (a, b, c, 0u8)).collect();
    for typecnt in [1usize, 2, 3, 127, 128, 129, 254, 255, 256, 257, 258, 300, 511, 512, 513, 1000] {
        let reach = typecnt.min(256);
        sizes.push((reach, typecnt, 0, 1));
        sizes.push((reach + 3, typecnt, 1, 2));
    }
    for (timecnt, typecnt, leapcnt, pattern) in sizes {
        let mut b = Block::default();
        // designation pool: typecnt names of 3 characters, reusing the same few strings
        b.chars = b"AAA\0BBB\0CCC\0".to_vec();
        for k in 0..typecnt {
            b.types.push(((k as i32) * 60 - 3600, (k % 2) as u8, ((k % 3) * 4) as u8));
        }
        for k in 0..timecnt {
            let reach = typecnt.min(256);
            let idx = match pattern {
                0 => (k * 7 + 1) % reach,
                1 => k % reach,
                _ => reach - 1 - k % reach,
            };
            b.trans.push((if pattern == 0 { k as i64 * 15_552_000 - 1_000_000_000 } else { k as i64 * 1_000_000 - 300_000_000 }, idx as u8));
        }
        for k in 0..leapcnt {
            b.leaps.push((78_796_800 + k as i64 * 31_536_000, k as i32 + 1));
        }
        // with and without the two indicator vectors (their counts equal the type count, which may exceed one octet)
        let plain = b.clone();
        for (version, ind) in [(0u8, 0u8), (b'2', 0), (b'3', 0), (0, 1), (b'2', 1), (b'2', 2)] {
            let mut b = plain.clone();
            match ind {
                1 => {
                    b.isstd = vec![1; typecnt];
                    b.isut = (0..typecnt).map(|k| (k % 2) as u8).collect();
                }
                2 => b.isstd = (0..typecnt).map(|k| (k % 2) as u8).collect(),
                _ => {}
            }
            if version == 0 && (b.trans.iter().any(|&(t, _)| t > i32::MAX as i64 || t < i32::MIN as i64) || b.leaps.iter().any(|&(t, _)| t > i32::MAX as i64)) {
                continue;
            }
            let small = Block { types: vec![(0, 0, 0)], chars: b"UTC\0".to_vec(), ..Default::default() };
            let f = if version == 0 { tzif::file(0, &b, None, None) } else { tzif::file(version, &small, Some(&b), Some(b"")) };
            let before = tl.rejected;
            check_file(&f, &format!("large: timecnt={timecnt} typecnt={typecnt} leapcnt={leapcnt} version={version} indicators={ind} index_pattern={pattern}"), rec, "large_tables", &mut tl);
            if tl.rejected > before {
                rejected_names.push(format!("timecnt={timecnt} typecnt={typecnt} leapcnt={leapcnt} version={version}: {:?}", tzif::decode(&f).map(|d| expected_zone(&d).is_some())));
            }
        }
    }
    // every large well-formed file must have been ACCEPTED (the model and the implementation agreeing on a rejection is not enough)
    if tl.rejected > 0 {
        rec.violation("large_tables", json!({"kind":"large"}), json!("well-formed files with large tables are decoded"), json!(format!("{} of {} rejected by both the independent reader/constructor and the implementation: {:?}", tl.rejected, tl.evals, rejected_names)));
    }
    rec.sub("large_tables", json!({"files": tl.evals, "accepted": tl.accepted}));
    tl
}

fn sweep_corpus(rec: &Recorder) -> Tally {
    let mut files = corpus_files("fat");
    files.extend(corpus_files("slim"));
    let t = files
        .par_iter()
        .map(|p| {
            let mut tl = Tally::default();
            if let Ok(b) = std::fs::read(p) {
                let ok = check_file(&b, &p.display().to_string(), rec, "corpus", &mut tl);
                let _ = ok;
                // every real file must be accepted - unless the file itself breaks RFC 8536 3.3 ("the TZ string MUST be
                // consistent with the last transition"), which the zone constructor refuses by design (C13)
                if tl.accepted == 0 && tl.evals > 0 && !rec.saturated() && footer_disagrees_with_last_transition(&b) {
                    tl.rejected = 0;
                    tl.corrupt += 1; // counted as: inconsistent corpus file
                } else if tl.accepted == 0 && tl.evals > 0 && !rec.saturated() {
                    rec.violation("corpus", json!({"kind":"path","path":p.display().to_string()}), json!("accepted (IANA file)"), json!("rejected by implementation and model"));
                }
            }
            tl
        })
        .reduce(Tally::default, Tally::merge);
    rec.sub("corpus", json!({"files": files.len(), "accepted": t.accepted, "files_whose_footer_disagrees_with_their_last_transition_rfc8536_3_3": t.corrupt}));
    t
}

/// data that looks like structure: the 32-bit block of a v2+ file (which a reader skips by its header counts) starts with, or
/// contains, the magic, a whole header, or a whole other TZif file; the 32-bit block is absent although its header announces
/// one; the magic as the value of a transition time / offset / leap record / designation of either block
fn sweep_embedded_structure(rec: &Recorder) -> Tally {
    let mut tl = Tally::default();
    const MAGIC: i64 = 0x545A_6966; // "TZif"
    let other_v1 = Block { trans: vec![(86400, 1)], types: vec![(7200, 0, 0), (10800, 1, 4)], chars: b"EET\0EEST\0".to_vec(), ..Default::default() };
    let other_small = Block { types: vec![(0, 0, 0)], chars: b"UTC\0".to_vec(), ..Default::default() };
    let mut embeds: Vec<(String, Vec<u8>)> = vec![];
    for ver in [0u8, b'2', b'3'] {
        embeds.push((format!("magic + version {ver} + zeros"), { let mut v = b"TZif".to_vec(); v.push(ver); v.extend_from_slice(&[0; 39]); v }));
        embeds.push((format!("header of another file (version {ver})"), tzif::header(ver, &other_v1, &CountOverride::default())));
    }
    embeds.push(("magic only".into(), b"TZif\0\0\0".to_vec()));
    embeds.push(("a whole v1 file".into(), tzif::file(0, &other_v1, None, None)));
    embeds.push(("a whole v2 file".into(), tzif::file(b'2', &other_small, Some(&other_v1), Some(b"EET-2EEST,M3.5.0/3,M10.5.0/4"))));
    embeds.push(("a whole v3 file without footer text".into(), tzif::file(b'3', &other_small, Some(&other_v1), Some(b""))));
    let mains: Vec<(Block, &[u8])> = vec![
        (Block { types: vec![(3600, 0, 0)], chars: b"CET\0".to_vec(), ..Default::default() }, b"CET-1"),
        (Block { trans: vec![(0, 1), (1000, 0)], types: vec![(-18000, 0, 0), (-14400, 1, 4)], chars: b"EST\0EDT\0".to_vec(), ..Default::default() }, b"EST5EDT,M3.2.0,M11.1.0"),
        (Block { trans: vec![(MAGIC, 1)], types: vec![(0, 0, 0), (MAGIC as i32, 0, 4)], chars: b"UTC\0TZif\0".to_vec(), leaps: vec![(MAGIC + (1 << 33), 1)], ..Default::default() }, b""),
    ];
    for (main, footer) in &mains {
        for ver in [b'2', b'3', b'4'] {
            // well-formed 32-bit blocks whose first octets are the magic
            let firsts = [
                Block { trans: vec![(MAGIC, 0)], types: vec![(0, 0, 0)], chars: b"UTC\0".to_vec(), ..Default::default() },
                Block { types: vec![(MAGIC as i32, 0, 0)], chars: b"UTC\0".to_vec(), ..Default::default() },
                Block { trans: vec![(5, 0), (MAGIC, 0)], types: vec![(0, 0, 0)], chars: b"TZif\0".to_vec(), leaps: vec![(MAGIC, 1)], ..Default::default() },
            ];
            for b1 in &firsts {
                check_file(&tzif::file(ver, b1, Some(main), Some(footer)), "32-bit block holding the magic as a value", rec, "embedded_structure", &mut tl);
            }
            // arbitrary octets in the skipped block: one local time type record + a designation pool hold the embedded octets
            for (what, e) in &embeds {
                for prefix in [0usize, 1, 2, 4, 6, 8, 44] {
                    let mut raw = vec![0u8; prefix];
                    raw.extend_from_slice(e);
                    while raw.len() < 7 {
                        raw.push(0);
                    }
                    let b1 = Block { types: vec![(i32::from_be_bytes([raw[0], raw[1], raw[2], raw[3]]), raw[4], raw[5])], chars: raw[6..].to_vec(), ..Default::default() };
                    debug_assert_eq!(tzif::body(&b1, false), raw);
                    let f = tzif::file(ver, &b1, Some(main), Some(footer));
                    check_file(&f, &format!("32-bit block = {prefix} zero octets + {what}"), rec, "embedded_structure", &mut tl);
                    tl.corrupt += 1;
                }
            }
            // the 32-bit block is missing although the first header announces it (and with a first header announcing nothing)
            for h1 in [tzif::header(ver, &other_v1, &CountOverride::default()), tzif::header(ver, &Block::default(), &CountOverride::default())] {
                let mut f = h1;
                f.extend_from_slice(&tzif::header(ver, main, &CountOverride::default()));
                f.extend_from_slice(&tzif::body(main, true));
                f.push(b'\n');
                f.extend_from_slice(footer);
                f.push(b'\n');
                check_file(&f, "first header directly followed by the second header", rec, "embedded_structure", &mut tl);
                tl.corrupt += 1;
            }
        }
    }
    rec.sub("embedded_structure", json!({"files": tl.evals, "accepted": tl.accepted, "rejected": tl.rejected}));
    tl
}

pub fn run(args: &Args) -> i32 {
    let rec = Recorder::new(args, "exploration");
    let thorough = args.thorough();
    let mut total = sweep_synth(&rec, thorough);
    total = total.merge(sweep_corpus(&rec));
    total = total.merge(sweep_large(&rec, thorough));
    total = total.merge(sweep_corpus_mutations(&rec, thorough));
    total = total.merge(sweep_designations(&rec));
    total = total.merge(sweep_leap_fields(&rec));
    total = total.merge(sweep_header_counts(&rec));
    total = total.merge(sweep_embedded_structure(&rec));
    rec.add(total.evals, total.corrupt);
    rec.digest("tzif", total.digest);
    rec.set_rule("writer side: zones over {0,1,3} transitions x {1,2,3} types x {0,1,2} leap records x 4 designation pools (shared / overlapping / empty / unterminated tail) x 4 indicator layouts x 4 time sets (32/64-bit extremes) x footers, encoded v1/v2/v3 by an independent writer with a DIFFERENT zone in the 32-bit block of v2+ files; decoded zone must equal TimeZone::new(expected parts). reader side: every file of the fat and slim corpora decoded by an independent reader; corpus mutations (6 byte values at every offset and every truncation of every slim and a quarter of the fat files; thorough: all 256 values at every offset of every distinct file) must get the same accept/reject verdict and zone as the independent reader. reject side: every corruption class of the property on the synthesised files; header count tuples (0..=4 indicators, 0..=3 types, 0/4 chars) with a block laid out to match, in either header; every designation index 0..=255 x length 0..=8 x 3 pool tails; different version bytes in the two headers; 32-bit blocks that start with or contain the magic, a header or a whole other file, and files whose 32-bit block is missing. non-trivial = corrupted files");
    rec.set_exhaustive(true);
    rec.outcome("accepted");
    rec.outcome("rejected");
    let files = corpus_files("slim");
    if !files.is_empty() {
        let p = &files[(args.seed as usize * 37) % files.len()];
        let b = std::fs::read(p).unwrap_or_default();
        rec.sample(json!({"corpus_file": p.display().to_string(), "bytes": b.len(), "model_decode": tzif::decode(&b).map(|d| format!("v{} {} transitions, {} types, footer {:?}", d.version as char, d.trans.len(), d.types.len(), d.footer.map(|f| String::from_utf8_lossy(&f).to_string()))).unwrap_or_else(|e| e)}));
    }
    rec.finish()
}

pub fn replay(case: &Value, args: &Args) -> i32 {
    let rec = Recorder::new(args, "exploration");
    let mut tl = Tally::default();
    let bytes = match case["kind"].as_str().unwrap_or("") {
        "file" => unhex(case["bytes_hex"].as_str().unwrap()),
        "path" => std::fs::read(case["path"].as_str().unwrap()).unwrap_or_default(),
        _ => return 2,
    };
    let what = case["what"].as_str().unwrap_or("");
    for _ in 0..2 {
        if what.starts_with("corruption") {
            let got = guard(|| TimeZone::from_tz_data(&bytes).map(|_| ()).map_err(|e| format!("{e:?}")));
            println!("{what}: implementation -> {got:?}; independent reader -> {:?}", tzif::decode(&bytes).map(|_| "well-formed"));
            if !matches!(got, Ok(Err(_))) {
                rec.violation("replay", case.clone(), json!("rejected"), json!(format!("{got:?}")));
            }
        } else {
            check_file(&bytes, what, &rec, "replay", &mut tl);
        }
    }
    if rec.viol_count.load(std::sync::atomic::Ordering::Relaxed) > 0 {
        println!("REPLAY: violation reproduced");
        1
    } else {
        println!("REPLAY: case passes (for error-kind mismatches re-run ./check C08 quick)");
        0
    }
}
