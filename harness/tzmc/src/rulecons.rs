//! Engine `rulecons`: C11 AlternateTime::new accepts exactly the rules whose start/end order never flips.

use crate::common::*;
use crate::conv::*;
use crate::rulealpha::*;
use rayon::prelude::*;
use refmodel::cal::Cycle;
use refmodel::rule::{Day, RuleSpec, Timeline};
use refmodel::zone::MType;
use serde_json::{json, Value};
use tz::error::timezone::TransitionRuleError;
use tz::timezone::{AlternateTime, LocalTimeType};

const WEEK: i64 = 7 * D;
const OFF_LO: i64 = -25 * H; // exclusive
const OFF_HI: i64 = 26 * H; // exclusive

#[derive(Default, Clone, Copy)]
struct Tally {
    evals: u64,
    accepted: u64,
    refused: u64,
    cross: u64,
    digest: u64,
    boundary: u64,
}
impl Tally {
    fn merge(mut self, o: Tally) -> Tally {
        self.evals += o.evals;
        self.accepted += o.accepted;
        self.refused += o.refused;
        self.cross += o.cross;
        self.digest = self.digest.wrapping_add(o.digest);
        self.boundary += o.boundary;
        self
    }
}

/// realise a difference d = (st - std) - (et - dst) as (st, et, std, dst) in `variant` different ways
fn realise(d: i64, variant: u8) -> Option<(i64, i64, i64, i64)> {
    let tmax = WEEK - 1;
    let clamp = |x: i64, m: i64| x.max(-m).min(m);
    let (st, et, std, dst) = match variant {
        0 => {
            // times first, offsets take the rest
            let st = clamp(d, tmax);
            let et = -clamp(d - st, tmax);
            let rest = d - st + et; // = dst - std
            (st, et, 0, rest)
        }
        1 => {
            // offsets first (asymmetric window), times take the rest evenly
            let od = d.max(OFF_LO + 1 - (OFF_HI - 1)).min(OFF_HI - 1 - (OFF_LO + 1));
            let (std, dst) = if od >= 0 { (OFF_HI - 1 - od, OFF_HI - 1) } else { (OFF_HI - 1, OFF_HI - 1 + od) };
            let rest = d - od;
            let st = rest / 2;
            let et = st - rest;
            (st, et, std, dst)
        }
        2 => {
            // end time at its extreme, start compensates, then offsets
            let et = if d >= 0 { -tmax } else { tmax };
            let st = clamp(d + et, tmax);
            let rest = d - st + et;
            (st, et, -rest, 0)
        }
        3 => {
            // both offsets negative extremes region
            let std = OFF_LO + 1;
            let mut dst = OFF_LO + 1;
            let mut rest = d; // st - et + (dst - std)
            if rest > 2 * tmax {
                dst += rest - 2 * tmax;
                rest = 2 * tmax;
            } else if rest < -2 * tmax {
                return None; // dst cannot go below the window here
            }
            let st = clamp(rest, tmax);
            let et = st - rest;
            (st, et, std, dst)
        }
        4 => {
            // unbalanced split 1/3 : 2/3 with a fixed one-hour DST shift
            let rest = d - H;
            let st = clamp(rest / 3, tmax);
            let et = st - rest;
            (st, et, 0, H)
        }
        5 => {
            // both times positive and at least one day (whole days common to both times), no offsets
            let et = if d >= 0 { 2 * D } else { 2 * D - d };
            (et + d, et, 0, 0)
        }
        6 => {
            // both times negative and at most minus one day
            let et = if d <= 0 { -2 * D } else { -2 * D - d };
            (et + d, et, 0, 0)
        }
        _ => {
            // both times beyond three days with a half-hour DST shift
            let et = if d >= 0 { 3 * D + 1800 } else { 3 * D + 1800 - d };
            (et + d - 1800, et, 0, 1800)
        }
    };
    let ok = st.abs() < WEEK && et.abs() < WEEK && std > OFF_LO && std < OFF_HI && dst > OFF_LO && dst < OFF_HI && (st - std) - (et - dst) == d;
    if ok {
        Some((st, et, std, dst))
    } else {
        None
    }
}

fn d_values() -> Vec<i64> {
    let mut v = vec![];
    for k in -17..=17i64 {
        for e in [-1i64, 0, 1] {
            let d = k * D + e;
            if d.abs() <= 16 * D + 3 * H {
                v.push(d);
            }
        }
    }
    v
}

fn mk(off: i64, dst: bool) -> LocalTimeType {
    LocalTimeType::new(off as i32, dst, Some(if dst { b"BBB" } else { b"AAA" })).unwrap()
}

pub fn run(args: &Args) -> i32 {
    let rec = Recorder::new(args, "exploration");
    let cyc = Cycle::build();
    let tabs = Tables::build(&cyc);
    let thorough = args.thorough();
    let dvals = d_values();
    let nvar: u8 = if args.digest_mode { 1 } else if thorough { 5 } else { 2 };
    let mut variants: Vec<(u8, bool, bool)> = (0..nvar).map(|v| (v, false, true)).collect();
    if !args.digest_mode {
        // same-sign times of at least one day; the DST flags of the two types in every combination
        variants.extend([(5, false, true), (6, false, true), (7, false, true), (0, true, false), (0, true, true), (0, false, false), (4, true, false)]);
    }
    let days = tabs.days.clone();
    let nd = days.len();
    let impl_days: Vec<_> = days.iter().map(|&d| rule_day(d)).collect();
    let unrealisable = std::sync::atomic::AtomicU64::new(0);
    let total = (0..nd)
        .into_par_iter()
        .map(|i| {
            let mut tl = Tally::default();
            let r = guard(|| {
                let mut tl = Tally::default();
                let ts = &tabs.tabs[i];
                for j in 0..nd {
                    let te = &tabs.tabs[j];
                    // day-number differences over the window (brute force over all years of the window)
                    let (mut a0, mut a1, mut b0, mut b1, mut c0, mut c1) = (i64::MAX, i64::MIN, i64::MAX, i64::MIN, i64::MAX, i64::MIN);
                    for k in 0..NYEARS - 1 {
                        let a = ts.days[k] - te.days[k];
                        let b = te.days[k] - ts.days[k + 1];
                        let c = ts.days[k] - te.days[k + 1];
                        a0 = a0.min(a);
                        a1 = a1.max(a);
                        b0 = b0.min(b);
                        b1 = b1.max(b);
                        c0 = c0.min(c);
                        c1 = c1.max(c);
                    }
                    for (di, &d) in dvals.iter().enumerate() {
                        // A(y) = dayA*86400 + d ; B(y) = dayB*86400 - d ; C(y) = dayC*86400 + d
                        let flip_a = a0 * D + d < 0 && a1 * D + d > 0;
                        let flip_b = b0 * D - d < 0 && b1 * D - d > 0;
                        let flip_c = c0 * D + d < 0 && c1 * D + d > 0;
                        let exp = !(flip_a || flip_b || flip_c);
                        // is this decision at a breakpoint (neighbouring d decides differently)?
                        // (variant, is_dst flag of the standard type, of the daylight type): the decision depends on d only
                        for &(v, fs, fd) in variants.iter() {
                            let (st, et, std, dst) = match realise(d, v) {
                                Some(x) => x,
                                None => {
                                    unrealisable.fetch_add(1, std::sync::atomic::Ordering::Relaxed);
                                    continue;
                                }
                            };
                            tl.evals += 1;
                            let got = AlternateTime::new(mk(std, fs), mk(dst, fd), impl_days[i], st as i32, impl_days[j], et as i32);
                            let acc = match &got {
                                Ok(_) => true,
                                Err(TransitionRuleError::InconsistentRule) => false,
                                Err(e) => {
                                    rec.violation("decisions", json!({"kind":"cons","start":days[i].text(),"end":days[j].text(),"st":st,"et":et,"std":std,"dst":dst,"std_is_dst":fs,"dst_is_dst":fd}), json!(if exp {"Ok"} else {"InconsistentRule"}), json!(format!("{e:?}")));
                                    continue;
                                }
                            };
                            if acc {
                                tl.accepted += 1;
                            } else {
                                tl.refused += 1;
                            }
                            tl.digest = tl.digest.wrapping_add(((i * nd + j) as u64).wrapping_mul(131).wrapping_add(di as u64) * (acc as u64 + 1));
                            if acc != exp {
                                rec.violation("decisions", json!({"kind":"cons","start":days[i].text(),"end":days[j].text(),"st":st,"et":et,"std":std,"dst":dst,"std_is_dst":fs,"dst_is_dst":fd}), json!({"accept": exp, "d": d, "flip_A": flip_a, "flip_B": flip_b, "flip_C": flip_c}), json!({"accept": acc}));
                            }
                        }
                        // cross-check the factorised oracle against the plain 400-year definition on a subset
                        if (i * 31 + j * 17 + di) % 211 == 0 {
                            if let Some((st, et, std, dst)) = realise(d, 0) {
                                let r = RuleSpec { std_off: std, dst_off: dst, start: days[i], start_time: st, end: days[j], end_time: et };
                                let line = Timeline::from_tables(&r, ts, te);
                                assert_eq!(line.no_flip(), exp, "model self-check: factorised oracle != brute-force definition for {r:?}");
                                tl.cross += 1;
                            }
                        }
                    }
                }
                tl
            });
            match r {
                Ok(t) => tl = tl.merge(t),
                Err(m) => rec.violation("decisions", json!({"kind":"row","start":days[i].text()}), json!("no panic"), json!(m)),
            }
            tl
        })
        .reduce(Tally::default, Tally::merge);
    rec.sub("decisions", json!({"day_pairs": nd * nd, "d_values": dvals.len(), "realisations_per_d": variants.len(), "evaluations": total.evals, "accepted": total.accepted, "refused": total.refused, "oracle_cross_checked_against_plain_definition": total.cross, "unrealisable_d_variant_combinations": unrealisable.load(std::sync::atomic::Ordering::Relaxed)}));

    // window clauses
    let mut wn = 0u64;
    let offs = [OFF_LO - 1, OFF_LO, OFF_LO + 1, 0, OFF_HI - 1, OFF_HI, OFF_HI + 1, i32::MIN as i64 + 1, i32::MAX as i64];
    let tms = [-WEEK - 1, -WEEK, -WEEK + 1, 0, 7200, WEEK - 1, WEEK, WEEK + 1, i32::MIN as i64, i32::MAX as i64];
    let pairs = [(Day::M(3, 2, 0), Day::M(11, 1, 0)), (Day::J(1), Day::J(365)), (Day::Z(100), Day::M(10, 5, 0))];
    for &(sd, ed) in &pairs {
        for &std in &offs {
            for &dst in &offs {
                for &st in &tms {
                    for &et in &tms {
                        wn += 1;
                        let mut defects = vec![];
                        if !(std > OFF_LO && std < OFF_HI) {
                            defects.push("InvalidStdUtcOffset");
                        }
                        if !(dst > OFF_LO && dst < OFF_HI) {
                            defects.push("InvalidDstUtcOffset");
                        }
                        if !(st.abs() < WEEK && et.abs() < WEEK) {
                            defects.push("InvalidDstStartEndTime");
                        }
                        // the DST flags of the two types rotate through the four combinations (the error kind names the argument
                        // position, not the flag)
                        let (fs, fd) = [(false, true), (true, false), (true, true), (false, false)][(wn % 4) as usize];
                        let got = guard(|| AlternateTime::new(mk(std, fs), mk(dst, fd), rule_day(sd), st as i32, rule_day(ed), et as i32));
                        let case = json!({"kind":"cons","start":sd.text(),"end":ed.text(),"st":st,"et":et,"std":std,"dst":dst,"std_is_dst":fs,"dst_is_dst":fd});
                        match got {
                            Err(m) => rec.violation("window", case, json!("no panic"), json!(m)),
                            Ok(Ok(_)) => {
                                let r = RuleSpec { std_off: std, dst_off: dst, start: sd, start_time: st, end: ed, end_time: et };
                                if !defects.is_empty() || !Timeline::from_tables(&r, tabs.tab(sd), tabs.tab(ed)).no_flip() {
                                    rec.violation("window", case, json!({"err_one_of": defects}), json!("Ok"));
                                }
                            }
                            Ok(Err(e)) => {
                                let name = format!("{e:?}");
                                if defects.is_empty() {
                                    let r = RuleSpec { std_off: std, dst_off: dst, start: sd, start_time: st, end: ed, end_time: et };
                                    let nf = Timeline::from_tables(&r, tabs.tab(sd), tabs.tab(ed)).no_flip();
                                    if nf || name != "InconsistentRule" {
                                        rec.violation("window", case, json!(if nf {"Ok"} else {"InconsistentRule"}), json!(name));
                                    }
                                } else if defects.len() == 1 {
                                    if name != defects[0] {
                                        rec.violation("window", case, json!(defects[0]), json!(name));
                                    }
                                } else if !defects.contains(&name.as_str()) {
                                    rec.violation("window", case, json!({"err_one_of": defects}), json!(name));
                                }
                            }
                        }
                    }
                }
            }
        }
    }
    rec.sub("window_clauses", json!({"evaluations": wn}));

    // every footer of the vendored IANA corpus denotes a rule that must be accepted (and does not flip by the model)
    let mut footers = std::collections::BTreeSet::new();
    for sub in ["fat", "slim"] {
        for p in crate::corpus::files(sub) {
            if let Ok(b) = std::fs::read(&p) {
                if let Ok(d) = refmodel::tzif::decode(&b) {
                    if let Some(f) = d.footer {
                        footers.insert((f, d.version == b'3'));
                    }
                }
            }
        }
    }
    let mut nf = 0u64;
    for (f, ext) in &footers {
        if let refmodel::tzstr::Tz::Alt { std_utoff, dst_utoff, start, start_time, end, end_time, .. } = refmodel::tzstr::recognise(refmodel::tzstr::trim_ascii_ws(f), *ext).0 {
            nf += 1;
            let r = RuleSpec { std_off: std_utoff, dst_off: dst_utoff, start, start_time, end, end_time };
            let got = AlternateTime::new(mk(std_utoff, false), mk(dst_utoff, true), rule_day(start), start_time as i32, rule_day(end), end_time as i32);
            let model = Timeline::build(&cyc, &r, 2000, 402).no_flip();
            if got.is_err() || !model {
                rec.violation("iana_footers", json!({"kind":"cons","start":start.text(),"end":end.text(),"st":start_time,"et":end_time,"std":std_utoff,"dst":dst_utoff}), json!({"accept": true, "model_no_flip": model, "footer": String::from_utf8_lossy(f)}), json!(format!("{got:?}")));
            }
        }
    }
    rec.sub("iana_footers", json!({"distinct_footers": footers.len(), "dst_rules_checked": nf}));

    // count decisions at breakpoints (non-trivial): decisions whose d is a multiple of 86400 +-1 where the three
    // neighbouring d values do not all decide alike is measured as (accepted, refused both present per pair) - we report the
    // number of (pair, d) with refusal, and of pairs having both outcomes, conservatively the smaller of accepted/refused
    let nontrivial = total.accepted.min(total.refused);
    rec.add(total.evals + wn, nontrivial);
    rec.digest("rulecons", total.digest);
    rec.set_rule("every (start day, end day) pair over all 1151 notations x every d = k*86400+{-1,0,1} with |d|<=16d3h realisable inside the time/offset windows, each d realised in 2 (quick) / 5 (thorough) different (start time, end time, std, dst) splits, plus three splits with both times on the same side of zero and at least a day, plus the four combinations of the two types' DST flags; oracle = no sign flip of S(y)-E(y), E(y)-S(y+1), S(y)-E(y+1) over 409 consecutive model years (weak-inequality reading, I2). non-trivial = min(accepted, refused) decisions, i.e. the decisions on the minority side");
    rec.set_exhaustive(true);
    rec.outcome("Ok");
    rec.outcome("InconsistentRule");
    rec.outcome("InvalidStdUtcOffset");
    rec.outcome("InvalidDstUtcOffset");
    rec.outcome("InvalidDstStartEndTime");
    let i = (args.seed as usize * 7919 + 5) % nd;
    let j = (args.seed as usize * 104729 + 77) % nd;
    for d in [0i64, D, -D - 1] {
        if let Some((st, et, std, dst)) = realise(d, 1) {
            let got = AlternateTime::new(mk(std, false), mk(dst, true), impl_days[i], st as i32, impl_days[j], et as i32).is_ok();
            rec.sample(json!({"start": days[i].text(), "end": days[j].text(), "d": d, "st": st, "et": et, "std": std, "dst": dst, "accepted": got}));
        }
    }
    let _ = MType::new(0, false, None);
    rec.finish()
}

pub fn replay(case: &Value, args: &Args) -> i32 {
    let _ = args;
    let cyc = Cycle::build();
    if case["kind"] != "cons" {
        return 2;
    }
    let sd = day_from_json(&case["start"]);
    let ed = day_from_json(&case["end"]);
    let g = |k: &str| case[k].as_i64().unwrap();
    let r = RuleSpec { std_off: g("std"), dst_off: g("dst"), start: sd, start_time: g("st"), end: ed, end_time: g("et") };
    let window_ok = r.std_off > OFF_LO && r.std_off < OFF_HI && r.dst_off > OFF_LO && r.dst_off < OFF_HI && r.start_time.abs() < WEEK && r.end_time.abs() < WEEK;
    let exp = window_ok && Timeline::build(&cyc, &r, 2000, 402).no_flip();
    let mut bad = false;
    for _ in 0..2 {
        let (fs, fd) = (case["std_is_dst"].as_bool().unwrap_or(false), case["dst_is_dst"].as_bool().unwrap_or(true));
        let got = guard(|| AlternateTime::new(mk(r.std_off, fs), mk(r.dst_off, fd), rule_day(sd), r.start_time as i32, rule_day(ed), r.end_time as i32).map(|_| ()));
        println!("model accept={exp} impl={got:?}");
        if !matches!(&got, Ok(x) if x.is_ok() == exp) {
            bad = true;
        }
    }
    if bad {
        println!("REPLAY: violation reproduced");
        1
    } else {
        println!("REPLAY: case passes");
        0
    }
}
