//! Engine `hist`: C15 history independence, global-write / interior-mutability / environment-read monitors.
//!
//! The subject exposes no state, so the explored object is the tree of operation histories (no deduplication): every
//! sequence of <= 3 operations over a collision-prone alphabet is executed in one process and after every operation
//! the result digest must equal the digest the operation produces when run alone in a fresh process.
//! Around every operation three monitors are evaluated:
//!   * global-write monitor: writable segments of the executable (.data/.bss) and the executable's TLS block
//!     are snapshotted before and after the call; any changed byte is a violation;
//!   * bitwise immutability: raw bytes of every shared value (zones, their slices, rules, settings) are unchanged;
//!   * environment-read monitor: calls to getenv (interposed) inside the window.

use crate::common::*;
use crate::tzstr::footer_file;
use serde_json::{json, Value};
use std::collections::BTreeMap;
use std::sync::atomic::{AtomicU64, Ordering};
use tz::timezone::{AlternateTime, LocalTimeType, MonthWeekDay, RuleDay, Transition, TransitionRule};
use tz::{DateTime, TimeZone, TimeZoneSettings, UtcDateTime};

// ------------------------------------------------------------------------------------------ getenv interposition

pub static GETENV_CALLS: AtomicU64 = AtomicU64::new(0);

/// The executable's definition of `getenv` takes precedence over libc's for every caller that goes through the PLT /
/// static std (std::env::var calls it exactly once). Forwards to the real one.
#[no_mangle]
pub unsafe extern "C" fn getenv(name: *const libc::c_char) -> *mut libc::c_char {
    GETENV_CALLS.fetch_add(1, Ordering::Relaxed);
    type F = unsafe extern "C" fn(*const libc::c_char) -> *mut libc::c_char;
    static REAL: AtomicU64 = AtomicU64::new(0);
    let mut p = REAL.load(Ordering::Relaxed);
    if p == 0 {
        p = libc::dlsym(libc::RTLD_NEXT, b"getenv\0".as_ptr() as *const libc::c_char) as u64;
        REAL.store(p, Ordering::Relaxed);
    }
    if p == 0 {
        return std::ptr::null_mut();
    }
    let f: F = std::mem::transmute(p as usize);
    f(name)
}

// ------------------------------------------------------------------------------------------ clock interposition

/// reads of the system clock (process-global mutable state): allowed only inside `now()` / `find_current_local_time_type`
pub static CLOCK_READS: AtomicU64 = AtomicU64::new(0);
static REAL_CLOCK_GETTIME: AtomicU64 = AtomicU64::new(0);
static REAL_GETTIMEOFDAY: AtomicU64 = AtomicU64::new(0);
static REAL_TIME: AtomicU64 = AtomicU64::new(0);

/// the environment's answer to "what time is it" is owned by the harness when this is set: CLOCK_REALTIME then reads
/// FAKE_SEC + FAKE_NSEC (used by the clock-route sweeps; process-wide, so only set while no other sweep runs)
static FAKE_CLOCK_ON: AtomicU64 = AtomicU64::new(0);
static FAKE_SEC: AtomicU64 = AtomicU64::new(0);
static FAKE_NSEC: AtomicU64 = AtomicU64::new(0);

pub fn set_fake_clock(v: Option<(i64, u32)>) {
    match v {
        Some((s, n)) => {
            FAKE_SEC.store(s as u64, Ordering::SeqCst);
            FAKE_NSEC.store(n as u64, Ordering::SeqCst);
            FAKE_CLOCK_ON.store(1, Ordering::SeqCst);
        }
        None => FAKE_CLOCK_ON.store(0, Ordering::SeqCst),
    }
}

#[no_mangle]
pub unsafe extern "C" fn clock_gettime(clk: libc::clockid_t, ts: *mut libc::timespec) -> libc::c_int {
    CLOCK_READS.fetch_add(1, Ordering::Relaxed);
    if clk == libc::CLOCK_REALTIME && FAKE_CLOCK_ON.load(Ordering::SeqCst) == 1 && !ts.is_null() {
        (*ts).tv_sec = FAKE_SEC.load(Ordering::SeqCst) as i64 as libc::time_t;
        (*ts).tv_nsec = FAKE_NSEC.load(Ordering::SeqCst) as libc::c_long;
        return 0;
    }
    type F = unsafe extern "C" fn(libc::clockid_t, *mut libc::timespec) -> libc::c_int;
    let p = real(b"clock_gettime\0", &REAL_CLOCK_GETTIME);
    if p == 0 {
        return -1;
    }
    let f: F = std::mem::transmute(p as usize);
    f(clk, ts)
}

#[no_mangle]
pub unsafe extern "C" fn gettimeofday(tv: *mut libc::timeval, tz: *mut libc::c_void) -> libc::c_int {
    CLOCK_READS.fetch_add(1, Ordering::Relaxed);
    type F = unsafe extern "C" fn(*mut libc::timeval, *mut libc::c_void) -> libc::c_int;
    let p = real(b"gettimeofday\0", &REAL_GETTIMEOFDAY);
    if p == 0 {
        return -1;
    }
    let f: F = std::mem::transmute(p as usize);
    f(tv, tz)
}

#[no_mangle]
pub unsafe extern "C" fn time(t: *mut libc::time_t) -> libc::time_t {
    CLOCK_READS.fetch_add(1, Ordering::Relaxed);
    type F = unsafe extern "C" fn(*mut libc::time_t) -> libc::time_t;
    let p = real(b"time\0", &REAL_TIME);
    if p == 0 {
        return -1;
    }
    let f: F = std::mem::transmute(p as usize);
    f(t)
}

// ------------------------------------------------------------------------------------------ open interposition

/// number of files opened through a RELATIVE path (such a lookup depends on the process-wide current directory)
pub static RELATIVE_OPENS: AtomicU64 = AtomicU64::new(0);
pub static ALL_OPENS: AtomicU64 = AtomicU64::new(0);

static REAL_OPEN64: AtomicU64 = AtomicU64::new(0);
static REAL_OPEN: AtomicU64 = AtomicU64::new(0);
static REAL_OPENAT: AtomicU64 = AtomicU64::new(0);
static REAL_OPENAT64: AtomicU64 = AtomicU64::new(0);

/// the harness' own interposition state lives in the executable's .data/.bss: resolved up front and excluded from the
/// global-write monitor (judged separately)
pub fn monitor_excludes() -> Vec<(usize, usize)> {
    unsafe {
        real(b"open64\0", &REAL_OPEN64);
        real(b"open\0", &REAL_OPEN);
        real(b"openat\0", &REAL_OPENAT);
        real(b"openat64\0", &REAL_OPENAT64);
    }
    let a = |x: &AtomicU64| (x as *const AtomicU64 as usize, 8usize);
    unsafe {
        real(b"write\0", &REAL_WRITE);
        real(b"flock\0", &REAL_FLOCK);
        real(b"writev\0", &REAL_WRITEV);
        real(b"clock_gettime\0", &REAL_CLOCK_GETTIME);
        real(b"gettimeofday\0", &REAL_GETTIMEOFDAY);
        real(b"time\0", &REAL_TIME);
    }
    let mut v = process_state_excludes();
    v.extend(vec![a(&GETENV_CALLS), a(&RELATIVE_OPENS), a(&ALL_OPENS), a(&REAL_OPEN64), a(&REAL_OPEN), a(&REAL_OPENAT), a(&REAL_OPENAT64), a(&STD_STREAM_WRITES), a(&REAL_WRITE), a(&REAL_WRITEV), a(&FILE_LOCK_CALLS), a(&REAL_FLOCK), a(&MID_PROBE), a(&MID_CHANGES), a(&MID_PROBES), a(&CLOCK_READS), a(&FAKE_CLOCK_ON), a(&FAKE_SEC), a(&FAKE_NSEC), a(&REAL_CLOCK_GETTIME), a(&REAL_GETTIMEOFDAY), a(&REAL_TIME)]);
    v
}

unsafe fn note_open_flags(flags: libc::c_int) {
    if (flags & libc::O_ACCMODE) != libc::O_RDONLY || flags & (libc::O_CREAT | libc::O_TRUNC | libc::O_APPEND) != 0 {
        FS_MUTATIONS.fetch_add(1, Ordering::Relaxed);
    }
}

unsafe fn note_open(path: *const libc::c_char) {
    ALL_OPENS.fetch_add(1, Ordering::Relaxed);
    if !path.is_null() && *path != b'/' as libc::c_char {
        RELATIVE_OPENS.fetch_add(1, Ordering::Relaxed);
    }
}

unsafe fn real(name: &[u8], slot: &AtomicU64) -> usize {
    let mut p = slot.load(Ordering::Relaxed);
    if p == 0 {
        p = libc::dlsym(libc::RTLD_NEXT, name.as_ptr() as *const libc::c_char) as u64;
        slot.store(p, Ordering::Relaxed);
    }
    p as usize
}

#[no_mangle]
pub unsafe extern "C" fn open64(path: *const libc::c_char, flags: libc::c_int, mode: libc::mode_t) -> libc::c_int {
    note_open(path);
    note_open_flags(flags);
    type F = unsafe extern "C" fn(*const libc::c_char, libc::c_int, libc::mode_t) -> libc::c_int;
    let p = real(b"open64\0", &REAL_OPEN64);
    if p == 0 {
        return -1;
    }
    let f: F = std::mem::transmute(p);
    f(path, flags, mode)
}

#[no_mangle]
pub unsafe extern "C" fn open(path: *const libc::c_char, flags: libc::c_int, mode: libc::mode_t) -> libc::c_int {
    note_open(path);
    note_open_flags(flags);
    type F = unsafe extern "C" fn(*const libc::c_char, libc::c_int, libc::mode_t) -> libc::c_int;
    let p = real(b"open\0", &REAL_OPEN);
    if p == 0 {
        return -1;
    }
    let f: F = std::mem::transmute(p);
    f(path, flags, mode)
}

#[no_mangle]
pub unsafe extern "C" fn openat(dirfd: libc::c_int, path: *const libc::c_char, flags: libc::c_int, mode: libc::mode_t) -> libc::c_int {
    if dirfd == libc::AT_FDCWD {
        note_open(path);
    }
    note_open_flags(flags);
    type F = unsafe extern "C" fn(libc::c_int, *const libc::c_char, libc::c_int, libc::mode_t) -> libc::c_int;
    let p = real(b"openat\0", &REAL_OPENAT);
    if p == 0 {
        return -1;
    }
    let f: F = std::mem::transmute(p);
    f(dirfd, path, flags, mode)
}

#[no_mangle]
pub unsafe extern "C" fn openat64(dirfd: libc::c_int, path: *const libc::c_char, flags: libc::c_int, mode: libc::mode_t) -> libc::c_int {
    if dirfd == libc::AT_FDCWD {
        note_open(path);
    }
    note_open_flags(flags);
    type F = unsafe extern "C" fn(libc::c_int, *const libc::c_char, libc::c_int, libc::mode_t) -> libc::c_int;
    let p = real(b"openat64\0", &REAL_OPENAT64);
    if p == 0 {
        return -1;
    }
    let f: F = std::mem::transmute(p);
    f(dirfd, path, flags, mode)
}

/// number of write(2)/writev(2) calls on the standard streams (a library that prints uses process-wide streams and their lock)
pub static STD_STREAM_WRITES: AtomicU64 = AtomicU64::new(0);
static REAL_WRITE: AtomicU64 = AtomicU64::new(0);
static REAL_WRITEV: AtomicU64 = AtomicU64::new(0);

#[no_mangle]
pub unsafe extern "C" fn write(fd: libc::c_int, buf: *const libc::c_void, n: libc::size_t) -> libc::ssize_t {
    if fd == 1 || fd == 2 {
        STD_STREAM_WRITES.fetch_add(1, Ordering::Relaxed);
    }
    type F = unsafe extern "C" fn(libc::c_int, *const libc::c_void, libc::size_t) -> libc::ssize_t;
    let p = real(b"write\0", &REAL_WRITE);
    if p == 0 {
        return -1;
    }
    let f: F = std::mem::transmute(p);
    f(fd, buf, n)
}

#[no_mangle]
pub unsafe extern "C" fn writev(fd: libc::c_int, iov: *const libc::iovec, n: libc::c_int) -> libc::ssize_t {
    if fd == 1 || fd == 2 {
        STD_STREAM_WRITES.fetch_add(1, Ordering::Relaxed);
    }
    type F = unsafe extern "C" fn(libc::c_int, *const libc::iovec, libc::c_int) -> libc::ssize_t;
    let p = real(b"writev\0", &REAL_WRITEV);
    if p == 0 {
        return -1;
    }
    let f: F = std::mem::transmute(p);
    f(fd, iov, n)
}

/// advisory file locks (flock / fcntl F_SETLK..): kernel-wide state shared by every thread and process that opens the file
pub static FILE_LOCK_CALLS: AtomicU64 = AtomicU64::new(0);
static REAL_FLOCK: AtomicU64 = AtomicU64::new(0);

#[no_mangle]
pub unsafe extern "C" fn flock(fd: libc::c_int, op: libc::c_int) -> libc::c_int {
    FILE_LOCK_CALLS.fetch_add(1, Ordering::Relaxed);
    type F = unsafe extern "C" fn(libc::c_int, libc::c_int) -> libc::c_int;
    let p = real(b"flock\0", &REAL_FLOCK);
    if p == 0 {
        return -1;
    }
    let f: F = std::mem::transmute(p);
    f(fd, op)
}

// ------------------------------------------------------------------------------------------ writes to process-wide state outside memory
//
// State a safe-Rust library can reach through std without a single static of its own: the environment block (setenv), the
// current directory, the file system (a cache file is global state shared with every thread and process), child processes,
// signal dispositions, the standard input stream. Each libc entry point is interposed and counted; an operation must make none
// of these calls.

pub static ENV_WRITES: AtomicU64 = AtomicU64::new(0);
pub static CWD_CHANGES: AtomicU64 = AtomicU64::new(0);
pub static FS_MUTATIONS: AtomicU64 = AtomicU64::new(0);
pub static PROCESS_SPAWNS: AtomicU64 = AtomicU64::new(0);
pub static SIGNAL_CHANGES: AtomicU64 = AtomicU64::new(0);
pub static STDIN_READS: AtomicU64 = AtomicU64::new(0);

macro_rules! interpose {
    ($name:ident, $slot:ident, $counter:ident, ($($a:ident : $t:ty),*) -> $r:ty, $fail:expr, $count_if:expr) => {
        static $slot: AtomicU64 = AtomicU64::new(0);
        #[no_mangle]
        pub unsafe extern "C" fn $name($($a: $t),*) -> $r {
            if $count_if {
                $counter.fetch_add(1, Ordering::Relaxed);
            }
            type F = unsafe extern "C" fn($($t),*) -> $r;
            let p = real(concat!(stringify!($name), "\0").as_bytes(), &$slot);
            if p == 0 {
                return $fail;
            }
            let f: F = std::mem::transmute(p);
            f($($a),*)
        }
    };
}
type Cs = *const libc::c_char;
interpose!(setenv, REAL_SETENV, ENV_WRITES, (a: Cs, b: Cs, c: libc::c_int) -> libc::c_int, -1, true);
interpose!(unsetenv, REAL_UNSETENV, ENV_WRITES, (a: Cs) -> libc::c_int, -1, true);
interpose!(putenv, REAL_PUTENV, ENV_WRITES, (a: *mut libc::c_char) -> libc::c_int, -1, true);
interpose!(clearenv, REAL_CLEARENV, ENV_WRITES, () -> libc::c_int, -1, true);
interpose!(chdir, REAL_CHDIR, CWD_CHANGES, (a: Cs) -> libc::c_int, -1, true);
interpose!(fchdir, REAL_FCHDIR, CWD_CHANGES, (a: libc::c_int) -> libc::c_int, -1, true);
interpose!(mkdir, REAL_MKDIR, FS_MUTATIONS, (a: Cs, m: libc::mode_t) -> libc::c_int, -1, true);
interpose!(mkdirat, REAL_MKDIRAT, FS_MUTATIONS, (d: libc::c_int, a: Cs, m: libc::mode_t) -> libc::c_int, -1, true);
interpose!(rmdir, REAL_RMDIR, FS_MUTATIONS, (a: Cs) -> libc::c_int, -1, true);
interpose!(unlink, REAL_UNLINK, FS_MUTATIONS, (a: Cs) -> libc::c_int, -1, true);
interpose!(unlinkat, REAL_UNLINKAT, FS_MUTATIONS, (d: libc::c_int, a: Cs, f: libc::c_int) -> libc::c_int, -1, true);
interpose!(rename, REAL_RENAME, FS_MUTATIONS, (a: Cs, b: Cs) -> libc::c_int, -1, true);
interpose!(renameat, REAL_RENAMEAT, FS_MUTATIONS, (d: libc::c_int, a: Cs, e: libc::c_int, b: Cs) -> libc::c_int, -1, true);
interpose!(renameat2, REAL_RENAMEAT2, FS_MUTATIONS, (d: libc::c_int, a: Cs, e: libc::c_int, b: Cs, f: libc::c_uint) -> libc::c_int, -1, true);
interpose!(symlink, REAL_SYMLINK, FS_MUTATIONS, (a: Cs, b: Cs) -> libc::c_int, -1, true);
interpose!(symlinkat, REAL_SYMLINKAT, FS_MUTATIONS, (a: Cs, d: libc::c_int, b: Cs) -> libc::c_int, -1, true);
interpose!(link, REAL_LINK, FS_MUTATIONS, (a: Cs, b: Cs) -> libc::c_int, -1, true);
interpose!(linkat, REAL_LINKAT, FS_MUTATIONS, (d: libc::c_int, a: Cs, e: libc::c_int, b: Cs, f: libc::c_int) -> libc::c_int, -1, true);
interpose!(truncate, REAL_TRUNCATE, FS_MUTATIONS, (a: Cs, n: libc::off_t) -> libc::c_int, -1, true);
interpose!(truncate64, REAL_TRUNCATE64, FS_MUTATIONS, (a: Cs, n: libc::off64_t) -> libc::c_int, -1, true);
interpose!(ftruncate, REAL_FTRUNCATE, FS_MUTATIONS, (a: libc::c_int, n: libc::off_t) -> libc::c_int, -1, true);
interpose!(ftruncate64, REAL_FTRUNCATE64, FS_MUTATIONS, (a: libc::c_int, n: libc::off64_t) -> libc::c_int, -1, true);
interpose!(chmod, REAL_CHMOD, FS_MUTATIONS, (a: Cs, m: libc::mode_t) -> libc::c_int, -1, true);
interpose!(fchmod, REAL_FCHMOD, FS_MUTATIONS, (a: libc::c_int, m: libc::mode_t) -> libc::c_int, -1, true);
interpose!(creat, REAL_CREAT, FS_MUTATIONS, (a: Cs, m: libc::mode_t) -> libc::c_int, -1, true);
interpose!(fork, REAL_FORK, PROCESS_SPAWNS, () -> libc::pid_t, -1, true);
interpose!(posix_spawn, REAL_POSIX_SPAWN, PROCESS_SPAWNS, (a: *mut libc::pid_t, b: Cs, c: *const libc::c_void, d: *const libc::c_void, e: *const *mut libc::c_char, f: *const *mut libc::c_char) -> libc::c_int, libc::ENOSYS, true);
interpose!(posix_spawnp, REAL_POSIX_SPAWNP, PROCESS_SPAWNS, (a: *mut libc::pid_t, b: Cs, c: *const libc::c_void, d: *const libc::c_void, e: *const *mut libc::c_char, f: *const *mut libc::c_char) -> libc::c_int, libc::ENOSYS, true);
interpose!(sigaction, REAL_SIGACTION, SIGNAL_CHANGES, (s: libc::c_int, a: *const libc::sigaction, o: *mut libc::sigaction) -> libc::c_int, -1, !a.is_null());
interpose!(signal, REAL_SIGNAL, SIGNAL_CHANGES, (s: libc::c_int, h: libc::sighandler_t) -> libc::sighandler_t, libc::SIG_ERR, true);
interpose!(read, REAL_READ, STDIN_READS, (fd: libc::c_int, b: *mut libc::c_void, n: libc::size_t) -> libc::ssize_t, -1, fd == 0);

/// (label, counter) of the process-state write monitors
pub fn process_state_counters() -> [(&'static str, &'static AtomicU64); 6] {
    [("environment writes (setenv / unsetenv / putenv)", &ENV_WRITES), ("current-directory changes", &CWD_CHANGES), ("file-system mutations (create / write-open / mkdir / unlink / rename / link / truncate / chmod)", &FS_MUTATIONS), ("child processes (fork / posix_spawn)", &PROCESS_SPAWNS), ("signal dispositions changed (sigaction / signal)", &SIGNAL_CHANGES), ("reads of the standard input", &STDIN_READS)]
}

fn process_state_excludes() -> Vec<(usize, usize)> {
    let a = |x: &AtomicU64| (x as *const AtomicU64 as usize, 8usize);
    let mut v = vec![a(&ENV_WRITES), a(&CWD_CHANGES), a(&FS_MUTATIONS), a(&PROCESS_SPAWNS), a(&SIGNAL_CHANGES), a(&STDIN_READS)];
    for s in [&REAL_SETENV, &REAL_UNSETENV, &REAL_PUTENV, &REAL_CLEARENV, &REAL_CHDIR, &REAL_FCHDIR, &REAL_MKDIR, &REAL_MKDIRAT, &REAL_RMDIR, &REAL_UNLINK, &REAL_UNLINKAT, &REAL_RENAME, &REAL_RENAMEAT, &REAL_RENAMEAT2, &REAL_SYMLINK, &REAL_SYMLINKAT, &REAL_LINK, &REAL_LINKAT, &REAL_TRUNCATE, &REAL_TRUNCATE64, &REAL_FTRUNCATE, &REAL_FTRUNCATE64, &REAL_CHMOD, &REAL_FCHMOD, &REAL_CREAT, &REAL_FORK, &REAL_POSIX_SPAWN, &REAL_POSIX_SPAWNP, &REAL_SIGACTION, &REAL_SIGNAL, &REAL_READ] {
        v.push(a(s));
    }
    v
}

/// Mid-operation probe: the injected readers are user code that runs INSIDE an operation; they compare the monitored
/// memory with the snapshot taken before the operation, so that global state which an operation changes and restores
/// before returning (a swapped panic hook, a lock, a flag) is seen while it is changed.
pub struct MidProbe {
    pub regions: *const Regions,
    pub snap: *const Vec<u8>,
    pub exclude: *const Vec<(usize, usize)>,
}
static MID_PROBE: AtomicU64 = AtomicU64::new(0);
pub static MID_CHANGES: AtomicU64 = AtomicU64::new(0);
pub static MID_PROBES: AtomicU64 = AtomicU64::new(0);

fn probe_mid_operation() {
    let p = MID_PROBE.load(Ordering::Relaxed);
    if p == 0 {
        return;
    }
    MID_PROBES.fetch_add(1, Ordering::Relaxed);
    unsafe {
        let mp = &*(p as *const MidProbe);
        let changed = (*mp.regions).diff(&*mp.snap, &*mp.exclude);
        if !changed.is_empty() {
            MID_CHANGES.fetch_add(1, Ordering::Relaxed);
        }
    }
}

// ------------------------------------------------------------------------------------------ ambient process state

/// directory of decoy files: one well-formed TZif file (+11:00, "DCY") for every name or TZ string an operation resolves, so
/// that a lookup relative to the current directory changes the result
pub static DECOYS: std::sync::OnceLock<std::path::PathBuf> = std::sync::OnceLock::new();

const DECOY_NAMES: [&str; 12] = ["TST-5", "EST5EDT,M3.2.0,M11.1.0", "EST5EDT,0/0,J365/25", "Zone", "Other", "Third", "Home", "Nope", "localtime", "UTC0", "Nope2", "primary"];

pub fn create_decoys() -> std::path::PathBuf {
    let dir = match std::env::var("TZRS_VERIF_DECOYS") {
        Ok(d) => std::path::PathBuf::from(d),
        Err(_) => std::env::temp_dir().join(format!("tzrs-verif-hist-{}", std::process::id())),
    };
    let _ = std::fs::create_dir_all(dir.join("Nope3"));
    let bytes = footer_file(b'2', b"<+11>-11");
    for n in DECOY_NAMES {
        let _ = std::fs::write(dir.join(n), &bytes);
    }
    let _ = std::fs::write(dir.join("Nope3").join("Nothing"), &bytes);
    let _ = DECOYS.set(dir.clone());
    dir
}

pub fn remove_decoys() {
    if std::env::var("TZRS_VERIF_DECOYS").is_err() {
        if let Some(d) = DECOYS.get() {
            let _ = std::env::set_current_dir("/");
            let _ = std::fs::remove_dir_all(d);
        }
    }
}

fn set_errno(v: libc::c_int) {
    unsafe {
        *libc::__errno_location() = v;
    }
}

// ------------------------------------------------------------------------------------------ memory monitor

pub struct Regions {
    /// (start, len, label)
    pub regs: Vec<(usize, usize, String)>,
}

unsafe extern "C" fn phdr_cb(info: *mut libc::dl_phdr_info, _size: libc::size_t, data: *mut libc::c_void) -> libc::c_int {
    // first object = the main executable
    let out = &mut *(data as *mut (usize, usize));
    let info = &*info;
    for i in 0..info.dlpi_phnum {
        let ph = &*info.dlpi_phdr.add(i as usize);
        if ph.p_type == libc::PT_TLS {
            out.0 = ph.p_memsz as usize;
            out.1 = ph.p_align as usize;
        }
    }
    1 // stop after the first object
}

fn fs_base() -> usize {
    let mut v: usize = 0;
    unsafe {
        libc::syscall(libc::SYS_arch_prctl, 0x1003 /* ARCH_GET_FS */, &mut v as *mut usize);
    }
    v
}

impl Regions {
    pub fn discover() -> Regions {
        let exe = std::fs::read_link("/proc/self/exe").map(|p| p.display().to_string()).unwrap_or_default();
        let maps = std::fs::read_to_string("/proc/self/maps").unwrap_or_default();
        let mut regs = vec![];
        let mut last_exe_end = 0usize;
        for line in maps.lines() {
            let mut it = line.split_whitespace();
            let range = it.next().unwrap_or("");
            let perms = it.next().unwrap_or("");
            let path = line.splitn(6, ' ').filter(|s| !s.is_empty()).nth(5).unwrap_or("").trim();
            let (a, b) = match range.split_once('-') {
                Some((a, b)) => (usize::from_str_radix(a, 16).unwrap_or(0), usize::from_str_radix(b, 16).unwrap_or(0)),
                None => continue,
            };
            if path == exe {
                if perms.starts_with("rw") {
                    regs.push((a, b - a, ".data/.bss (file-backed)".to_string()));
                }
                last_exe_end = b;
            } else if path.is_empty() && perms.starts_with("rw") && a == last_exe_end && last_exe_end != 0 {
                // anonymous continuation of .bss
                regs.push((a, b - a, ".bss (anonymous)".to_string()));
                last_exe_end = 0;
            } else {
                if path != exe {
                    // keep last_exe_end only for the immediately following mapping
                    if a != last_exe_end {
                        last_exe_end = 0;
                    }
                }
            }
        }
        // TLS block of the main executable for this thread: [fs - align_up(memsz, align), fs)
        let mut tls = (0usize, 0usize);
        unsafe {
            libc::dl_iterate_phdr(Some(phdr_cb), &mut tls as *mut (usize, usize) as *mut libc::c_void);
        }
        if tls.0 > 0 {
            let align = tls.1.max(1);
            let sz = (tls.0 + align - 1) / align * align;
            let fs = fs_base();
            if fs > sz {
                regs.push((fs - sz, sz, "TLS block of the executable (this thread)".to_string()));
            }
        }
        Regions { regs }
    }
    pub fn total(&self) -> usize {
        self.regs.iter().map(|r| r.1).sum()
    }
    pub fn snapshot(&self, buf: &mut Vec<u8>) {
        buf.clear();
        for &(a, n, _) in &self.regs {
            let s = unsafe { std::slice::from_raw_parts(a as *const u8, n) };
            buf.extend_from_slice(s);
        }
    }
    /// compare the current memory with a snapshot; returns changed (region label, offset) pairs (first few)
    pub fn diff(&self, snap: &[u8], exclude: &[(usize, usize)]) -> Vec<(String, usize, usize)> {
        let mut out = vec![];
        let mut pos = 0usize;
        for (a, n, label) in &self.regs {
            let cur = unsafe { std::slice::from_raw_parts(*a as *const u8, *n) };
            let old = &snap[pos..pos + n];
            if cur != old {
                for k in 0..*n {
                    if cur[k] != old[k] {
                        let addr = a + k;
                        if exclude.iter().any(|&(ea, en)| addr >= ea && addr < ea + en) {
                            continue;
                        }
                        out.push((label.clone(), k, addr));
                        if out.len() >= 8 {
                            return out;
                        }
                    }
                }
            }
            pos += n;
        }
        out
    }
}

// ------------------------------------------------------------------------------------------ write trap
//
// The snapshot comparison above sees a byte that DIFFERS after (or, through the injected readers, during) an operation. A
// value that is written and restored inside one call without any callback in between (a process-wide hook swapped around a
// parser) leaves no difference. The write trap sees the store itself: while an operation runs, the writable pages of the
// executable (.data/.bss) are mapped read-only; a store faults, the SIGSEGV handler logs the address, opens the page and
// sets the CPU's single-step flag; the SIGTRAP that follows the completed instruction closes the page again. Every store into
// static memory during every explored operation is therefore logged, deterministically, whatever value it writes.

#[repr(C)]
pub struct TrapState {
    armed: u64,
    n_ranges: usize,
    ranges: [(usize, usize); 8],
    n_log: usize,
    log: [usize; 512],
    faults: u64,
    n_pending: usize,
    pending: [usize; 4],
    old_segv: libc::sigaction,
}
static TRAP: AtomicU64 = AtomicU64::new(0);
const PAGE: usize = 4096;

unsafe extern "C" fn on_segv(sig: libc::c_int, info: *mut libc::siginfo_t, ctx: *mut libc::c_void) {
    let st = TRAP.load(Ordering::Relaxed) as *mut TrapState;
    let addr = (*info).si_addr() as usize;
    let hit = !st.is_null() && (*st).armed != 0 && (0..(*st).n_ranges).any(|k| addr >= (*st).ranges[k].0 && addr < (*st).ranges[k].0 + (*st).ranges[k].1);
    if !hit {
        // not ours: hand the signal back to whoever owned it (std's stack-overflow reporter) and let the access fault again
        if !st.is_null() {
            libc::sigaction(sig, &(*st).old_segv, std::ptr::null_mut());
        } else {
            libc::signal(sig, libc::SIG_DFL);
        }
        return;
    }
    let s = &mut *st;
    s.faults += 1;
    if s.n_log < s.log.len() {
        s.log[s.n_log] = addr;
        s.n_log += 1;
    }
    let page = addr & !(PAGE - 1);
    libc::mprotect(page as *mut libc::c_void, PAGE, libc::PROT_READ | libc::PROT_WRITE);
    if s.n_pending < s.pending.len() {
        s.pending[s.n_pending] = page;
        s.n_pending += 1;
    }
    let uc = ctx as *mut libc::ucontext_t;
    (*uc).uc_mcontext.gregs[libc::REG_EFL as usize] |= 0x100; // TF: trap after the faulting instruction has completed
}

unsafe extern "C" fn on_trap(_sig: libc::c_int, _info: *mut libc::siginfo_t, ctx: *mut libc::c_void) {
    let st = TRAP.load(Ordering::Relaxed) as *mut TrapState;
    if !st.is_null() {
        let s = &mut *st;
        if s.armed != 0 {
            for k in 0..s.n_pending {
                libc::mprotect(s.pending[k] as *mut libc::c_void, PAGE, libc::PROT_READ);
            }
        }
        s.n_pending = 0;
    }
    let uc = ctx as *mut libc::ucontext_t;
    (*uc).uc_mcontext.gregs[libc::REG_EFL as usize] &= !0x100;
}

pub struct WriteTrap {
    st: *mut TrapState,
}

impl WriteTrap {
    /// install the handlers; `regions` = the writable mappings of the executable (page-aligned by construction)
    pub fn install(regions: &Regions) -> WriteTrap {
        unsafe {
            let st: *mut TrapState = Box::into_raw(Box::new(std::mem::zeroed::<TrapState>()));
            for (a, n, label) in &regions.regs {
                if label.starts_with("TLS") {
                    continue; // the thread's static TLS block shares pages with libc's (errno): compared by snapshot only
                }
                let k = (*st).n_ranges;
                if k < 8 && a % PAGE == 0 && n % PAGE == 0 {
                    (*st).ranges[k] = (*a, *n);
                    (*st).n_ranges += 1;
                }
            }
            TRAP.store(st as u64, Ordering::Relaxed);
            let mut sa: libc::sigaction = std::mem::zeroed();
            sa.sa_sigaction = on_segv as usize;
            sa.sa_flags = libc::SA_SIGINFO | libc::SA_ONSTACK;
            libc::sigemptyset(&mut sa.sa_mask);
            libc::sigaction(libc::SIGSEGV, &sa, &mut (*st).old_segv);
            let mut sb: libc::sigaction = std::mem::zeroed();
            sb.sa_sigaction = on_trap as usize;
            sb.sa_flags = libc::SA_SIGINFO | libc::SA_ONSTACK;
            libc::sigemptyset(&mut sb.sa_mask);
            libc::sigaction(libc::SIGTRAP, &sb, std::ptr::null_mut());
            WriteTrap { st }
        }
    }
    pub fn monitored_bytes(&self) -> usize {
        unsafe { (0..(*self.st).n_ranges).map(|k| (*self.st).ranges[k].1).sum() }
    }
    #[inline]
    pub fn arm(&self) {
        unsafe {
            let s = &mut *self.st;
            s.n_log = 0;
            s.n_pending = 0;
            for k in 0..s.n_ranges {
                libc::mprotect(s.ranges[k].0 as *mut libc::c_void, s.ranges[k].1, libc::PROT_READ);
            }
            std::ptr::write_volatile(&mut s.armed, 1);
        }
    }
    /// reopen the pages; returns the addresses stored to since `arm` that are outside `exclude` (first few) and the number of stores
    #[inline]
    pub fn disarm(&self, exclude: &[(usize, usize)]) -> (Vec<usize>, usize) {
        unsafe {
            let s = &mut *self.st;
            std::ptr::write_volatile(&mut s.armed, 0);
            for k in 0..s.n_ranges {
                libc::mprotect(s.ranges[k].0 as *mut libc::c_void, s.ranges[k].1, libc::PROT_READ | libc::PROT_WRITE);
            }
            let mut out = vec![];
            for k in 0..s.n_log {
                let a = s.log[k];
                if !exclude.iter().any(|&(ea, en)| a >= ea && a < ea + en) && out.len() < 8 {
                    out.push(a);
                }
            }
            (out, s.n_log)
        }
    }
    pub fn total_faults(&self) -> u64 {
        unsafe { (*self.st).faults }
    }
}

// ------------------------------------------------------------------------------------------ shared values and ops

fn vfs_multi(path: &str) -> Result<Vec<u8>, Box<dyn std::error::Error + Send + Sync + 'static>> {
    probe_mid_operation();
    match path {
        "/primary/Zone" => Ok(footer_file(b'2', b"<+01>-1")),
        "/secondary/Zone" => Ok(footer_file(b'2', b"<-01>1")),
        "/secondary/Other" => Ok(footer_file(b'2', b"UTC0")),
        "/third/Third" => Ok(footer_file(b'3', b"<+03>-3")),
        "/etc/localtime" => Ok(footer_file(b'2', b"CET-1CEST,M3.5.0,M10.5.0/3")),
        _ => Err("no such file".into()),
    }
}

fn vfs_paris(path: &str) -> Result<Vec<u8>, Box<dyn std::error::Error + Send + Sync + 'static>> {
    probe_mid_operation();
    match path {
        "/etc/localtime" | "/usr/share/zoneinfo/Home" => Ok(footer_file(b'2', b"CET-1CEST,M3.5.0,M10.5.0/3")),
        _ => Err("no such file".into()),
    }
}
fn vfs_tokyo(path: &str) -> Result<Vec<u8>, Box<dyn std::error::Error + Send + Sync + 'static>> {
    probe_mid_operation();
    match path {
        "/etc/localtime" | "/usr/share/zoneinfo/Home" => Ok(footer_file(b'2', b"JST-9")),
        _ => Err("no such file".into()),
    }
}

pub struct Shared {
    pub default_paris: TimeZoneSettings<'static>,
    pub default_tokyo: TimeZoneSettings<'static>,
    pub paris: TimeZone,
    pub ny: TimeZone,
    pub la: TimeZone,
    pub table: TimeZone,
    pub settings: TimeZoneSettings<'static>,
    pub file_ext: Vec<u8>,
    pub utc_dt: UtcDateTime,
    pub dt: DateTime,
}

static DIRS: [&str; 3] = ["/primary", "/secondary", "/third"];

impl Shared {
    pub fn build() -> Shared {
        let lt = |o: i32, d: bool, n: &[u8]| LocalTimeType::new(o, d, Some(n)).unwrap();
        let m = |a: u8, b: u8, c: u8| RuleDay::MonthWeekDay(MonthWeekDay::new(a, b, c).unwrap());
        let eu = AlternateTime::new(lt(3600, false, b"CET"), lt(7200, true, b"CEST"), m(3, 5, 0), 7200, m(10, 5, 0), 10800).unwrap();
        let us_e = AlternateTime::new(lt(-18000, false, b"EST"), lt(-14400, true, b"EDT"), m(3, 2, 0), 7200, m(11, 1, 0), 7200).unwrap();
        let us_p = AlternateTime::new(lt(-28800, false, b"PST"), lt(-25200, true, b"PDT"), m(3, 2, 0), 7200, m(11, 1, 0), 7200).unwrap();
        let mk = |a: AlternateTime| TimeZone::new(vec![], vec![*a.std(), *a.dst()], vec![], Some(TransitionRule::Alternate(a))).unwrap();
        let table = TimeZone::new(
            vec![Transition::new(1_000_000_000, 1), Transition::new(1_010_000_000, 0), Transition::new(1_020_000_000, 1)],
            vec![lt(0, false, b"GMT"), lt(3600, true, b"BST")],
            vec![],
            Some(TransitionRule::Fixed(lt(3600, true, b"BST"))),
        )
        .unwrap();
        let ltt = lt(19800, false, b"IST");
        Shared {
            paris: mk(eu),
            ny: mk(us_e),
            la: mk(us_p),
            table,
            settings: TimeZoneSettings::new(&DIRS, vfs_multi),
            default_paris: TimeZoneSettings::new(TimeZoneSettings::DEFAULT_DIRECTORIES, vfs_paris),
            default_tokyo: TimeZoneSettings::new(TimeZoneSettings::DEFAULT_DIRECTORIES, vfs_tokyo),
            file_ext: footer_file(b'3', b"EST5EDT,0/0,J365/25"),
            utc_dt: UtcDateTime::from_timespec(1_600_000_000, 5).unwrap(),
            dt: DateTime::from_timespec_and_local(1_600_000_000, 5, ltt).unwrap(),
        }
    }
    /// raw bytes of every shared value (structs and the slices they own)
    pub fn raw_digest(&self) -> u64 {
        let mut f = Fnv::default();
        fn raw<T>(f: &mut Fnv, v: &T) {
            let s = unsafe { std::slice::from_raw_parts(v as *const T as *const u8, std::mem::size_of::<T>()) };
            f.bytes(s);
        }
        fn raw_slice<T>(f: &mut Fnv, v: &[T]) {
            let s = unsafe { std::slice::from_raw_parts(v.as_ptr() as *const u8, std::mem::size_of_val(v)) };
            f.bytes(s);
        }
        for z in [&self.paris, &self.ny, &self.la, &self.table] {
            raw(&mut f, z);
            let r = z.as_ref();
            raw_slice(&mut f, r.transitions());
            raw_slice(&mut f, r.local_time_types());
            raw_slice(&mut f, r.leap_seconds());
            raw(&mut f, r.extra_rule());
        }
        raw(&mut f, &self.settings);
        raw(&mut f, &self.default_paris);
        raw(&mut f, &self.default_tokyo);
        raw_slice(&mut f, &self.file_ext);
        raw(&mut f, &self.utc_dt);
        raw(&mut f, &self.dt);
        f.0
    }
}

pub struct Op {
    pub name: &'static str,
    pub run: fn(&Shared) -> String,
    /// result depends on the wall clock: only Ok-ness is compared
    pub clock: bool,
    /// not an operation of the subject: changes ambient process state (current directory, errno, environment) that the
    /// subject must not depend on; not monitored itself
    pub perturb: bool,
}

fn d<T: std::fmt::Debug>(v: T) -> String {
    format!("{v:?}")
}

const T_SUMMER: i64 = 1_594_000_000; // 2020-07-06
const T_WINTER: i64 = 1_578_000_000; // 2020-01-02
const T_EDGE: i64 = 1_603_587_600; // 2020-10-25T01:00:00Z (EU DST end)

pub fn ops() -> Vec<Op> {
    fn op(name: &'static str, run: fn(&Shared) -> String) -> Op {
        Op { name, run, clock: false, perturb: false }
    }
    vec![
        // same instant in three different shared zones (a cache keyed by instant only would collide)
        op("lookup paris summer", |s| d(s.paris.find_local_time_type(T_SUMMER))),
        op("lookup ny summer", |s| d(s.ny.find_local_time_type(T_SUMMER))),
        op("lookup la summer", |s| d(s.la.find_local_time_type(T_SUMMER))),
        // different instants in the same zone, either side of a transition
        op("lookup paris winter", |s| d(s.paris.find_local_time_type(T_WINTER))),
        op("lookup paris edge-1", |s| d(s.paris.find_local_time_type(T_EDGE - 1))),
        op("lookup paris edge", |s| d(s.paris.find_local_time_type(T_EDGE))),
        op("lookup table before", |s| d(s.table.find_local_time_type(999_999_999))),
        op("lookup table at", |s| d(s.table.find_local_time_type(1_000_000_000))),
        op("lookup table last", |s| d(s.table.find_local_time_type(1_020_000_000))),
        // searches: unique / fold / gap, same local time in zones that share rule days (a cache keyed by year+days collides)
        op("find ny gap", |s| d(DateTime::find(2021, 3, 14, 2, 30, 0, 0, s.ny.as_ref()).map(|l| l.into_inner()))),
        op("find la gap", |s| d(DateTime::find(2021, 3, 14, 2, 30, 0, 0, s.la.as_ref()).map(|l| l.into_inner()))),
        op("find ny fold", |s| d(DateTime::find(2021, 11, 7, 1, 30, 0, 0, s.ny.as_ref()).map(|l| l.into_inner()))),
        op("find la fold", |s| d(DateTime::find(2021, 11, 7, 1, 30, 0, 0, s.la.as_ref()).map(|l| l.into_inner()))),
        op("find paris unique", |s| d(DateTime::find(2021, 6, 1, 12, 0, 0, 0, s.paris.as_ref()).map(|l| l.unique()))),
        op("find_n table", |s| {
            let mut buf = [None; 2];
            d(DateTime::find_n(&mut buf, 2001, 9, 9, 2, 0, 0, 0, s.table.as_ref()).map(|l| (l.count(), l.is_exhaustive(), l.data().to_vec())))
        }),
        // parsing the same / different TZif bytes and TZ strings, with and without extensions
        op("parse v3 ext footer", |s| d(TimeZone::from_tz_data(&s.file_ext))),
        op("parse settings ext string", |s| d(s.settings.parse_posix_tz("EST5EDT,0/0,J365/25").map_err(|e| e.to_string()))),
        op("parse settings plain string", |s| d(s.settings.parse_posix_tz("EST5EDT,M3.2.0,M11.1.0").map_err(|e| e.to_string()))),
        op("parse v2 plain footer", |_| d(TimeZone::from_tz_data(&footer_file(b'2', b"EST5EDT,M3.2.0,M11.1.0")))),
        op("parse v2 ext footer", |_| d(TimeZone::from_tz_data(&footer_file(b'2', b"EST5EDT,0/0,J365/25")))),
        // lookups through shared settings: same name in two directories, a name only in the second, one only in the third
        op("settings Zone", |s| d(s.settings.parse_posix_tz("Zone").map_err(|e| e.to_string()))),
        op("settings Other", |s| d(s.settings.parse_posix_tz("Other").map_err(|e| e.to_string()))),
        op("settings Third", |s| d(s.settings.parse_posix_tz(":Third").map_err(|e| e.to_string()))),
        op("settings localtime", |s| d(s.settings.parse_local().map_err(|e| e.to_string()))),
        op("settings missing", |s| d(s.settings.parse_posix_tz(":Nope").map_err(|e| e.to_string()))),
        // two settings values with the DEFAULT directory list but different file systems (a process-wide latch would leak)
        op("default-dirs paris local", |s| d(s.default_paris.parse_local().map_err(|e| e.to_string()))),
        op("default-dirs tokyo local", |s| d(s.default_tokyo.parse_local().map_err(|e| e.to_string()))),
        op("default-dirs paris Home", |s| d(s.default_paris.parse_posix_tz("Home").map_err(|e| e.to_string()))),
        op("default-dirs tokyo Home", |s| d(s.default_tokyo.parse_posix_tz(":Home").map_err(|e| e.to_string()))),
        // constructors, projections, Display
        op("construct zone", |_| d(TimeZone::new(vec![Transition::new(5, 0)], vec![LocalTimeType::utc()], vec![], None))),
        op("project", |s| d(s.utc_dt.project(s.paris.as_ref()).and_then(|x| x.project(s.la.as_ref())))),
        op("display", |s| format!("{} {} {:?}", s.dt, s.utc_dt, DateTime::from_timespec(T_EDGE, 9, s.paris.as_ref()).map(|x| x.to_string()))),
        op("from_timespec ny", |s| d(DateTime::from_timespec(T_SUMMER, 0, s.ny.as_ref()))),
        // ambient clock: only success is compared
        Op { name: "now utc", run: |_| d(UtcDateTime::now().is_ok()), clock: true, perturb: false },
        Op { name: "now zone", run: |s| d(DateTime::now(s.paris.as_ref()).is_ok()), clock: true, perturb: false },
        Op { name: "current type", run: |s| d(s.ny.find_current_local_time_type().is_ok()), clock: true, perturb: false },
        // the default reader (real file system): a TZ string that names no file, a rule, a name that does not exist
        op("default reader TST-5", |_| d(TimeZone::from_posix_tz("TST-5").map_err(|e| e.to_string()))),
        op("default reader rule", |_| d(TimeZone::from_posix_tz("EST5EDT,M3.2.0,M11.1.0").map_err(|e| e.to_string()))),
        op("default reader missing", |_| d(TimeZone::from_posix_tz(":Nope3/Nothing").map_err(|e| e.to_string()))),
        op("TimeZone::local", |_| d(TimeZone::local().map_err(|e| e.to_string()))),
        // the default reader on a file that exists (an absolute path into the decoy directory) and on a directory
        op("default reader existing file", |_| d(DECOYS.get().map(|p| TimeZone::from_posix_tz(&format!(":{}/Zone", p.display())).map_err(|e| e.to_string())))),
        op("default reader directory", |_| d(DECOYS.get().map(|p| TimeZone::from_posix_tz(&format!(":{}/Nope3", p.display())).map_err(|e| e.to_string())))),
        op("failing reader rule", |_| d(TimeZoneSettings::new(&["/zoneinfo"], |_| { probe_mid_operation(); Err("no file system".into()) }).parse_posix_tz("TST-5").map_err(|e| e.to_string()))),
        op("denied reader rule", |_| d(TimeZoneSettings::new(&["/zoneinfo", "/other"], |_| { probe_mid_operation(); Err(Box::new(std::io::Error::from(std::io::ErrorKind::PermissionDenied))) }).parse_posix_tz("EST5EDT,M3.2.0,M11.1.0").map_err(|e| e.to_string()))),
        // ambient process state the subject must not depend on
        Op { name: "AMBIENT chdir decoys", run: |_| { if let Some(p) = DECOYS.get() { let _ = std::env::set_current_dir(p); } String::new() }, clock: false, perturb: true },
        Op { name: "AMBIENT chdir /", run: |_| { let _ = std::env::set_current_dir("/"); String::new() }, clock: false, perturb: true },
        Op { name: "AMBIENT errno=EPERM", run: |_| { set_errno(libc::EPERM); String::new() }, clock: false, perturb: true },
        Op { name: "AMBIENT errno=EACCES", run: |_| { set_errno(libc::EACCES); String::new() }, clock: false, perturb: true },
        Op { name: "AMBIENT errno=EINTR", run: |_| { set_errno(libc::EINTR); String::new() }, clock: false, perturb: true },
        Op { name: "AMBIENT errno=0", run: |_| { set_errno(0); String::new() }, clock: false, perturb: true },
        Op { name: "AMBIENT setenv TZ/TZDIR", run: |_| { std::env::set_var("TZ", "Asia/Tokyo"); std::env::set_var("TZDIR", DECOYS.get().map(|p| p.display().to_string()).unwrap_or_default()); String::new() }, clock: false, perturb: true },
        Op { name: "AMBIENT unsetenv TZ/TZDIR", run: |_| { std::env::remove_var("TZ"); std::env::remove_var("TZDIR"); String::new() }, clock: false, perturb: true },
    ]
}

fn digest_of(s: &str) -> u64 {
    let mut f = Fnv::default();
    f.bytes(s.as_bytes());
    f.0
}

// compile-time precondition: every public type can be shared and sent across threads
#[allow(dead_code)]
fn auto_traits() {
    fn ss<T: Send + Sync>() {}
    fn st<T: Send + Sync + 'static>() {}
    st::<TimeZone>();
    st::<UtcDateTime>();
    st::<DateTime>();
    st::<LocalTimeType>();
    st::<Transition>();
    st::<tz::timezone::LeapSecond>();
    st::<TransitionRule>();
    st::<AlternateTime>();
    st::<RuleDay>();
    st::<MonthWeekDay>();
    st::<tz::timezone::Julian0WithLeap>();
    st::<tz::timezone::Julian1WithoutLeap>();
    st::<tz::datetime::FoundDateTimeKind>();
    st::<tz::datetime::FoundDateTimeList>();
    st::<tz::TzError>();
    st::<tz::Error>();
    ss::<tz::timezone::TimeZoneRef<'static>>();
    ss::<TimeZoneSettings<'static>>();
    ss::<tz::datetime::FoundDateTimeListRefMut<'static>>();
}

/// child mode: run one op alone in this fresh process, print its digest
pub fn run_alone(args: &Args) -> i32 {
    let idx: usize = args.extra.get("op").and_then(|s| s.parse().ok()).unwrap_or(0);
    if let Ok(d) = std::env::var("TZRS_VERIF_DECOYS") {
        let _ = DECOYS.set(std::path::PathBuf::from(d));
    }
    if let Some(e) = args.extra.get("errno").and_then(|s| s.parse::<i32>().ok()) {
        set_errno(e);
    }
    let shared = Shared::build();
    let ops = ops();
    let out = (ops[idx].run)(&shared);
    println!("ALONE {} {:016x}", idx, digest_of(&out));
    0
}

pub fn run(args: &Args) -> i32 {
    let rec = Recorder::new(args, "model_checking");
    let thorough = args.thorough();
    let exe = std::env::current_exe().expect("exe");
    let ops = ops();
    let n = ops.len();
    // ---- run-alone digests under four environments
    let decoys = create_decoys();
    let decoys_s = decoys.display().to_string();
    // (name, TZ, TZDIR, run in the decoy directory, initial errno)
    let envs: [(&str, Option<&str>, Option<&str>, bool, i32); 6] = [
        ("unset", None, None, false, 0),
        ("valid", Some("Europe/Paris"), Some("/usr/share/zoneinfo"), false, 0),
        ("other", Some("America/New_York"), Some("/verif/data/tzdb/fat"), false, 0),
        ("garbage", Some(":\u{1}//../nonsense"), Some("/nonexistent"), false, 0),
        ("cwd=decoys", None, Some(&decoys_s), true, 0),
        ("errno=EPERM", None, None, false, libc::EPERM),
    ];
    let mut alone: Vec<u64> = vec![0; n];
    let mut spawned = 0u64;
    for (i, op) in ops.iter().enumerate() {
        if op.perturb {
            alone[i] = digest_of("");
            continue;
        }
        let mut seen: BTreeMap<u64, &str> = BTreeMap::new();
        for (ename, tzv, tzdir, in_decoys, errno) in envs.iter() {
            let mut cmd = std::process::Command::new(&exe);
            cmd.args(["hist-alone", "--op", &i.to_string(), "--errno", &errno.to_string()]);
            cmd.env_remove("TZ").env_remove("TZDIR");
            cmd.env("TZRS_VERIF_DECOYS", &decoys_s);
            cmd.current_dir(if *in_decoys { decoys_s.as_str() } else { "/" });
            if let Some(v) = tzv {
                cmd.env("TZ", v);
            }
            if let Some(v) = tzdir {
                cmd.env("TZDIR", v);
            }
            let out = cmd.output().expect("spawn run-alone child");
            spawned += 1;
            let text = String::from_utf8_lossy(&out.stdout);
            let dg = text.lines().find_map(|l| l.strip_prefix("ALONE ")).and_then(|l| l.split_whitespace().nth(1)).and_then(|h| u64::from_str_radix(h, 16).ok());
            match dg {
                Some(v) => {
                    seen.insert(v, ename);
                    alone[i] = v;
                }
                None => {
                    eprintln!("MACHINERY: run-alone child for op {i} produced no digest: {}", String::from_utf8_lossy(&out.stderr));
                    return 4;
                }
            }
        }
        if seen.len() != 1 {
            rec.violation("environments", json!({"kind":"env","op":op.name}), json!("same result under every TZ / TZDIR / current directory / errno environment"), json!(format!("{} distinct results: {:?}", seen.len(), seen.values().collect::<Vec<_>>())));
        }
    }
    rec.sub("run_alone", json!({"ops": n, "child_processes": spawned, "environments": envs.iter().map(|e| e.0).collect::<Vec<_>>()}));

    // ---- history exploration with monitors
    let shared = Shared::build();
    let regions = Regions::discover();
    // the harness' own counters of interposed calls live in .data: excluded from the diff, judged separately
    let exclude = monitor_excludes();
    let trap = WriteTrap::install(&regions);
    let mut trapped_stores = 0u64;
    let mut snap: Vec<u8> = Vec::with_capacity(regions.total());
    let max_len = if thorough { 5 } else { 4 };
    // thorough: length-4 histories over a 16-op collision subset (65536) on top of all length<=3 histories
    let mut histories = 0u64;
    let mut steps = 0u64;
    let mut distinct_results: std::collections::BTreeSet<u64> = Default::default();
    let base_raw = shared.raw_digest();
    let mut run_history = |h: &[usize], rec: &Recorder| {
        histories += 1;
        for (pos, &oi) in h.iter().enumerate() {
            steps += 1;
            let op = &ops[oi];
            if op.perturb {
                (op.run)(&shared);
                continue;
            }
            let env_before = GETENV_CALLS.load(Ordering::Relaxed);
            let rel_before = RELATIVE_OPENS.load(Ordering::Relaxed);
            let wr_before = STD_STREAM_WRITES.load(Ordering::Relaxed);
            let lk_before = FILE_LOCK_CALLS.load(Ordering::Relaxed);
            let clk_before = CLOCK_READS.load(Ordering::Relaxed);
            let mid_before = MID_CHANGES.load(Ordering::Relaxed);
            let ps_before: Vec<u64> = process_state_counters().iter().map(|c| c.1.load(Ordering::Relaxed)).collect();
            regions.snapshot(&mut snap);
            let mp = MidProbe { regions: &regions, snap: &snap, exclude: &exclude };
            MID_PROBE.store(&mp as *const MidProbe as u64, Ordering::Relaxed);
            // armed for the last operation of a history only: every proper prefix of a history is itself an explored history, so
            // every (history, position) pair is covered while the trap's cost (two signals per store of the harness' own
            // counters) is paid once per history
            let trapped = pos + 1 == h.len();
            if trapped {
                trap.arm();
            }
            let out = std::panic::catch_unwind(std::panic::AssertUnwindSafe(|| (op.run)(&shared)));
            let (stored, n_stores) = if trapped { trap.disarm(&exclude) } else { (vec![], 0) };
            trapped_stores += n_stores as u64;
            MID_PROBE.store(0, Ordering::Relaxed);
            let clk_after = CLOCK_READS.load(Ordering::Relaxed);
            let changed = regions.diff(&snap, &exclude);
            let wr_after = STD_STREAM_WRITES.load(Ordering::Relaxed);
            let mid_after = MID_CHANGES.load(Ordering::Relaxed);
            let env_after = GETENV_CALLS.load(Ordering::Relaxed);
            let rel_after = RELATIVE_OPENS.load(Ordering::Relaxed);
            let case = || json!({"kind":"history","ops":h.iter().map(|&k| ops[k].name).collect::<Vec<_>>(),"indices":h,"failing_position":pos,"run_alone_digests":h.iter().map(|&k| format!("{:016x}", alone[k])).collect::<Vec<_>>()});
            let out = match out {
                Ok(o) => o,
                Err(_) => {
                    rec.violation("histories", case(), json!("no panic"), json!(take_panic_msg()));
                    return;
                }
            };
            let dg = digest_of(&out);
            distinct_results.insert(dg);
            if dg != alone[oi] {
                rec.violation("histories", case(), json!({"result_digest_when_run_alone": format!("{:016x}", alone[oi])}), json!({"result_digest_after_this_history": format!("{dg:016x}"), "result": out.chars().take(300).collect::<String>()}));
            }
            if !changed.is_empty() {
                rec.violation("global_write_monitor", case(), json!("no byte of the executable's .data/.bss/TLS changes during an operation"), json!(changed.iter().map(|(l, off, addr)| format!("{l} +{off:#x} (address {addr:#x})")).collect::<Vec<_>>()));
            }
            if !stored.is_empty() {
                rec.violation("global_write_trap", case(), json!("no store into the executable's .data/.bss during an operation (whatever value is stored: a value written and restored is a write)"), json!(stored.iter().map(|a| format!("store to address {a:#x}")).collect::<Vec<_>>()));
            }
            for (k, (label, c)) in process_state_counters().iter().enumerate() {
                let now = c.load(Ordering::Relaxed);
                if now != ps_before[k] {
                    rec.violation("process_state_write_monitor", case(), json!("an operation changes no process-wide state: environment, current directory, file system, child processes, signal dispositions, standard input"), json!({"what": label, "calls": now - ps_before[k]}));
                }
            }
            if env_after != env_before {
                rec.violation("environment_read_monitor", case(), json!("no getenv call during an operation"), json!({"getenv_calls": env_after - env_before}));
            }
            if clk_after != clk_before && !op.clock {
                rec.violation("clock_read_monitor", case(), json!("the system clock is read only by now() and find_current_local_time_type()"), json!({"clock_reads": clk_after - clk_before}));
            }
            if FILE_LOCK_CALLS.load(Ordering::Relaxed) != lk_before {
                rec.violation("file_lock_monitor", case(), json!("no advisory lock is taken on a file (kernel-wide state shared with every other reader)"), json!({"flock_calls": FILE_LOCK_CALLS.load(Ordering::Relaxed) - lk_before}));
            }
            if wr_after != wr_before {
                rec.violation("standard_stream_monitor", case(), json!("no write to the process-wide standard output / error streams"), json!({"writes": wr_after - wr_before}));
            }
            if mid_after != mid_before {
                rec.violation("global_write_monitor_mid_operation", case(), json!("no byte of the executable's .data/.bss/TLS differs from its pre-operation value while the injected reader runs"), json!({"probes_that_saw_a_change": mid_after - mid_before}));
            }
            if rel_after != rel_before {
                rec.violation("relative_open_monitor", case(), json!("no file is opened through a path relative to the current directory"), json!({"relative_opens": rel_after - rel_before}));
            }
            if shared.raw_digest() != base_raw {
                rec.violation("bitwise_immutability", case(), json!("raw bytes of every shared value unchanged by &self operations"), json!("changed"));
            }
        }
    };
    let reset_ambient = || {
        let _ = std::env::set_current_dir("/");
        set_errno(0);
        std::env::remove_var("TZ");
        std::env::remove_var("TZDIR");
    };
    let mut h: Vec<usize> = vec![];
    // depth-first over the history tree, simplest first
    for len in 1..=3usize {
        let total = n.pow(len as u32);
        for code in 0..total {
            h.clear();
            let mut c = code;
            for _ in 0..len {
                h.push(c % n);
                c /= n;
            }
            h.reverse();
            // a history that ends with an ambient change observes nothing
            if ops[*h.last().unwrap()].perturb {
                continue;
            }
            reset_ambient();
            run_history(&h, &rec);
            if rec.saturated() {
                break;
            }
        }
    }
    if max_len >= 4 {
        let mut subset: Vec<usize> = vec![0, 1, 9, 10, 15, 16, 17, 20, 21, 27, 28];
        for (k, o) in ops.iter().enumerate() {
            if o.perturb || o.name.starts_with("default reader") || o.name.starts_with("failing reader") {
                subset.push(k);
            }
        }
        let m = subset.len();
        for code in 0..m.pow(4) {
            h.clear();
            let mut c = code;
            for _ in 0..4 {
                h.push(subset[c % m]);
                c /= m;
            }
            if ops[*h.last().unwrap()].perturb {
                continue;
            }
            reset_ambient();
            run_history(&h, &rec);
            if rec.saturated() {
                break;
            }
        }
        if max_len >= 5 {
            // thorough: length-5 histories over the operations that touch lookups, searches and string parsing + ambient changes
            let sub5: Vec<usize> = subset.iter().cloned().filter(|&k| ops[k].perturb || [0usize, 9, 16, 20].contains(&k) || ops[k].name.starts_with("default reader T") || ops[k].name.starts_with("failing reader")).collect();
            let m5 = sub5.len();
            for code in 0..m5.pow(5) {
                h.clear();
                let mut c = code;
                for _ in 0..5 {
                    h.push(sub5[c % m5]);
                    c /= m5;
                }
                if ops[*h.last().unwrap()].perturb {
                    continue;
                }
                reset_ambient();
                run_history(&h, &rec);
                if rec.saturated() {
                    break;
                }
            }
        }
    }
    rec.sub("histories", json!({"ops": n, "max_length": max_len, "histories": histories, "operation_executions": steps, "monitored_bytes_per_operation": regions.total(), "monitored_regions": regions.regs.iter().map(|r| format!("{} ({} bytes)", r.2, r.1)).collect::<Vec<_>>(), "distinct_result_digests": distinct_results.len()}));
    // monitor self-test: the monitors must see an injected static write, TLS write and getenv call (otherwise they are blind)
    let mut selftest = monitor_selftest(&regions, &exclude);
    {
        // write trap: a store that restores the old value (invisible to the snapshot comparison) must be logged, at its address
        let mut snap2 = vec![];
        regions.snapshot(&mut snap2);
        trap.arm();
        unsafe {
            let p = std::ptr::addr_of_mut!(SELFTEST_STATIC);
            let v = p.read_volatile();
            p.write_volatile(v ^ 0xff);
            p.write_volatile(v);
        }
        let (stored, n) = trap.disarm(&exclude);
        let addr = std::ptr::addr_of!(SELFTEST_STATIC) as usize;
        selftest["write_trap_sees_restored_store"] = json!(n == 2 && stored.iter().all(|&a| a == addr) && stored.len() == 2);
        selftest["snapshot_comparison_blind_to_it"] = json!(regions.diff(&snap2, &exclude).is_empty());
        trap.arm();
        let (stored, n) = trap.disarm(&exclude);
        selftest["write_trap_quiet_without_store"] = json!(n == 0 && stored.is_empty());
    }
    rec.sub("write_trap", json!({"monitored_bytes": trap.monitored_bytes(), "stores_trapped_in_all_operations (harness counters included)": trapped_stores, "faults_handled": trap.total_faults()}));
    rec.sub("monitor_selftest", selftest.clone());
    reset_ambient();
    remove_decoys();
    if selftest["static_write_seen"] != true || selftest["tls_write_seen"] != true || selftest["getenv_seen"] != true || selftest["relative_open_seen"] != true || selftest["absolute_open_not_flagged"] != true || selftest["stderr_write_seen"] != true || selftest["clock_read_seen"] != true || selftest["process_state_writes_seen"] != true || selftest["write_trap_sees_restored_store"] != true || selftest["write_trap_quiet_without_store"] != true || selftest["mid_operation_probes_run"].as_u64().unwrap_or(0) == 0 {
        eprintln!("MACHINERY: monitor self-test failed: {selftest}");
        return 4;
    }
    rec.add(steps, histories - n as u64);
    rec.add_model(histories, steps, steps);
    rec.set_rule("explored object = tree of operation histories (no deduplication possible: the subject exposes no state): every sequence of <= 3 steps over a 52-letter alphabet = 44 operations chosen to collide + 8 changes of ambient process state (current directory with decoy files, errno, TZ/TZDIR set at run time) + all length-4 histories over a 23-letter subset (thorough: + length 5 over 14 letters); after every operation: result digest == run-alone digest (fresh process, 6 environments: TZ/TZDIR, decoy current directory, initial errno), no changed byte in .data/.bss/TLS of the executable, no getenv call, no file opened through a relative path, no write to the standard streams, no read of the system clock (except by now / find_current_local_time_type), raw bytes of shared values unchanged; the injected readers repeat the memory comparison in the middle of the operation. non-trivial = histories of length >= 2");
    rec.set_exhaustive(true);
    rec.outcome(&format!("{} distinct results", distinct_results.len()));
    rec.outcome("run-alone");
    rec.sample(json!({"history": [ops[15].name, ops[16].name], "meaning": "a v3 footer with extensions is parsed, then the same string through the extension-free settings path"}));
    rec.sample(json!({"history": [ops[20].name, ops[21].name, ops[20].name]}));
    rec.assume("operations run on one OS thread for the history exploration; schedule exploration is engine conc; hidden state that no explored operation ever writes is invisible (I9)");
    let _: Value = json!(null);
    rec.finish()
}

static mut SELFTEST_STATIC: u64 = 0;
thread_local! { static SELFTEST_TLS: std::cell::Cell<u64> = const { std::cell::Cell::new(0) }; }

fn monitor_selftest(regions: &Regions, exclude: &[(usize, usize)]) -> Value {
    let mut snap = vec![];
    regions.snapshot(&mut snap);
    unsafe {
        let p = std::ptr::addr_of_mut!(SELFTEST_STATIC);
        p.write_volatile(p.read_volatile().wrapping_add(0x55));
    }
    let s1 = !regions.diff(&snap, exclude).is_empty();
    regions.snapshot(&mut snap);
    SELFTEST_TLS.with(|c| c.set(c.get() + 1));
    let s2 = !regions.diff(&snap, exclude).is_empty();
    let before = GETENV_CALLS.load(Ordering::Relaxed);
    let _ = std::env::var("TZRS_VERIF_SELFTEST");
    let s3 = GETENV_CALLS.load(Ordering::Relaxed) > before;
    let r0 = RELATIVE_OPENS.load(Ordering::Relaxed);
    let _ = std::fs::read("tzrs-verif-selftest-relative-path-that-does-not-exist");
    let s4 = RELATIVE_OPENS.load(Ordering::Relaxed) > r0;
    let r1 = RELATIVE_OPENS.load(Ordering::Relaxed);
    let a1 = ALL_OPENS.load(Ordering::Relaxed);
    let _ = std::fs::read("/tzrs-verif-selftest-absolute-path-that-does-not-exist");
    let s5 = RELATIVE_OPENS.load(Ordering::Relaxed) == r1 && ALL_OPENS.load(Ordering::Relaxed) > a1;
    let w0 = STD_STREAM_WRITES.load(Ordering::Relaxed);
    eprint!("");
    let _ = std::io::Write::write(&mut std::io::stderr(), b"");
    unsafe {
        libc::write(2, b"".as_ptr() as *const libc::c_void, 0);
    }
    let s6 = STD_STREAM_WRITES.load(Ordering::Relaxed) > w0;
    let c0 = CLOCK_READS.load(Ordering::Relaxed);
    let _ = std::time::SystemTime::now();
    let s7 = CLOCK_READS.load(Ordering::Relaxed) > c0;
    // process-state write monitors: each group must count its own std-level operation
    let cnt = |k: usize| process_state_counters()[k].1.load(Ordering::Relaxed);
    let (e0, d0, f0, p0, g0, i0) = (cnt(0), cnt(1), cnt(2), cnt(3), cnt(4), cnt(5));
    std::env::set_var("TZRS_VERIF_SELFTEST", "1");
    std::env::remove_var("TZRS_VERIF_SELFTEST");
    let _ = std::env::set_current_dir("/");
    let tmp = std::env::temp_dir().join(format!("tzrs-verif-selftest-{}", std::process::id()));
    let _ = std::fs::write(&tmp, b"x");
    let f_after_write = cnt(2);
    let _ = std::fs::remove_file(&tmp);
    let f_after_remove = cnt(2);
    let _ = std::fs::read("/etc/hostname");
    let f_after_read = cnt(2);
    let _ = std::process::Command::new("/bin/true").status();
    unsafe {
        let mut old: libc::sigaction = std::mem::zeroed();
        libc::sigaction(libc::SIGUSR2, std::ptr::null(), &mut old);
        let g_query = cnt(4);
        libc::sigaction(libc::SIGUSR2, &old, std::ptr::null_mut());
        let mut b = [0u8; 1];
        libc::read(0, b.as_mut_ptr() as *mut libc::c_void, 0);
        let ps_ok = cnt(0) >= e0 + 2 && cnt(1) > d0 && f_after_write > f0 && f_after_remove > f_after_write && f_after_read == f_after_remove && cnt(3) > p0 && g_query == g0 && cnt(4) > g_query && cnt(5) > i0;
        return json!({"process_state_writes_seen": ps_ok, "clock_read_seen": s7, "static_write_seen": s1, "tls_write_seen": s2, "getenv_seen": s3, "relative_open_seen": s4, "absolute_open_not_flagged": s5, "stderr_write_seen": s6, "mid_operation_probes_run": MID_PROBES.load(Ordering::Relaxed)});
    }
    #[allow(unreachable_code)]
    json!({"clock_read_seen": s7, "static_write_seen": s1, "tls_write_seen": s2, "getenv_seen": s3, "relative_open_seen": s4, "absolute_open_not_flagged": s5, "stderr_write_seen": s6, "mid_operation_probes_run": MID_PROBES.load(Ordering::Relaxed)})
}

pub fn replay(case: &Value, args: &Args) -> i32 {
    let _ = args;
    if !matches!(case["kind"].as_str(), Some("history")) {
        println!("REPLAY: environment cases are re-run by ./check C15 quick");
        return 2;
    }
    // the failing history is replayed alone in this fresh process, twice
    let idx: Vec<usize> = case["indices"].as_array().unwrap().iter().map(|x| x.as_u64().unwrap() as usize).collect();
    let ops = ops();
    create_decoys();
    let shared = Shared::build();
    let regions = Regions::discover();
    let exclude = monitor_excludes();
    let mut outs = vec![];
    let mut snap = vec![];
    let mut mon = false;
    let reset = || {
        let _ = std::env::set_current_dir("/");
        set_errno(0);
        std::env::remove_var("TZ");
        std::env::remove_var("TZDIR");
    };
    for _round in 0..2 {
        let mut v = vec![];
        reset();
        for &i in &idx {
            if ops[i].perturb {
                (ops[i].run)(&shared);
                v.push(digest_of(""));
                continue;
            }
            regions.snapshot(&mut snap);
            let e0 = GETENV_CALLS.load(Ordering::Relaxed);
            let r0 = RELATIVE_OPENS.load(Ordering::Relaxed);
            let w0 = STD_STREAM_WRITES.load(Ordering::Relaxed);
            let m0 = MID_CHANGES.load(Ordering::Relaxed);
            let c0 = CLOCK_READS.load(Ordering::Relaxed);
            let mp = MidProbe { regions: &regions, snap: &snap, exclude: &exclude };
            MID_PROBE.store(&mp as *const MidProbe as u64, Ordering::Relaxed);
            v.push(digest_of(&(ops[i].run)(&shared)));
            MID_PROBE.store(0, Ordering::Relaxed);
            if !ops[i].clock && CLOCK_READS.load(Ordering::Relaxed) != c0 {
                mon = true;
            }
            if !regions.diff(&snap, &exclude).is_empty() || GETENV_CALLS.load(Ordering::Relaxed) != e0 || RELATIVE_OPENS.load(Ordering::Relaxed) != r0 || STD_STREAM_WRITES.load(Ordering::Relaxed) != w0 || MID_CHANGES.load(Ordering::Relaxed) != m0 {
                mon = true;
            }
        }
        outs.push(v);
    }
    reset();
    // digests the operations produced when run alone in fresh processes (recorded with the case)
    if let Some(exp) = case["run_alone_digests"].as_array() {
        for (k, e) in exp.iter().enumerate() {
            if !ops[idx[k]].clock && e.as_str().and_then(|h| u64::from_str_radix(h, 16).ok()).map_or(false, |h| h != outs[0][k]) {
                println!("operation {} ({}) differs from its run-alone result", k, ops[idx[k]].name);
                mon = true;
            }
        }
    }
    let fresh: Vec<u64> = idx.iter().map(|&i| if ops[i].perturb { digest_of("") } else { digest_of(&(ops[i].run)(&Shared::build())) }).collect();
    remove_decoys();
    println!("history {:?}\n digests round 1 {:x?}\n digests round 2 {:x?}\n digests of the same ops on fresh shared values (not a fresh process) {:x?}\n monitor alarm: {mon}", idx.iter().map(|&i| ops[i].name).collect::<Vec<_>>(), outs[0], outs[1], fresh);
    if mon || outs[0] != outs[1] || outs[0] != fresh {
        println!("REPLAY: violation reproduced");
        1
    } else {
        println!("REPLAY: history is result-stable in this process (compare with run-alone digests via ./check C15 quick)");
        0
    }
}
