//! Engine `nopanic`: C07 no panic / overflow / abort / unbounded work / unbounded allocation.
//! Parent process supervises one child process per sub-sweep; the child records its in-flight chunks in a progress file, so
//! a crash (abort, stack overflow, OOM kill) or a hang is attributed to a chunk and is replayable.

use crate::common::*;
use crate::tzif::{corpus_files, hex, unhex};
use crate::tzstr::{core_sentences, footer_file};
use rayon::prelude::*;
use refmodel::tzif::{self as mtzif, Block, CountOverride};
use serde_json::{json, Value};
use std::alloc::{GlobalAlloc, Layout, System};
use std::cell::Cell;
use std::collections::BTreeSet;
use std::sync::atomic::{AtomicBool, AtomicU64, Ordering};
use std::sync::Mutex;
use tz::datetime::FoundDateTimeKind;
use tz::timezone::{AlternateTime, Julian0WithLeap, Julian1WithoutLeap, LeapSecond, LocalTimeType, MonthWeekDay, RuleDay, TimeZoneRef, Transition, TransitionRule};
use tz::{DateTime, TimeZone, TimeZoneSettings, UtcDateTime};

// ------------------------------------------------------------------------------------------ counting allocator

pub struct CountingAlloc;
static COUNTING: AtomicBool = AtomicBool::new(false);
thread_local! {
    static LIVE: Cell<usize> = const { Cell::new(0) };
    static PEAK: Cell<usize> = const { Cell::new(0) };
}
const MAX_SINGLE_ALLOC: usize = 1 << 30;

unsafe impl GlobalAlloc for CountingAlloc {
    unsafe fn alloc(&self, l: Layout) -> *mut u8 {
        if COUNTING.load(Ordering::Relaxed) {
            if l.size() > MAX_SINGLE_ALLOC {
                return std::ptr::null_mut(); // refused: becomes an allocation-failure abort, attributed to the chunk
            }
            let _ = LIVE.try_with(|c| {
                let v = c.get() + l.size();
                c.set(v);
                let _ = PEAK.try_with(|p| {
                    if v > p.get() {
                        p.set(v)
                    }
                });
            });
        }
        System.alloc(l)
    }
    unsafe fn dealloc(&self, p: *mut u8, l: Layout) {
        if COUNTING.load(Ordering::Relaxed) {
            let _ = LIVE.try_with(|c| c.set(c.get().saturating_sub(l.size())));
        }
        System.dealloc(p, l)
    }
    unsafe fn alloc_zeroed(&self, l: Layout) -> *mut u8 {
        if COUNTING.load(Ordering::Relaxed) {
            let p = self.alloc(l);
            if !p.is_null() {
                std::ptr::write_bytes(p, 0, l.size());
            }
            return p;
        }
        System.alloc_zeroed(l)
    }
    unsafe fn realloc(&self, p: *mut u8, l: Layout, new: usize) -> *mut u8 {
        if COUNTING.load(Ordering::Relaxed) {
            if new > MAX_SINGLE_ALLOC {
                return std::ptr::null_mut();
            }
            let _ = LIVE.try_with(|c| {
                let v = c.get().saturating_sub(l.size()) + new;
                c.set(v);
                let _ = PEAK.try_with(|pk| {
                    if v > pk.get() {
                        pk.set(v)
                    }
                });
            });
        }
        System.realloc(p, l, new)
    }
}

/// run f and return (result, peak additional live bytes during f on this thread)
fn measured<T>(f: impl FnOnce() -> T) -> (T, usize) {
    let base = LIVE.with(|c| c.get());
    PEAK.with(|p| p.set(base));
    let r = f();
    let peak = PEAK.with(|p| p.get());
    (r, peak.saturating_sub(base))
}

// ------------------------------------------------------------------------------------------ sub-sweeps

#[derive(Default, Clone, Copy)]
struct Tally {
    evals: u64,
    accepted: u64,
    used: u64,
    max_alloc_ratio_x100: u64,
}
impl Tally {
    fn merge(mut self, o: Tally) -> Tally {
        self.evals += o.evals;
        self.accepted += o.accepted;
        self.used += o.used;
        self.max_alloc_ratio_x100 = self.max_alloc_ratio_x100.max(o.max_alloc_ratio_x100);
        self
    }
}

struct Child {
    rec: Recorder,
    progress: Option<std::path::PathBuf>,
    inflight: Mutex<BTreeSet<String>>,
    single: bool,
}

impl Child {
    fn enter(&self, chunk: &str) {
        if let Some(p) = &self.progress {
            let mut s = self.inflight.lock().unwrap();
            s.insert(chunk.to_string());
            let _ = std::fs::write(p, s.iter().cloned().collect::<Vec<_>>().join("\n"));
        }
    }
    fn leave(&self, chunk: &str) {
        if let Some(p) = &self.progress {
            let mut s = self.inflight.lock().unwrap();
            s.remove(chunk);
            let _ = std::fs::write(p, s.iter().cloned().collect::<Vec<_>>().join("\n"));
        }
    }
    /// in single-step (replay) mode every case is announced before it runs
    fn step(&self, chunk: &str, case: &dyn Fn() -> String) {
        if self.single {
            if let Some(p) = &self.progress {
                let _ = std::fs::write(p, format!("{chunk}\nCASE {}", case()));
            }
        }
    }
}

fn fail_reader(_: &str) -> Result<Vec<u8>, Box<dyn std::error::Error + Send + Sync + 'static>> {
    Err("no file system".into())
}

/// everything that can be done with a zone: lookups and searches at extremes and around every transition
fn use_zone(z: &TimeZone, tl: &mut Tally) {
    let r = z.as_ref();
    let mut ts: Vec<i64> = vec![i64::MIN, i64::MIN + 1, -1, 0, 1, i64::MAX - 1, i64::MAX, crate::cal::MIN_UNIX_TIME, crate::cal::MAX_UNIX_TIME];
    let n = r.transitions().len();
    for (k, t) in r.transitions().iter().enumerate() {
        if k < 4 || k + 4 >= n || k % 17 == 0 {
            for d in -1..=1 {
                ts.push(t.unix_leap_time().saturating_add(d));
            }
        }
    }
    let mut buf = [None; 4];
    for &t in &ts {
        tl.used += 1;
        let _ = r.find_local_time_type(t);
        if let Ok(d) = DateTime::from_timespec(t, 1, r) {
            let _ = format_len(&d);
            let _ = DateTime::find_n(&mut buf, d.year(), d.month(), d.month_day(), d.hour(), d.minute(), d.second(), 0, r);
            let _ = d.project(TimeZoneRef::utc());
        }
    }
    for (y, mo, d) in [(i32::MIN, 1u8, 1u8), (i32::MIN + 2, 6, 15), (1970, 1, 1), (2038, 1, 19), (i32::MAX - 2, 6, 15), (i32::MAX, 12, 31)] {
        tl.used += 1;
        let _ = DateTime::find_n(&mut buf, y, mo, d, 12, 0, 0, 0, r);
        let _ = DateTime::find(y, mo, d, 23, 59, 60, 999_999_999, r).map(|l| (l.unique(), l.earliest(), l.latest()));
    }
}

fn format_len(d: &DateTime) -> usize {
    use core::fmt::Write;
    let mut b = crate::fmt::Buf::new();
    let _ = write!(b, "{d}");
    b.as_bytes().len()
}

/// parse bytes as TZif under the allocation bound; use the zone if accepted
fn try_tzif(c: &Child, bytes: &[u8], sweep: &str, what: &dyn Fn() -> Value, tl: &mut Tally) {
    tl.evals += 1;
    let (r, peak) = measured(|| guard(|| TimeZone::from_tz_data(bytes)));
    let bound = 8 * bytes.len() + 4096;
    tl.max_alloc_ratio_x100 = tl.max_alloc_ratio_x100.max((peak as u64 * 100) / (bytes.len() as u64 + 1));
    match r {
        Err(m) => c.rec.violation(sweep, json!({"kind":"tzif","what":what(),"bytes_hex":hex(bytes)}), json!("no panic"), json!(m)),
        Ok(res) => {
            if peak > bound {
                c.rec.violation(sweep, json!({"kind":"tzif","what":what(),"bytes_hex":hex(bytes)}), json!({"peak_alloc_at_most": bound}), json!({"peak_alloc": peak}));
            }
            if let Ok(z) = res {
                tl.accepted += 1;
                if let Err(m) = guard(|| use_zone(&z, tl)) {
                    c.rec.violation(sweep, json!({"kind":"tzif_use","what":what(),"bytes_hex":hex(bytes)}), json!("no panic while using the accepted zone"), json!(m));
                }
            }
        }
    }
}

fn try_string(c: &Child, s: &[u8], sweep: &str, tl: &mut Tally) {
    // settings path (needs UTF-8), v2 and v3 footers
    for mode in 0..4 {
        if mode == 3 && std::str::from_utf8(s).is_err() {
            continue;
        }
        tl.evals += 1;
        let (r, peak) = measured(|| {
            guard(|| match mode {
                0 => match std::str::from_utf8(s) {
                    Ok(st) => TimeZoneSettings::new(&[], fail_reader).parse_posix_tz(st).ok(),
                    Err(_) => None,
                },
                // with directories configured (a relative name is looked up and not found before the string is parsed)
                3 => TimeZoneSettings::new(&["/nonexistent-a", "relative-b/"], fail_reader).parse_posix_tz(std::str::from_utf8(s).unwrap()).ok(),
                1 => TimeZone::from_tz_data(&footer_file(b'2', s)).ok(),
                _ => TimeZone::from_tz_data(&footer_file(b'3', s)).ok(),
            })
        });
        let bound = 8 * (s.len() + 120) + 4096;
        match r {
            Err(m) => c.rec.violation(sweep, json!({"kind":"string","bytes":s.to_vec(),"text":String::from_utf8_lossy(s),"mode":mode}), json!("no panic"), json!(m)),
            Ok(z) => {
                if peak > bound {
                    c.rec.violation(sweep, json!({"kind":"string","bytes":s.to_vec(),"mode":mode}), json!({"peak_alloc_at_most": bound}), json!({"peak_alloc": peak}));
                }
                if let Some(z) = z {
                    tl.accepted += 1;
                    if tl.accepted % 16 == 0 {
                        if let Err(m) = guard(|| use_zone(&z, tl)) {
                            c.rec.violation(sweep, json!({"kind":"string_use","bytes":s.to_vec(),"mode":mode}), json!("no panic while using the accepted zone"), json!(m));
                        }
                    }
                }
            }
        }
    }
}

const SYMS: [&[u8]; 18] = crate::tzstr::SYMS;

fn nth_string(mut code: u64, len: usize, out: &mut Vec<u8>) {
    out.clear();
    for _ in 0..len {
        out.extend_from_slice(SYMS[(code % 17) as usize]);
        code /= 17;
    }
}

/// part "strings": every symbol string up to the bound; chunks = (len, first two symbols)
fn part_strings(c: &Child, maxlen: usize, only_chunk: Option<&str>) -> Tally {
    let mut chunks: Vec<(usize, u64)> = vec![];
    for len in 0..=maxlen {
        let heads = if len >= 2 { 17 * 17 } else { 1 };
        for h in 0..heads {
            chunks.push((len, h));
        }
    }
    chunks
        .par_iter()
        .map(|&(len, head)| {
            let id = format!("strings:{len}:{head}");
            if only_chunk.map_or(false, |o| o != id) {
                return Tally::default();
            }
            c.enter(&id);
            let mut tl = Tally::default();
            let mut s = Vec::with_capacity(32);
            let per = if len >= 2 { 17u64.pow(len as u32 - 2) } else { 17u64.pow(len as u32) };
            for k in 0..per {
                let code = if len >= 2 { head + 289 * k } else { k };
                nth_string(code, len, &mut s);
                c.step(&id, &|| hex(&s));
                try_string(c, &s, "strings", &mut tl);
            }
            c.leave(&id);
            tl
        })
        .reduce(Tally::default, Tally::merge)
}

/// part "edits": one-edit deviations of the core sentences + numeric bombs in every numeric slot
fn part_edits(c: &Child, only_chunk: Option<&str>) -> Tally {
    let core = core_sentences();
    let alphabet: Vec<u8> = b"A<>+-0159:,/.JMa _\0\xc3\xff\n".to_vec();
    core.par_iter()
        .enumerate()
        .map(|(i, s)| {
            let id = format!("edits:{i}");
            if only_chunk.map_or(false, |o| o != id) {
                return Tally::default();
            }
            c.enter(&id);
            let mut tl = Tally::default();
            let b = s.as_bytes();
            let mut cases: Vec<Vec<u8>> = vec![b.to_vec()];
            for k in 0..b.len() {
                let mut d = b.to_vec();
                d.remove(k);
                cases.push(d);
                for &ch in &alphabet {
                    let mut x = b.to_vec();
                    x[k] = ch;
                    cases.push(x);
                    let mut y = b.to_vec();
                    y.insert(k, ch);
                    cases.push(y);
                }
                // numeric bombs: replace the digit run starting here by 9...9
                if b[k].is_ascii_digit() && (k == 0 || !b[k - 1].is_ascii_digit()) {
                    let end = (k..b.len()).find(|&j| !b[j].is_ascii_digit()).unwrap_or(b.len());
                    for n in [1usize, 2, 3, 4, 5, 9, 10, 11, 19, 20, 21, 39, 40, 200] {
                        let mut x = b[..k].to_vec();
                        x.extend(std::iter::repeat(b'9').take(n));
                        x.extend_from_slice(&b[end..]);
                        cases.push(x);
                        let mut x = b[..k].to_vec();
                        x.extend(std::iter::repeat(b'0').take(n));
                        x.extend_from_slice(&b[k..]);
                        cases.push(x);
                    }
                }
            }
            // very long inputs
            cases.push(std::iter::repeat(b'A').take(100_000).collect());
            cases.push([b"<".as_slice(), &vec![b'+'; 100_000]].concat());
            cases.push([s.as_bytes(), &vec![b','; 50_000]].concat());
            for x in &cases {
                c.step(&id, &|| hex(x));
                try_string(c, x, "edits", &mut tl);
            }
            c.leave(&id);
            tl
        })
        .reduce(Tally::default, Tally::merge)
}

fn distinct_corpus() -> Vec<(String, Vec<u8>)> {
    let mut seen = BTreeSet::new();
    let mut out = vec![];
    for sub in ["slim", "fat"] {
        for p in corpus_files(sub) {
            if let Ok(b) = std::fs::read(&p) {
                let mut f = Fnv::default();
                f.bytes(&b);
                if seen.insert(f.0) {
                    out.push((p.display().to_string(), b));
                }
            }
        }
    }
    out
}

/// part "mutate": every truncation and 6 byte values at every offset of every distinct corpus file
fn part_mutate(c: &Child, thorough: bool, only_chunk: Option<&str>) -> Tally {
    let files = distinct_corpus();
    let vals = [0u8, 1, 2, 0x7f, 0x80, 0xff];
    files
        .par_iter()
        .enumerate()
        .map(|(i, (path, b))| {
            let id = format!("mutate:{i}");
            if only_chunk.map_or(false, |o| o != id) {
                return Tally::default();
            }
            // quick: byte substitution on every slim file and every 4th fat file; truncation everywhere
            let subst = thorough || path.contains("/slim/") || i % 4 == 0;
            c.enter(&id);
            let mut tl = Tally::default();
            for cut in 0..b.len() {
                c.step(&id, &|| format!("cut {cut} of {path}"));
                try_tzif(c, &b[..cut], "mutate", &|| json!({"file": path, "truncate_to": cut}), &mut tl);
            }
            try_tzif(c, b, "mutate", &|| json!({"file": path}), &mut tl);
            if subst {
                let mut x = b.clone();
                for off in 0..b.len() {
                    let orig = x[off];
                    for &v in &vals {
                        if v == orig {
                            continue;
                        }
                        x[off] = v;
                        c.step(&id, &|| format!("byte {off}={v} of {path}"));
                        try_tzif(c, &x, "mutate", &|| json!({"file": path, "offset": off, "value": v}), &mut tl);
                    }
                    x[off] = orig;
                }
            }
            c.leave(&id);
            tl
        })
        .reduce(Tally::default, Tally::merge)
}

/// part "headers": hostile header counts (singly and in pairs) and extreme 64-bit times on synthesised + real files
fn part_headers(c: &Child, only_chunk: Option<&str>) -> Tally {
    let counts: [u32; 9] = [0, 1, 2, 255, 256, 65535, (1u32 << 31) - 1, 1 << 31, u32::MAX];
    let base = Block { trans: vec![(-1000, 1), (0, 0), (1000, 1)], types: vec![(0, 0, 0), (3600, 1, 4)], chars: b"UTC\0CEST\0".to_vec(), leaps: vec![(78796800, 1)], isstd: vec![0, 1], isut: vec![0, 0] };
    let small = Block { trans: vec![], types: vec![(0, 0, 0)], chars: b"UTC\0".to_vec(), ..Default::default() };
    let set = |ov: &mut CountOverride, k: usize, v: u32| match k {
        0 => ov.isutcnt = Some(v),
        1 => ov.isstdcnt = Some(v),
        2 => ov.leapcnt = Some(v),
        3 => ov.timecnt = Some(v),
        4 => ov.typecnt = Some(v),
        _ => ov.charcnt = Some(v),
    };
    let build = |version: u8, ov1: &CountOverride, ov2: &CountOverride, b1: &Block, b2: &Block| -> Vec<u8> {
        let mut v = mtzif::header(version, b1, ov1);
        v.extend(mtzif::body(b1, false));
        if version != 0 {
            v.extend(mtzif::header(version, b2, ov2));
            v.extend(mtzif::body(b2, true));
            v.extend_from_slice(b"\nCET-1CEST,M3.5.0,M10.5.0/3\n");
        }
        v
    };
    let id = "headers:0".to_string();
    if only_chunk.map_or(false, |o| o != id) {
        return Tally::default();
    }
    c.enter(&id);
    let mut tl = Tally::default();
    let none = CountOverride::default();
    for version in [0u8, b'2', b'3'] {
        for (b1, b2) in [(&base, &base), (&small, &base), (&base, &small)] {
            for k1 in 0..6 {
                for &v1 in &counts {
                    let mut ov = CountOverride::default();
                    set(&mut ov, k1, v1);
                    for which in 0..2 {
                        let f = if which == 0 { build(version, &ov, &none, b1, b2) } else { build(version, &none, &ov, b1, b2) };
                        c.step(&id, &|| hex(&f));
                        try_tzif(c, &f, "headers", &|| json!({"version": version, "header": which, "count": k1, "value": v1}), &mut tl);
                    }
                    for k2 in (k1 + 1)..6 {
                        for &v2 in &counts {
                            let mut ov2 = ov;
                            set(&mut ov2, k2, v2);
                            for which in 0..2 {
                                let f = if which == 0 { build(version, &ov2, &none, b1, b2) } else { build(version, &none, &ov2, b1, b2) };
                                c.step(&id, &|| hex(&f));
                                try_tzif(c, &f, "headers", &|| json!({"version": version, "header": which, "counts": [k1, k2], "values": [v1, v2]}), &mut tl);
                            }
                        }
                    }
                }
            }
        }
    }
    // extreme 64-bit / 32-bit time fields in every time slot
    let ext: [i64; 8] = [i64::MIN, i64::MIN + 1, -1, 0, 1, i64::MAX - 1, i64::MAX, i32::MIN as i64];
    for version in [0u8, b'2', b'3'] {
        for slot in 0..4 {
            for &a in &ext {
                for &b in &ext {
                    let mut z = base.clone();
                    match slot {
                        0 => {
                            z.trans[0].0 = a;
                            z.trans[1].0 = b;
                        }
                        1 => {
                            z.trans[1].0 = a;
                            z.trans[2].0 = b;
                        }
                        2 => {
                            z.leaps[0].0 = a;
                            z.trans[2].0 = b;
                        }
                        _ => {
                            z.leaps = vec![(a, 1), (b, 2)];
                        }
                    }
                    for corr in [i32::MIN, -1, 1, i32::MAX] {
                        let mut z2 = z.clone();
                        z2.leaps[0].1 = corr;
                        let f = mtzif::file(version, &z2, Some(&z2), Some(b"<+01>-1"));
                        c.step(&id, &|| hex(&f));
                        try_tzif(c, &f, "headers", &|| json!({"version": version, "time_slot": slot, "a": a, "b": b, "corr": corr}), &mut tl);
                    }
                }
            }
        }
    }
    c.leave(&id);
    tl
}

/// part "pools": every designation table of length 1..=L over an alphabet of ASCII, NUL and the bytes of 2-, 3- and 4-byte
/// UTF-8 characters (also in orders that are not UTF-8), with the designation index at every position of the table and one
/// past it; v1 files and v2 files (table in the 64-bit block); plus the same tables as TZ-string footers
fn part_pools(c: &Child, thorough: bool, only_chunk: Option<&str>) -> Tally {
    let alpha: [u8; 9] = [b'A', b'-', 0, 0xC3, 0xA9, 0xE2, 0x82, 0xF0, 0x9F];
    let maxlen: usize = if thorough { 6 } else { 5 };
    let small = Block { trans: vec![], types: vec![(0, 0, 0)], chars: b"UTC\0".to_vec(), ..Default::default() };
    let chunks: Vec<usize> = (0..alpha.len()).collect();
    chunks
        .par_iter()
        .map(|&first| {
            let id = format!("pools:{first}");
            let mut tl = Tally::default();
            if only_chunk.map_or(false, |o| o != id) {
                return tl;
            }
            c.enter(&id);
            for len in 1..=maxlen {
                let n = alpha.len().pow(len as u32 - 1);
                for code in 0..n {
                    let mut chars = vec![alpha[first]];
                    let mut x = code;
                    for _ in 1..len {
                        chars.push(alpha[x % alpha.len()]);
                        x /= alpha.len();
                    }
                    for idx in 0..=len {
                        let b = Block { trans: vec![(0, 0)], types: vec![(3600, 0, idx as u8)], chars: chars.clone(), ..Default::default() };
                        let f1 = mtzif::file(0, &b, None, None);
                        try_tzif(c, &f1, "pools", &|| json!({"designations": chars, "index": idx, "version": 1}), &mut tl);
                        if idx % 2 == 0 {
                            let f2 = mtzif::file(b'2', &small, Some(&b), Some(b""));
                            try_tzif(c, &f2, "pools", &|| json!({"designations": chars, "index": idx, "version": 2}), &mut tl);
                        }
                    }
                    // the same bytes where a TZ string is expected
                    if len <= 4 {
                        let mut foot = b"AAA".to_vec();
                        foot.extend_from_slice(&chars);
                        foot.extend_from_slice(b"3");
                        let f3 = mtzif::file(b'3', &small, Some(&small), Some(&foot));
                        try_tzif(c, &f3, "pools", &|| json!({"footer": foot}), &mut tl);
                    }
                }
            }
            c.leave(&id);
            tl
        })
        .reduce(Tally::default, Tally::merge)
}

/// part "rules": the rule constructor on every ordered pair of the 1151 rule-day notations x 3 x 3 extreme / zero day times,
/// and on every same-month pair of month-week-day notations x 5 x 5 day times x 2 offset pairs (a consistency check that
/// reaches an `unreachable!` or overflows must still return a value)
fn part_rules(c: &Child, only_chunk: Option<&str>) -> Tally {
    let days = refmodel::rule::Day::all();
    let rd: Vec<RuleDay> = days.iter().map(|d| crate::conv::rule_day(*d)).collect();
    let n = rd.len();
    let std = LocalTimeType::new(0, false, Some(b"AAA")).unwrap();
    let dsts = [LocalTimeType::new(3600, true, Some(b"BBB")).unwrap(), LocalTimeType::new(-3600, true, Some(b"BBB")).unwrap()];
    (0..n)
        .into_par_iter()
        .map(|i| {
            let id = format!("rules:{}", i / 64);
            let mut tl = Tally::default();
            if only_chunk.map_or(false, |o| o != id) {
                return tl;
            }
            c.enter(&id);
            for j in 0..n {
                let same_month_mwd = matches!((days[i], days[j]), (refmodel::rule::Day::M(a, _, _), refmodel::rule::Day::M(b, _, _)) if a == b);
                let times: &[i32] = if same_month_mwd { &[-604_799, -360_000, 0, 360_000, 604_799] } else { &[-604_799, 0, 604_799] };
                for &st in times {
                    for &et in times {
                        for dst in &dsts[..if same_month_mwd { 2 } else { 1 }] {
                            tl.evals += 1;
                            match guard(|| AlternateTime::new(std, *dst, rd[i], st, rd[j], et).map(|a| a.dst_start_time())) {
                                Ok(Ok(_)) => tl.accepted += 1,
                                Ok(Err(_)) => {}
                                Err(m) => c.rec.violation("rules", json!({"kind":"rule_ctor","start":days[i].text(),"end":days[j].text(),"st":st,"et":et,"dst_off":dst.ut_offset()}), json!("no panic"), json!(m)),
                            }
                        }
                    }
                }
            }
            c.leave(&id);
            tl
        })
        .reduce(Tally::default, Tally::merge)
}

/// part "lengths": designations of every length 0..=1100 (and around 2^16) through the three routes that build one: the
/// local time type constructor, a TZ string (plain and quoted name), the designation table of a TZif file
fn part_lengths(c: &Child, only_chunk: Option<&str>) -> Tally {
    let id = "lengths:0".to_string();
    if only_chunk.map_or(false, |o| o != id) {
        return Tally::default();
    }
    c.enter(&id);
    let mut tl = Tally::default();
    let mut lens: Vec<usize> = (0..=1100).collect();
    lens.extend(65_530..=65_545);
    let small = Block { trans: vec![], types: vec![(0, 0, 0)], chars: b"UTC\0".to_vec(), ..Default::default() };
    for &l in &lens {
        let name = vec![b'A'; l];
        tl.evals += 1;
        if let Err(m) = guard(|| LocalTimeType::new(3600, false, Some(&name)).map(|_| ())) {
            c.rec.violation("lengths", json!({"kind":"api_ctor","designation_len":l}), json!("no panic"), json!(m));
        }
        let mut s1 = name.clone();
        s1.extend_from_slice(b"0");
        try_string(c, &s1, "lengths", &mut tl);
        let mut s2 = b"<".to_vec();
        s2.extend_from_slice(&name);
        s2.extend_from_slice(b">-3DST,M3.2.0,M11.1.0");
        try_string(c, &s2, "lengths", &mut tl);
        let mut chars = name.clone();
        chars.push(0);
        let b = Block { trans: vec![(0, 0)], types: vec![(3600, 0, 0)], chars, ..Default::default() };
        try_tzif(c, &mtzif::file(0, &b, None, None), "lengths", &|| json!({"designation_len": l, "version": 1}), &mut tl);
        try_tzif(c, &mtzif::file(b'2', &small, Some(&b), Some(&s2)), "lengths", &|| json!({"designation_len": l, "version": 2}), &mut tl);
        // values made of multi-byte characters, in every alignment relative to a byte position: as a name, quoted, and bare
        if l <= 1100 {
            for ch in ["\u{e9}", "\u{20ac}", "\u{1f600}"] {
                let w = ch.len();
                for p in 0..w {
                    if l < p {
                        continue;
                    }
                    let mut v = vec![b'A'; p];
                    for _ in 0..(l - p) / w {
                        v.extend_from_slice(ch.as_bytes());
                    }
                    let mut quoted = b"<".to_vec();
                    quoted.extend_from_slice(&v);
                    quoted.extend_from_slice(b">0");
                    let mut named = b"Europe/Z".to_vec();
                    named.extend_from_slice(&v);
                    for s in [&v, &quoted, &named] {
                        try_string(c, s, "lengths", &mut tl);
                    }
                }
            }
        }
    }
    c.leave(&id);
    tl
}

/// part "sizes": tables far longer than any real file (the constructors and the parser put no bound on them): a recursion or
/// a quadratic pass shows as a stack overflow or a stall of the supervised child. Also run by the unoptimised build.
fn part_sizes(c: &Child, only_chunk: Option<&str>) -> Tally {
    let mut tl = Tally::default();
    let cases: [(&str, usize, usize, usize); 6] = [("sizes:transitions_20k", 20_000, 2, 0), ("sizes:transitions_200k", 200_000, 2, 0), ("sizes:transitions_1m", 1_000_000, 3, 0), ("sizes:types_70k", 10, 70_000, 0), ("sizes:leaps_200k", 3, 2, 200_000), ("sizes:all_100k", 100_000, 200, 100_000)];
    for (id, ntrans, ntypes, nleaps) in cases {
        if only_chunk.map_or(false, |o| o != id) {
            continue;
        }
        c.enter(id);
        // the work runs on a thread with the default 2 MiB stack of spawned threads
        let r = std::thread::Builder::new()
            .stack_size(2 << 20)
            .spawn(move || {
                let types: Vec<LocalTimeType> = (0..ntypes).map(|i| LocalTimeType::new((i % 50_000) as i32 - 25_000, i % 2 == 1, Some(b"ABC")).unwrap()).collect();
                let trans: Vec<Transition> = (0..ntrans).map(|i| Transition::new(1_000_000 + 3600 * i as i64, i % ntypes)).collect();
                let leaps: Vec<LeapSecond> = (0..nleaps).map(|i| LeapSecond::new(1000 + i as i64 * (28 * 86400 - 1), i as i32 + 1)).collect();
                let mut n = 0u64;
                let r1 = guard(|| {
                    let z = TimeZoneRef::new(&trans, &types, &leaps, &None).map_err(|e| format!("{e:?}"))?;
                    let mut acc = 0i64;
                    for t in [i64::MIN, 0, 1_000_000, 1_000_000 + 1800 * ntrans as i64, i64::MAX] {
                        if let Ok(l) = z.find_local_time_type(t) {
                            acc += l.ut_offset() as i64;
                        }
                        let _ = DateTime::from_timespec(t, 0, z);
                    }
                    let mut buf = [None; 4];
                    let _ = DateTime::find_n(&mut buf, 1970, 6, 1, 12, 0, 0, 0, z).map(|l| l.count());
                    Ok::<i64, String>(acc)
                });
                n += 1;
                let r2 = guard(|| TimeZone::new(trans.clone(), types.clone(), leaps.clone(), None).map(|_| ()).map_err(|e| format!("{e:?}")));
                n += 1;
                // the same table as a TZif file (transition types are one octet: type indices modulo 256 of the first 256 types)
                let r3 = if ntypes <= 256 && nleaps <= 200_000 {
                    let b = Block {
                        trans: (0..ntrans).map(|i| (1_000_000 + 3600 * i as i64, (i % ntypes) as u8)).collect(),
                        types: (0..ntypes).map(|i| ((i % 50_000) as i32 - 25_000, (i % 2) as u8, 0u8)).collect(),
                        chars: b"ABC\0".to_vec(),
                        leaps: (0..nleaps).map(|i| (1000 + i as i64 * (28 * 86400 - 1), i as i32 + 1)).collect(),
                        ..Default::default()
                    };
                    let small = Block { trans: vec![], types: vec![(0, 0, 0)], chars: b"UTC\0".to_vec(), ..Default::default() };
                    let f = mtzif::file(b'2', &small, Some(&b), Some(b""));
                    n += 1;
                    guard(|| TimeZone::from_tz_data(&f).map(|_| ()).map_err(|e| format!("{e:?}")))
                } else {
                    Ok(Ok(()))
                };
                (n, r1.map(|x| x.map(|_| ())), r2, r3)
            })
            .expect("spawn")
            .join();
        match r {
            Ok((n, r1, r2, r3)) => {
                tl.evals += n;
                for (what, r) in [("TimeZoneRef::new + lookups", r1), ("TimeZone::new", r2), ("from_tz_data", r3)] {
                    match r {
                        Err(m) => c.rec.violation("sizes", json!({"kind":"size_case","case":id,"what":what}), json!("no panic"), json!(m)),
                        Ok(Err(e)) => c.rec.violation("sizes", json!({"kind":"size_case","case":id,"what":what}), json!("valid table accepted"), json!(e)),
                        Ok(Ok(())) => tl.accepted += 1,
                    }
                }
            }
            Err(_) => c.rec.violation("sizes", json!({"kind":"size_case","case":id,"what":"thread"}), json!("no panic"), json!("worker thread panicked")),
        }
        c.leave(id);
    }
    tl
}

/// part "api": products of boundary values through every public constructor, query, projection, getter and Display
fn part_api(c: &Child, only_chunk: Option<&str>) -> Tally {
    let i64s: Vec<i64> = vec![i64::MIN, i64::MIN + 1, crate::cal::MIN_UNIX_TIME - 1, crate::cal::MIN_UNIX_TIME, -1, 0, 1, 951868800, crate::cal::MAX_UNIX_TIME, crate::cal::MAX_UNIX_TIME + 1, i64::MAX - 1, i64::MAX];
    let i32s: Vec<i32> = vec![i32::MIN, i32::MIN + 1, i32::MIN + 2, -1, 0, 1, i32::MAX - 2, i32::MAX - 1, i32::MAX];
    let u8s: Vec<u8> = vec![0, 1, 12, 13, 23, 24, 28, 29, 30, 31, 32, 59, 60, 61, 255];
    let u32s: Vec<u32> = vec![0, 1, 999_999_999, 1_000_000_000, u32::MAX];
    let mut i128s: Vec<i128> = vec![i128::MIN, i128::MIN + 1, -1, 0, 1, i128::MAX - 1, i128::MAX];
    for &s in &i64s {
        for d in [-1i128, 0, 1] {
            i128s.push(s as i128 * 1_000_000_000 + d);
        }
    }
    // zones with transitions / leap records at the extremes
    let mut zones: Vec<TimeZone> = vec![TimeZone::utc()];
    let lt = |o: i32, d: bool| LocalTimeType::new(o, d, Some(b"ABC")).unwrap();
    let us = AlternateTime::new(lt(-18000, false), lt(-14400, true), RuleDay::MonthWeekDay(MonthWeekDay::new(3, 2, 0).unwrap()), 7200, RuleDay::MonthWeekDay(MonthWeekDay::new(11, 1, 0).unwrap()), 7200).unwrap();
    let wild = AlternateTime::new(lt(-89999, false), lt(93599, true), RuleDay::Julian0WithLeap(Julian0WithLeap::new(365).unwrap()), 604799, RuleDay::Julian1WithoutLeap(Julian1WithoutLeap::new(1).unwrap()), -604799);
    for &t0 in &[i64::MIN, i64::MIN + 1, -1, 0, i64::MAX - 1, i64::MAX] {
        for &off in &[i32::MIN + 1, -1, 0, i32::MAX] {
            for leaps in [vec![], vec![LeapSecond::new(0, 1)], vec![LeapSecond::new(i64::MAX, -1)], vec![LeapSecond::new(0, -1), LeapSecond::new(i64::MAX, -2)], vec![LeapSecond::new(0, 1), LeapSecond::new(i64::MAX - 1, 2)]] {
                for rule in 0..4 {
                    let types = vec![lt(off, false), lt(-off.max(i32::MIN + 1), true), lt(-18000, false), lt(-14400, true)];
                    let (trans, r) = match rule {
                        0 => (vec![Transition::new(t0, 1)], None),
                        1 => (vec![Transition::new(t0, 1)], Some(TransitionRule::Fixed(types[1]))),
                        2 => (vec![Transition::new(t0, 2)], Some(TransitionRule::Alternate(us))),
                        _ => (vec![Transition::new(t0, 3)], Some(TransitionRule::Alternate(us))),
                    };
                    if let Ok(Ok(z)) = guard(|| TimeZone::new(trans.clone(), types.clone(), leaps.clone(), r)) {
                        zones.push(z);
                    }
                    if t0 < i64::MAX {
                        if let Ok(Ok(z)) = guard(|| TimeZone::new(vec![Transition::new(t0, 0), Transition::new(t0 + 1, 1)], types.clone(), leaps.clone(), None)) {
                            zones.push(z);
                        }
                    }
                }
            }
        }
    }
    zones.push(TimeZone::new(vec![], vec![lt(-18000, false), lt(-14400, true)], vec![], Some(TransitionRule::Alternate(us))).unwrap());
    // more local time types / transitions / leap records than any TZif index byte or real table has
    for ntypes in [255usize, 256, 257, 300, 70000] {
        let types: Vec<LocalTimeType> = (0..ntypes).map(|k| lt((k % 50000) as i32 - 20000, k % 2 == 1)).collect();
        let trans: Vec<Transition> = (0..ntypes.min(1000)).map(|k| Transition::new(k as i64 * 1_000_000 - 500_000_000, ntypes - 1 - k * (ntypes / ntypes.min(1000)).max(1) % ntypes)).collect();
        if let Ok(Ok(z)) = guard(|| TimeZone::new(trans.clone(), types.clone(), vec![], None)) {
            zones.push(z);
        }
        let trans2 = vec![Transition::new(0, ntypes - 1), Transition::new(1_000_000, 0), Transition::new(2_000_000, ntypes / 2)];
        if let Ok(Ok(z)) = guard(|| TimeZone::new(trans2.clone(), types.clone(), vec![LeapSecond::new(0, 1)], Some(TransitionRule::Fixed(types[ntypes / 2])))) {
            zones.push(z);
        }
    }
    {
        let leaps: Vec<LeapSecond> = (0..500).map(|k| LeapSecond::new(k as i64 * 3_000_000, if k < 300 { -(k + 1) } else { k - 599 })).collect();
        let types = vec![lt(0, false), lt(3600, true)];
        let trans: Vec<Transition> = (0..3000).map(|k| Transition::new(k as i64 * 500_000 - 100, k % 2)).collect();
        if let Ok(Ok(z)) = guard(|| TimeZone::new(trans.clone(), types.clone(), leaps.clone(), Some(TransitionRule::Fixed(types[1])))) {
            zones.push(z);
        }
    }
    if let Ok(w) = wild {
        zones.push(TimeZone::new(vec![], vec![*w.std(), *w.dst()], vec![], Some(TransitionRule::Alternate(w))).unwrap());
    }
    let nz = zones.len();
    let t = (0..nz)
        .into_par_iter()
        .map(|zi| {
            let id = format!("api:{zi}");
            if only_chunk.map_or(false, |o| o != id) {
                return Tally::default();
            }
            c.enter(&id);
            let mut tl = Tally::default();
            let z = zones[zi].as_ref();
            let r = guard(|| {
                let mut n = 0u64;
                let mut buf = [None; 3];
                let sink = Cell::new(0usize);
                let touch = |d: &DateTime| {
                    let v = d.week_day() as usize + d.year_day() as usize + format_len(d) + (d.total_nanoseconds() as usize & 1) + d.local_time_type().time_zone_designation().len();
                    sink.set(sink.get().wrapping_add(v));
                };
                for &t in &i64s {
                    for &ns in &u32s {
                        n += 4;
                        let _ = z.find_local_time_type(t);
                        if let Ok(d) = DateTime::from_timespec(t, ns, z) {
                            touch(&d);
                            let _ = d.project(TimeZoneRef::utc()).map(|p| touch(&p));
                        }
                        if let Ok(u) = UtcDateTime::from_timespec(t, ns) {
                            let _ = u.project(z).map(|p| touch(&p));
                            sink.set(sink.get().wrapping_add(u.week_day() as usize + u.year_day() as usize + (u.unix_time() as usize & 3)));
                            use core::fmt::Write;
                            let mut b = crate::fmt::Buf::new();
                            let _ = write!(b, "{u}");
                        }
                    }
                }
                for &tn in &i128s {
                    n += 2;
                    let _ = DateTime::from_total_nanoseconds(tn, z).map(|d| touch(&d));
                    let _ = UtcDateTime::from_total_nanoseconds(tn).map(|u| u.total_nanoseconds());
                }
                for &y in i32s.iter().chain([1970, 1971, 1984].iter()) {
                    for &mo in &[0u8, 1, 2, 12, 13, 255] {
                        for &d in &[0u8, 1, 28, 29, 31, 32, 255] {
                            for &(h, mi, s) in &[(0u8, 0u8, 0u8), (23, 59, 59), (23, 59, 60), (24, 60, 61), (255, 255, 255)] {
                                for &ns in &[0u32, 999_999_999, u32::MAX] {
                                    n += 2;
                                    if let Ok(l) = DateTime::find_n(&mut buf, y, mo, d, h, mi, s, ns, z) {
                                        let _ = (l.unique().map(|d| touch(&d)), l.earliest().map(|d| touch(&d)), l.latest().map(|d| touch(&d)), l.count(), l.is_exhaustive());
                                        for k in l.data().iter().flatten() {
                                            match k {
                                                FoundDateTimeKind::Normal(d) => touch(d),
                                                FoundDateTimeKind::Skipped { before_transition, after_transition } => {
                                                    touch(before_transition);
                                                    touch(after_transition);
                                                }
                                            }
                                        }
                                    }
                                    let _ = DateTime::find(y, mo, d, h, mi, s, ns, z).map(|l| l.into_inner().len());
                                }
                            }
                        }
                    }
                }
                (n, sink.get())
            });
            match r {
                Ok((n, _)) => tl.evals += n,
                Err(m) => c.rec.violation("api", json!({"kind":"api_zone","zone_index":zi,"zone":format!("{:?}", zones[zi])}), json!("no panic"), json!(m)),
            }
            c.leave(&id);
            tl
        })
        .reduce(Tally::default, Tally::merge);
    // zone-independent constructors
    let id = "api:ctor".to_string();
    let mut tl = t;
    if only_chunk.map_or(true, |o| o == id) {
        c.enter(&id);
        let r = guard(|| {
            let mut n = 0u64;
            for &y in &i32s {
                for &mo in &u8s {
                    for &d in &u8s {
                        for &h in &[0u8, 23, 24, 255] {
                            for &s in &[0u8, 59, 60, 61, 255] {
                                for &ns in &u32s {
                                    n += 1;
                                    let _ = UtcDateTime::new(y, mo, d, h, s, s, ns).map(|u| (u.unix_time(), u.week_day(), u.year_day(), u.total_nanoseconds()));
                                    for &off in &[i32::MIN + 1, 0, i32::MAX] {
                                        n += 1;
                                        let l = LocalTimeType::with_ut_offset(off).unwrap();
                                        let _ = DateTime::new(y, mo, d, h, s, s, ns, l).map(|x| (x.week_day(), x.year_day(), format_len(&x)));
                                    }
                                }
                            }
                        }
                    }
                }
            }
            for &o1 in &i32s {
                for &o2 in &i32s {
                    for &t1 in &i32s {
                        for &t2 in &[i32::MIN, -604800, -604799, 0, 604799, 604800, i32::MAX] {
                            for (a, b) in [(RuleDay::Julian1WithoutLeap(Julian1WithoutLeap::new(1).unwrap()), RuleDay::Julian0WithLeap(Julian0WithLeap::new(365).unwrap())), (RuleDay::MonthWeekDay(MonthWeekDay::new(1, 1, 0).unwrap()), RuleDay::MonthWeekDay(MonthWeekDay::new(12, 5, 6).unwrap())), (RuleDay::MonthWeekDay(MonthWeekDay::new(2, 5, 3).unwrap()), RuleDay::Julian1WithoutLeap(Julian1WithoutLeap::new(60).unwrap()))] {
                                n += 1;
                                if let (Ok(s), Ok(d)) = (LocalTimeType::new(o1, false, Some(b"AAA")), LocalTimeType::new(o2, true, Some(b"BBB"))) {
                                    let _ = AlternateTime::new(s, d, a, t1, b, t2);
                                }
                            }
                        }
                    }
                }
            }
            for v in [0u16, 1, 365, 366, u16::MAX] {
                let _ = (Julian1WithoutLeap::new(v), Julian0WithLeap::new(v));
            }
            for m in [0u8, 1, 12, 13, 255] {
                for w in [0u8, 1, 5, 6, 255] {
                    for d in [0u8, 6, 7, 255] {
                        let _ = MonthWeekDay::new(m, w, d);
                    }
                }
            }
            n
        });
        match r {
            Ok(n) => tl.evals += n,
            Err(m) => c.rec.violation("api", json!({"kind":"api_ctor"}), json!("no panic"), json!(m)),
        }
        c.leave(&id);
    }
    tl.accepted = nz as u64;
    tl
}

/// part "products": two inputs that the other parts vary one at a time, varied together.
///  (a) leap tables by length (1 .. 1000: a table longer than any real one may take another code path) x sign pattern of the
///      corrections x position of the last record relative to i64::MAX (at the limit, within |correction| of it, far from it)
///      x transition layout; lookups, projections and searches at the extremes and around every transition and several records;
///  (b) TimeZoneSettings with d configured directories x a relative name of l bytes: the peak allocation of one lookup must stay
///      within a small multiple of the input (directories + name), not grow with their product.
fn part_products(c: &Child, only_chunk: Option<&str>) -> Tally {
    let lt = |o: i32, d: bool| LocalTimeType::new(o, d, Some(b"ABC")).unwrap();
    let lens: [usize; 16] = [1, 2, 3, 15, 16, 17, 31, 32, 33, 34, 63, 64, 65, 129, 257, 1000];
    let spacing: i64 = 28 * 86400;
    let mut specs: Vec<(usize, u8, u8, u8)> = vec![];
    for &n in &lens {
        for sign in 0..3u8 {
            for last in 0..7u8 {
                for layout in 0..3u8 {
                    specs.push((n, sign, last, layout));
                }
            }
        }
    }
    let t = (0..specs.len())
        .into_par_iter()
        .map(|k| {
            let id = format!("products:leap{k}");
            if only_chunk.map_or(false, |o| o != id) {
                return Tally::default();
            }
            c.enter(&id);
            let (n, sign, last, layout) = specs[k];
            let mut tl = Tally::default();
            // corrections: all -1 steps / all +1 steps / down then up
            let corr = |i: usize| -> i32 {
                match sign {
                    0 => -(i as i32 + 1),
                    1 => i as i32 + 1,
                    _ => {
                        let h = (n / 2) as i32;
                        let i = i as i32;
                        if i < h { -(i + 1) } else { -h + (i - h) + 1 - if h == 0 { 0 } else { 1 } * 0 }
                    }
                }
            };
            let mut leaps: Vec<LeapSecond> = (0..n).map(|i| LeapSecond::new(i as i64 * spacing, corr(i))).collect();
            // one more record at / near the end of the i64 range
            let cn = corr(n - 1);
            let step = if sign == 1 { 1 } else { -1 };
            let m = n as i64 + 1;
            let last_time = match last {
                0 => None,
                1 => Some(i64::MAX),
                2 => Some(i64::MAX - 1),
                3 => Some(i64::MAX - m),
                4 => Some(i64::MAX - m + 1),
                5 => Some(i64::MAX - m - 1),
                _ => Some(i64::MAX - spacing),
            };
            if let Some(lt_) = last_time {
                leaps.push(LeapSecond::new(lt_, cn + step));
            }
            let types = vec![lt(0, false), lt(3600, true)];
            let end = n as i64 * spacing;
            let trans: Vec<Transition> = match layout {
                0 => vec![Transition::new(0, 1), Transition::new(4_000_000_000i64.max(end + 1000), 0)],
                1 => vec![Transition::new(-1000, 1), Transition::new(end / 2 + 7, 0), Transition::new(end + spacing / 2, 1), Transition::new(i64::MAX - 2 * m, 0)],
                _ => (0..n.min(40)).map(|i| Transition::new(i as i64 * spacing + (i as i64 % 3 - 1), (i + 1) % 2)).collect(),
            };
            let case = || json!({"kind":"products_leap","index":k,"records":n,"sign_pattern":sign,"last_record":last,"layout":layout});
            let rules: [Option<TransitionRule>; 2] = [None, Some(TransitionRule::Fixed(types[trans.last().map_or(0, |t| t.local_time_type_index())]))];
            for rule in rules {
                let z = match guard(|| TimeZone::new(trans.clone(), types.clone(), leaps.clone(), rule)) {
                    Err(msg) => {
                        c.rec.violation("products", case(), json!("no panic in the constructor"), json!(msg));
                        continue;
                    }
                    Ok(Err(_)) => continue,
                    Ok(Ok(z)) => z,
                };
                tl.accepted += 1;
                let r = guard(|| {
                    let zr = z.as_ref();
                    let mut ts: Vec<i64> = vec![i64::MIN, i64::MIN + 1, -1, 0, 1, 951868800, 3_999_999_999, i64::MAX - 1, i64::MAX, crate::cal::MIN_UNIX_TIME, crate::cal::MAX_UNIX_TIME];
                    for tr in zr.transitions() {
                        for d in [-m - 1, -m, -1, 0, 1, m, m + 1] {
                            ts.push(tr.unix_leap_time().saturating_add(d));
                        }
                    }
                    let nl = zr.leap_seconds().len();
                    for (i, l) in zr.leap_seconds().iter().enumerate() {
                        if i < 3 || i + 3 >= nl || i == nl / 2 || i == 32 || i == 33 {
                            for d in [-m - 1, -m, -1, 0, 1, m] {
                                ts.push(l.unix_leap_time().saturating_add(d));
                            }
                        }
                    }
                    let mut buf = [None; 4];
                    let mut used = 0u64;
                    for &t in &ts {
                        used += 1;
                        let _ = zr.find_local_time_type(t);
                        if let Ok(d) = DateTime::from_timespec(t, 1, zr) {
                            let _ = format_len(&d);
                            let _ = DateTime::find_n(&mut buf, d.year(), d.month(), d.month_day(), d.hour(), d.minute(), d.second(), 0, zr);
                            let _ = DateTime::find(d.year(), d.month(), d.month_day(), d.hour(), d.minute(), d.second(), 0, zr).map(|l| l.into_inner().len());
                            let _ = d.project(TimeZoneRef::utc());
                        }
                        if let Ok(u) = UtcDateTime::from_timespec(t, 0) {
                            let _ = u.project(zr);
                        }
                    }
                    used
                });
                match r {
                    Ok(u) => {
                        tl.used += u;
                        tl.evals += u;
                    }
                    Err(msg) => c.rec.violation("products", case(), json!("no panic"), json!(msg)),
                }
            }
            c.leave(&id);
            tl
        })
        .reduce(Tally::default, Tally::merge);
    let mut tl = t;
    // (b) directories x name length
    let id = "products:lookup".to_string();
    if only_chunk.map_or(true, |o| o == id) {
        c.enter(&id);
        for &nd in &[0usize, 1, 3, 30, 300, 1000, 3000] {
            let dirs_owned: Vec<String> = (0..nd).map(|i| format!("/zoneinfo-{i:05}")).collect();
            let dirs: Vec<&str> = dirs_owned.iter().map(|s| s.as_str()).collect();
            let last_dir = dirs_owned.last().cloned().unwrap_or_default();
            for &nl in &[1usize, 30, 1000, 30_000, 65_536] {
                for variant in 0..3 {
                    let mut name = String::from("Area/");
                    while name.len() < nl {
                        name.push_str("Abcdefgh/");
                    }
                    name.truncate(nl.max(1));
                    let value = if variant == 2 { format!(":{name}") } else { name.clone() };
                    let want_path = format!("{last_dir}/{name}");
                    let input = dirs_owned.iter().map(|d| d.len()).sum::<usize>() + value.len();
                    tl.evals += 1;
                    let settings = if variant == 1 {
                        // found (a malformed file) in the last directory only
                        TimeZoneSettings::new(&dirs, |p| if p.len() == 5 { Ok(vec![]) } else { Err("nothing here".into()) })
                    } else {
                        TimeZoneSettings::new(&dirs, fail_reader)
                    };
                    let _ = &want_path;
                    let (r, peak) = measured(|| guard(|| settings.parse_posix_tz(&value).is_ok()));
                    let bound = 8 * input + 4096;
                    tl.max_alloc_ratio_x100 = tl.max_alloc_ratio_x100.max((peak as u64 * 100) / (input as u64 + 1));
                    let case = || json!({"kind":"products_lookup","directories":nd,"name_len":nl,"variant":variant});
                    match r {
                        Err(m) => c.rec.violation("products", case(), json!("no panic"), json!(m)),
                        Ok(_) => {
                            if peak > bound {
                                c.rec.violation("products", case(), json!({"peak_alloc_at_most": bound, "input_bytes": input}), json!({"peak_alloc": peak}));
                            }
                        }
                    }
                }
            }
        }
        c.leave(&id);
    }
    tl
}

// ------------------------------------------------------------------------------------------ child / parent

const PARTS: [&str; 10] = ["strings", "edits", "mutate", "headers", "pools", "lengths", "sizes", "rules", "api", "products"];
/// parts run by the unoptimised build (debug profile: no inlining or tail-call elimination, every frame is real)
const UNOPT_PARTS: [&str; 2] = ["sizes", "lengths"];

fn run_part(c: &Child, part: &str, thorough: bool, only_chunk: Option<&str>) -> Tally {
    match part {
        "strings" => part_strings(c, if thorough { 6 } else { 5 }, only_chunk),
        "edits" => part_edits(c, only_chunk),
        "mutate" => part_mutate(c, thorough, only_chunk),
        "headers" => part_headers(c, only_chunk),
        "pools" => part_pools(c, thorough, only_chunk),
        "lengths" => part_lengths(c, only_chunk),
        "sizes" => part_sizes(c, only_chunk),
        "rules" => part_rules(c, only_chunk),
        "api" => part_api(c, only_chunk),
        "products" => part_products(c, only_chunk),
        _ => Tally::default(),
    }
}

/// child: runs one part, writes {evals,...,violations:[...]} to --out
pub fn run_child(args: &Args) -> i32 {
    COUNTING.store(true, Ordering::Relaxed);
    let part = args.extra.get("part").cloned().unwrap_or_default();
    let only = args.extra.get("chunk").cloned();
    let c = Child { rec: Recorder::new(args, "exploration"), progress: args.extra.get("progress").map(std::path::PathBuf::from), inflight: Mutex::new(BTreeSet::new()), single: only.is_some() };
    if only.is_some() {
        rayon::ThreadPoolBuilder::new().num_threads(1).build_global().ok();
    }
    let tl = run_part(&c, &part, args.thorough(), only.as_deref());
    let out = json!({"part": part, "evals": tl.evals, "accepted": tl.accepted, "used": tl.used, "max_alloc_ratio_x100": tl.max_alloc_ratio_x100, "violations": c.rec.viol_count.load(Ordering::Relaxed), "recorded": c.rec.take_violations()});
    if let Some(p) = args.extra.get("out") {
        std::fs::write(p, serde_json::to_string(&out).unwrap()).expect("write child result");
    }
    0
}

static CHILD_SEQ: AtomicU64 = AtomicU64::new(0);

fn spawn_part(exe: &std::path::Path, part: &str, tier: &str, chunk: Option<&str>, limit_s: u64, stall_s: u64) -> (Option<Value>, String, Vec<String>) {
    let seq = CHILD_SEQ.fetch_add(1, Ordering::Relaxed);
    let dir = std::env::temp_dir().join(format!("tzmc-nopanic-{}-{}", std::process::id(), seq));
    let _ = std::fs::create_dir_all(&dir);
    let progress = dir.join("progress");
    let out = dir.join("out.json");
    let mut cmd = std::process::Command::new(exe);
    cmd.arg("nopanic-child").args(["--prop", "C07", "--tier", tier, "--part", part, "--progress", progress.to_str().unwrap(), "--out", out.to_str().unwrap()]);
    if let Some(c) = chunk {
        cmd.args(["--chunk", c]);
    }
    cmd.stdout(std::process::Stdio::null()).stderr(std::process::Stdio::piped());
    let mut child = cmd.spawn().expect("spawn child");
    let start = std::time::Instant::now();
    let mut last_progress = String::new();
    let mut last_change = std::time::Instant::now();
    let status;
    loop {
        match child.try_wait().expect("wait") {
            Some(s) => {
                status = if s.success() { "ok".to_string() } else { format!("crashed: {s}") };
                break;
            }
            None => {
                let p = std::fs::read_to_string(&progress).unwrap_or_default();
                if p != last_progress {
                    last_progress = p;
                    last_change = std::time::Instant::now();
                }
                if last_change.elapsed().as_secs() > stall_s || start.elapsed().as_secs() > limit_s {
                    let _ = child.kill();
                    let _ = child.wait();
                    status = if start.elapsed().as_secs() > limit_s { "time limit of the sub-sweep exceeded".to_string() } else { format!("no progress for {stall_s} s (unbounded work?)") };
                    break;
                }
                std::thread::sleep(std::time::Duration::from_millis(50));
            }
        }
    }
    let inflight: Vec<String> = std::fs::read_to_string(&progress).unwrap_or_default().lines().map(String::from).filter(|l| !l.is_empty()).collect();
    let res = std::fs::read_to_string(&out).ok().and_then(|s| serde_json::from_str(&s).ok());
    let mut stderr = String::new();
    if let Some(mut e) = child.stderr.take() {
        use std::io::Read;
        let _ = e.read_to_string(&mut stderr);
    }
    let _ = std::fs::remove_dir_all(&dir);
    let tail: String = stderr.lines().rev().take(3).collect::<Vec<_>>().join(" | ");
    (res, format!("{status}{}", if tail.is_empty() { String::new() } else { format!(" [{tail}]") }), inflight)
}

pub fn run(args: &Args) -> i32 {
    let rec = Recorder::new(args, "exploration");
    let exe = std::env::current_exe().expect("current exe");
    // second binary: same harness built without overflow checks / debug assertions (if the driver built it)
    let fast = args.extra.get("fast-exe").map(std::path::PathBuf::from).filter(|p| p.exists());
    let tier = if args.thorough() { "thorough" } else { "quick" };
    let mut evals = 0u64;
    let mut accepted = 0u64;
    let mut builds = vec![("checked", exe.clone())];
    if let Some(f) = fast {
        builds.push(("unchecked", f));
    }
    if let Some(u) = args.extra.get("unopt-exe").map(std::path::PathBuf::from).filter(|p| p.exists()) {
        builds.push(("unoptimised", u));
    }
    for (bname, bexe) in &builds {
        for part in PARTS {
            if *bname == "unoptimised" && !UNOPT_PARTS.contains(&part) {
                continue;
            }
            let (res, status, inflight) = spawn_part(bexe, part, tier, None, if args.thorough() { 3600 } else { 900 }, 120);
            let label = format!("{part}[{bname}]");
            match (&res, status.starts_with("ok")) {
                (Some(v), true) => {
                    evals += v["evals"].as_u64().unwrap_or(0);
                    accepted += v["accepted"].as_u64().unwrap_or(0);
                    rec.sub(&label, json!({"evaluations": v["evals"], "accepted_inputs": v["accepted"], "uses_of_accepted_zones": v["used"], "max_peak_alloc_over_input_len_x100": v["max_alloc_ratio_x100"], "violations": v["violations"]}));
                    if let Some(arr) = v["recorded"].as_array() {
                        for r in arr {
                            rec.violation(&label, r["case"].clone(), r["expected"].clone(), r["got"].clone());
                        }
                    }
                    let extra = v["violations"].as_u64().unwrap_or(0).saturating_sub(v["recorded"].as_array().map_or(0, |a| a.len() as u64));
                    for _ in 0..extra {
                        rec.viol_count.fetch_add(1, Ordering::Relaxed);
                    }
                }
                _ => {
                    // crash or hang: attributed to the chunks that were in flight
                    rec.sub(&label, json!({"status": status, "in_flight_chunks": inflight}));
                    rec.violation(&label, json!({"kind":"crash","part":part,"build":bname,"chunks":inflight}), json!("sub-sweep completes without abort, stack overflow, allocation failure or hang"), json!(status));
                }
            }
        }
    }
    rec.add(evals, accepted);
    rec.set_rule("supervised child processes, counting allocator (peak live bytes per parser call <= 8 x input length + 4 KiB; single requests > 1 GiB refused), per-sub-sweep stall watchdog. Inputs: every symbol string up to the bound through 3 decoding paths; one-edit deviations and numeric bombs of 30 core sentences; every truncation and 6 byte values at every offset of every distinct corpus file; hostile header counts singly and in pairs, extreme time fields; boundary-value products through every public constructor/query/getter/Display on zones with extreme transitions and leap records; every accepted input is then used (lookups, searches, projections). designations of every length 0..=1100 through three routes; tables of 20 000 .. 1 000 000 transitions, 70 000 types, 200 000 leap records on a 2 MiB stack. Builds: overflow-checks+debug-assertions on, and off, and (sizes / lengths only) an unoptimised build. non-trivial = accepted inputs (zones that were then used)");
    rec.set_exhaustive(true);
    rec.outcome("Err");
    rec.outcome("Ok");
    rec.sample(json!({"string_case": "AAA0AAA,9999999999999999999999999999999999999999,0", "tzif_case": "header timecnt=2^32-1 with a 3-transition body", "api_case": "DateTime::find_n(i32::MIN, 255, 255, 255, 255, 255, u32::MAX) on a zone with a transition at i64::MAX"}));
    let _ = unhex;
    rec.finish()
}

pub fn replay(case: &Value, args: &Args) -> i32 {
    let exe = std::env::current_exe().expect("current exe");
    match case["kind"].as_str().unwrap_or("") {
        "crash" => {
            let part = case["part"].as_str().unwrap_or("");
            // the crash is replayed with the build that showed it
            let exe = match case["build"].as_str() {
                Some("unoptimised") => exe.parent().and_then(|d| d.parent()).map(|t| t.join("unopt").join("tzmc")).filter(|p| p.exists()).unwrap_or(exe.clone()),
                Some("unchecked") => exe.parent().and_then(|d| d.parent()).map(|t| t.join("fast").join("tzmc")).filter(|p| p.exists()).unwrap_or(exe.clone()),
                _ => exe.clone(),
            };
            let mut bad = false;
            for ch in case["chunks"].as_array().cloned().unwrap_or_default() {
                let ch = ch.as_str().unwrap_or("").to_string();
                let (res, status, inflight) = spawn_part(&exe, part, "quick", Some(&ch), 1800, 120);
                println!("chunk {ch}: {status}; last announced: {inflight:?}; completed={}", res.is_some());
                if !status.starts_with("ok") || res.as_ref().map_or(true, |v| v["violations"].as_u64().unwrap_or(0) > 0) {
                    bad = true;
                }
            }
            if bad {
                println!("REPLAY: violation reproduced");
                1
            } else {
                println!("REPLAY: chunks complete");
                0
            }
        }
        "tzif" | "tzif_use" => {
            COUNTING.store(true, Ordering::Relaxed);
            let c = Child { rec: Recorder::new(args, "exploration"), progress: None, inflight: Mutex::new(BTreeSet::new()), single: false };
            let b = unhex(case["bytes_hex"].as_str().unwrap());
            let mut tl = Tally::default();
            for _ in 0..2 {
                try_tzif(&c, &b, "replay", &|| json!("replay"), &mut tl);
            }
            verdict(&c.rec)
        }
        "string" | "string_use" => {
            COUNTING.store(true, Ordering::Relaxed);
            let c = Child { rec: Recorder::new(args, "exploration"), progress: None, inflight: Mutex::new(BTreeSet::new()), single: false };
            let s: Vec<u8> = case["bytes"].as_array().unwrap().iter().map(|x| x.as_u64().unwrap() as u8).collect();
            let mut tl = Tally::default();
            for _ in 0..2 {
                try_string(&c, &s, "replay", &mut tl);
                for _ in 0..20 {
                    tl.accepted = 15;
                    try_string(&c, &s, "replay", &mut tl);
                }
            }
            verdict(&c.rec)
        }
        "products_leap" | "products_lookup" => {
            COUNTING.store(true, Ordering::Relaxed);
            let c = Child { rec: Recorder::new(args, "exploration"), progress: None, inflight: Mutex::new(BTreeSet::new()), single: false };
            let chunk = if case["kind"] == "products_leap" { format!("products:leap{}", case["index"].as_u64().unwrap_or(0)) } else { "products:lookup".to_string() };
            for _ in 0..2 {
                part_products(&c, Some(&chunk));
            }
            verdict(&c.rec)
        }
        "api_zone" | "api_ctor" => {
            let c = Child { rec: Recorder::new(args, "exploration"), progress: None, inflight: Mutex::new(BTreeSet::new()), single: false };
            part_api(&c, None);
            verdict(&c.rec)
        }
        _ => 2,
    }
}

fn verdict(rec: &Recorder) -> i32 {
    if rec.viol_count.load(Ordering::Relaxed) > 0 {
        println!("REPLAY: violation reproduced");
        1
    } else {
        println!("REPLAY: case passes");
        0
    }
}
