//! Engine `table`: C03 forward lookup in transition tables vs linear-scan model.

use crate::cal::{MAX_UNIX_TIME, MIN_UNIX_TIME};
use crate::common::*;
use crate::conv::*;
use rayon::prelude::*;
use refmodel::cal::Cycle;
use refmodel::rule::{Day, RuleSpec};
use refmodel::zone::{FwdErr, MRule, MType, MZone};
use serde_json::{json, Value};
use tz::{DateTime, TzError};

#[derive(Default, Clone, Copy)]
pub struct Tally {
    pub zones: u64,
    pub rejected: u64,
    pub evals: u64,
    pub nontrivial: u64,
    pub digest: u64,
}
impl Tally {
    pub fn merge(mut self, o: Tally) -> Tally {
        self.zones += o.zones;
        self.rejected += o.rejected;
        self.evals += o.evals;
        self.nontrivial += o.nontrivial;
        self.digest = self.digest.wrapping_add(o.digest);
        self
    }
}

fn base_types() -> Vec<MType> {
    vec![MType::new(-18000, false, Some("EST")), MType::new(-14400, true, Some("EDT")), MType::new(-14400, false, Some("XXX"))]
}

fn us_rule(cyc: &Cycle) -> MRule {
    MRule::alt(
        cyc,
        RuleSpec { std_off: -18000, dst_off: -14400, start: Day::M(3, 2, 0), start_time: 7200, end: Day::M(11, 1, 0), end_time: 7200 },
        MType::new(-18000, false, Some("EST")),
        MType::new(-14400, true, Some("EDT")),
    )
}

const DAY28: i64 = 28 * 86400;

fn layout_times(layout: u8, n: usize) -> Vec<i64> {
    let base = 400_000_000i64;
    match layout {
        0 => (0..n).map(|i| base + 1000 * i as i64).collect(),
        1 => (0..n).map(|i| base + i as i64).collect(),
        3 => {
            // around the limits of narrower time representations: +-2^31, +-2^32, +-2^52/53, +-2^62 (ascending)
            let mut v: Vec<i64> = vec![];
            for k in [62u32, 53, 52, 32, 31] {
                v.extend([-(1i64 << k) - 1, -(1i64 << k), -(1i64 << k) + 1]);
            }
            v.extend([-1, 0, 1]);
            for k in [31u32, 32, 52, 53, 62] {
                v.extend([(1i64 << k) - 1, 1i64 << k, (1i64 << k) + 1]);
            }
            // the n middle elements
            let skip = (v.len().saturating_sub(n)) / 2;
            v.into_iter().skip(skip).take(n).collect()
        }
        _ => {
            // extreme: first and last at the ends of i64, the rest spaced
            let mut v: Vec<i64> = (0..n).map(|i| base + 1000 * i as i64).collect();
            if n >= 1 {
                v[0] = i64::MIN + 1;
            }
            if n >= 2 {
                v[n - 1] = i64::MAX;
            }
            v
        }
    }
}

/// leap table variants: 0 none; 1..=3 one +1 record before/inside/after; 4..=6 records +1 then back to 0 (negative leap)
fn leap_table(variant: u8, times: &[i64]) -> Vec<(i64, i32)> {
    if variant == 0 {
        return vec![];
    }
    let mid = if times.is_empty() { 400_000_500 } else { times[times.len() / 2] };
    let mid = if mid < 3 * DAY28 || mid > 1 << 40 { 400_000_500 } else { mid };
    let pos = match (variant - 1) % 3 {
        0 => 78_796_800,
        1 => mid,
        _ => 900_000_000,
    };
    if variant <= 3 {
        vec![(pos, 1)]
    } else {
        vec![(pos - DAY28 - 5, 1), (pos, 0)]
    }
}

pub fn check_zone(cyc: &Cycle, z: &MZone, probes: &[i64], rec: &Recorder, sweep: &str, tl: &mut Tally) {
    let iz = match ImplZone::from_model(z) {
        Ok(i) => i,
        Err(e) => {
            rec.violation(sweep, json!({"kind":"zone","zone":zone_json(z),"probes":[]}), json!("rule constructible"), json!(e));
            return;
        }
    };
    // does the model expect the constructor to refuse?  (rule cannot be evaluated at the last transition)
    let model_refuses = match (&z.rule, z.trans.last()) {
        (Some(_), Some(&(t, _))) => match z.to_utc(t) {
            None => true,
            Some(u) => {
                if t == i64::MIN {
                    true
                } else {
                    z.rule_type(cyc, u).is_err()
                }
            }
        },
        _ => false,
    };
    let zr = match iz.zref() {
        Ok(r) => {
            if model_refuses {
                rec.violation(sweep, json!({"kind":"zone","zone":zone_json(z),"probes":[]}), json!("constructor refuses (rule not evaluable at last transition)"), json!("Ok"));
                return;
            }
            r
        }
        Err(e) => {
            tl.rejected += 1;
            if !model_refuses {
                rec.violation(sweep, json!({"kind":"zone","zone":zone_json(z),"probes":[]}), json!("constructor accepts"), json!(err_name(&e)));
            }
            return;
        }
    };
    #[cfg(feature = "tz-alloc")]
    let owned = match iz.owned() {
        Ok(o) => o,
        Err(e) => {
            rec.violation(sweep, json!({"kind":"zone","zone":zone_json(z),"probes":[]}), json!("owned constructor agrees with borrowed"), json!(err_name(&e)));
            return;
        }
    };
    tl.zones += 1;
    let mut prev_exp: Option<Result<&MType, FwdErr>> = None;
    let mut prev_u = i64::MIN;
    for &u in probes {
        tl.evals += 1;
        let exp = z.forward(cyc, u);
        if let Some(p) = &prev_exp {
            if prev_u.checked_add(1) == Some(u) && *p != exp {
                tl.nontrivial += 1;
            }
        }
        prev_u = u;
        let got = zr.find_local_time_type(u);
        let ok = match (&exp, &got) {
            (Ok(m), Ok(l)) => same_type(l, m),
            (Err(FwdErr::NoType), Err(TzError::NoAvailableLocalTimeType)) => true,
            (Err(FwdErr::OutOfRange), Err(TzError::OutOfRange)) => true,
            // I4: outside the supported instant range an out-of-range refusal is always acceptable (never a wrong type)
            (_, Err(TzError::OutOfRange)) if u < MIN_UNIX_TIME || u > MAX_UNIX_TIME => true,
            _ => false,
        };
        let case = || json!({"kind":"zone","zone":zone_json(z),"probes":[u]});
        if !ok {
            rec.violation(sweep, case(), json!(format!("{:?}", exp.as_ref().map(|m| mtype_json(m)))), json!(format!("{:?}", got.as_ref().map(|l| type_json(l)))));
            prev_exp = Some(exp);
            continue;
        }
        #[cfg(feature = "tz-alloc")]
        {
            let g2 = owned.find_local_time_type(u);
            let same = match (&got, &g2) {
                (Ok(a), Ok(b)) => a == b,
                (Err(a), Err(b)) => err_name(a) == err_name(b),
                _ => false,
            };
            if !same {
                rec.violation(sweep, case(), json!(format!("owned == borrowed: {:?}", got.as_ref().map(|l| type_json(l)))), json!(format!("{:?}", g2.as_ref().map(|l| type_json(l)))));
            }
        }
        // the same instant through the other public routes must carry the same type
        if let Ok(l) = &got {
            let total = u as i128 * 1_000_000_000 + 17;
            let mut routes: Vec<(&str, Result<DateTime, TzError>)> = vec![("from_total_nanoseconds", DateTime::from_total_nanoseconds(total, zr))];
            if let Ok(uu) = tz::UtcDateTime::from_timespec(u, 17) {
                routes.push(("UtcDateTime::project", uu.project(zr)));
            }
            if let Ok(src) = tz::LocalTimeType::new(l.ut_offset(), !l.is_dst(), Some(b"SRC")) {
                if let Ok(d0) = DateTime::from_timespec_and_local(u, 17, src) {
                    routes.push(("DateTime::project from a type with the same offset", d0.project(zr)));
                }
            }
            // a source that was GIVEN as second 60 of the previous minute (its instant is u) seen at the same offset
            if let Some(lu) = u.checked_add(l.ut_offset() as i64) {
                if lu.rem_euclid(60) == 0 && lu - 1 >= MIN_UNIX_TIME && lu <= MAX_UNIX_TIME {
                    let (pc, ph, pm, _) = cyc.gmtime(lu - 1);
                    if let Ok(src) = tz::LocalTimeType::new(l.ut_offset(), !l.is_dst(), Some(b"SRC")) {
                        if let Ok(d0) = DateTime::new(pc.year as i32, pc.month, pc.mday, ph, pm, 60, 17, src) {
                            if d0.unix_time() == u {
                                routes.push(("DateTime::project of a date-time given with second 60", d0.project(zr)));
                            }
                        }
                    }
                }
            }
            for (name, r) in routes {
                match r {
                    Ok(d) => {
                        let fields_ok = match u.checked_add(l.ut_offset() as i64) {
                            Some(lu) if lu >= MIN_UNIX_TIME && lu <= MAX_UNIX_TIME => {
                                let (c, h, mi, se) = cyc.gmtime(lu);
                                d.year() as i64 == c.year && d.month() == c.month && d.month_day() == c.mday && d.hour() == h && d.minute() == mi && d.second() == se
                            }
                            _ => true,
                        };
                        if !fields_ok {
                            rec.violation(sweep, case(), json!({"route": name, "fields_of": u}), json!(format!("{d:?}")));
                        }
                        if d.local_time_type() != *l || d.unix_time() != u || d.nanoseconds() != 17 {
                            rec.violation(sweep, case(), json!({"route": name, "type": type_json(l), "unix_time": u}), json!(format!("{d:?}")));
                        }
                    }
                    // a refusal is right only when the local date-time of the instant is not representable
                    Err(TzError::OutOfRange) => {
                        let local_ok = u.checked_add(l.ut_offset() as i64).map_or(false, |lu| lu >= MIN_UNIX_TIME && lu <= MAX_UNIX_TIME);
                        // the routes that start from a UTC date-time also need the instant itself in the UTC range
                        let utc_ok = u >= MIN_UNIX_TIME && u <= MAX_UNIX_TIME;
                        if local_ok && (utc_ok || !name.starts_with("UtcDateTime")) {
                            rec.violation(sweep, case(), json!({"route": name, "type": type_json(l), "local_date_time_representable": true}), json!("OutOfRange"));
                        }
                    }
                    Err(e) => rec.violation(sweep, case(), json!({"route": name, "type": type_json(l)}), json!(err_name(&e))),
                }
            }
        }
        // local date-time = UTC calendar date of instant + offset
        let dt = DateTime::from_timespec(u, 17, zr);
        match (&exp, &dt) {
            (Ok(m), r) => {
                let shifted = u.checked_add(m.off as i64);
                let in_range = shifted.map_or(false, |s| s >= MIN_UNIX_TIME && s <= MAX_UNIX_TIME);
                match r {
                    Ok(d) => {
                        let good = in_range && {
                            let (c, h, mi, s) = cyc.gmtime(shifted.unwrap());
                            d.year() as i64 == c.year && d.month() == c.month && d.month_day() == c.mday && d.hour() == h && d.minute() == mi && d.second() == s && d.nanoseconds() == 17 && d.unix_time() == u && same_type(d.local_time_type(), m) && d.week_day() == c.wday && d.year_day() == c.yday
                        };
                        if !good {
                            rec.violation(sweep, case(), json!({"local_of": shifted, "in_range": in_range}), json!(format!("{d:?}")));
                        }
                        tl.digest = tl.digest.wrapping_add((d.year() as u64).wrapping_mul(13).wrapping_add(d.year_day() as u64).wrapping_add(u as u64));
                    }
                    Err(TzError::OutOfRange) if !in_range => {}
                    Err(e) => rec.violation(sweep, case(), json!({"local_of": shifted, "in_range": in_range}), json!(err_name(e))),
                }
            }
            (Err(FwdErr::NoType), Err(TzError::NoAvailableLocalTimeType)) => {}
            (Err(FwdErr::OutOfRange), Err(TzError::OutOfRange)) => {}
            (_, Err(TzError::OutOfRange)) if u < MIN_UNIX_TIME || u > MAX_UNIX_TIME => {}
            (e, r) => rec.violation(sweep, case(), json!(format!("{e:?}")), json!(format!("{r:?}"))),
        }
        prev_exp = Some(exp);
    }
}

pub fn probes_for(z: &MZone) -> Vec<i64> {
    let mut p: Vec<i64> = vec![i64::MIN, i64::MIN + 1, -1, 0, 1, i64::MAX - 1, i64::MAX];
    for &(t, _) in &z.trans {
        for d in -3i64..=3 {
            p.push(t.saturating_add(d));
        }
    }
    for i in 0..z.leaps.len() {
        let u = z.leap_utc(i);
        for d in -2i64..=2 {
            p.push(u.saturating_add(d));
        }
    }
    // supported-range limits seen through every offset of the zone (the local date must be representable, not the instant)
    for o in z.offsets() {
        for lim in [MIN_UNIX_TIME, MAX_UNIX_TIME] {
            for d in -1i64..=1 {
                p.push(lim - o as i64 + d);
                p.push(lim + d);
            }
        }
    }
    p.sort();
    p.dedup();
    p
}

/// probes around the trailing DST rule's own transitions in the years after the table (rule evaluated at the instant,
/// not at the leap-corrected value)
pub fn rule_probes(cyc: &Cycle, z: &MZone) -> Vec<i64> {
    let mut p = vec![];
    if let (Some(MRule::Alt { spec, .. }), Some(&(t, _))) = (&z.rule, z.trans.last()) {
        if t > -(1i64 << 40) && t < (1i64 << 40) {
            let (c, _, _, _) = cyc.gmtime(t);
            for y in c.year + 1..=c.year + 3 {
                for x in [spec.s(cyc, y), spec.e(cyc, y)] {
                    for d in -4i64..=4 {
                        p.push(x + d);
                    }
                }
            }
        }
    }
    p
}

fn build_zone(cyc: &Cycle, times: &[i64], idx: &[usize], leap_variant: u8, rule_kind: u8, us: &MRule) -> MZone {
    let mut z = MZone { trans: times.iter().cloned().zip(idx.iter().cloned()).collect(), types: base_types(), leaps: leap_table(leap_variant, times), rule: None };
    match rule_kind {
        0 => {}
        1 => {
            // fixed rule equal to the last transition's type (or an arbitrary type for an empty table)
            let t = z.trans.last().map(|&(_, i)| z.types[i].clone()).unwrap_or_else(|| z.types[2].clone());
            z.rule = Some(MRule::Fixed(t));
        }
        _ => {
            z.rule = Some(us.clone());
            // copy the rule's value at the last transition into the last transition's type index
            if let Some(&(t, _)) = z.trans.last() {
                if let Some(u) = z.switch_instant(t) {
                    if let Ok(ty) = z.rule_type(cyc, u) {
                        let i = if ty.dst { 1 } else { 0 };
                        let n = z.trans.len();
                        z.trans[n - 1].1 = i;
                    }
                }
            }
        }
    }
    z
}

/// zones with more local time types than a TZif file can carry (the constructors do not limit them): K types with pairwise
/// different offsets, transitions that visit every type, and neighbours whose indices agree modulo 256 / 128 / 64
fn sweep_many_types(cyc: &Cycle, rec: &Recorder, thorough: bool) -> Tally {
    let ks: &[usize] = if thorough { &[255, 256, 257, 258, 300, 511, 512, 513, 600, 1025, 4097, 65537] } else { &[256, 257, 300, 513] };
    let mut work = vec![];
    for &k in ks {
        for stride in [1usize, 255, 256, 257, 128, 64] {
            for rule_kind in 0..2u8 {
                work.push((k, stride, rule_kind));
            }
        }
    }
    let t = work
        .par_iter()
        .map(|&(k, stride, rule_kind)| {
            let mut tl = Tally::default();
            let r = guard(|| {
                let mut t2 = Tally::default();
                let types: Vec<MType> = (0..k).map(|i| MType::new(60 * i as i32 - 43200, i % 3 == 1, Some(&format!("T{:04}", i)))).collect();
                let n = k + 7;
                let trans: Vec<(i64, usize)> = (0..n).map(|i| (400_000_000 + 86_400 * i as i64, (1 + i * stride) % k)).collect();
                let rule = if rule_kind == 1 { Some(MRule::Fixed(types[trans[n - 1].1])) } else { None };
                // strides 255 / 257 also carry a leap table (more than 256 types x leap seconds)
                let leaps = if stride == 255 || stride == 257 { vec![(5, 1), (400_000_000 + 86_400 * 40 + 7, 2)] } else { vec![] };
                let z = MZone { trans, types, leaps, rule };
                let probes = probes_for(&z);
                check_zone(cyc, &z, &probes, rec, "many_types", &mut t2);
                t2
            });
            match r {
                Ok(t2) => tl = tl.merge(t2),
                Err(m) => rec.violation("many_types", json!({"kind":"many_types","k":k,"stride":stride,"rule":rule_kind}), json!("no panic"), json!(m)),
            }
            tl
        })
        .reduce(Tally::default, Tally::merge);
    rec.sub("many_types", json!({"zones": t.zones, "lookups": t.evals, "type_counts": ks}));
    t
}

/// leap records at the very end of the i64 range (their UTC instant = count - previous correction lies beyond i64 for negative
/// corrections): two- and three-record tables whose last record sits at i64::MAX - {0, 1, 2, 28 days}, every sign combination
fn sweep_leap_extreme_positions(cyc: &Cycle, rec: &Recorder) -> Tally {
    let mut tl = Tally::default();
    let mut tables: Vec<Vec<(i64, i32)>> = vec![];
    for c0 in [1i32, -1] {
        for step in [1i32, -1] {
            for k in [0i64, 1, 2, DAY28, i32::MAX as i64] {
                tables.push(vec![(78_796_800, c0), (i64::MAX - k, c0 + step)]);
                for step2 in [1i32, -1] {
                    if k + DAY28 < i64::MAX / 2 {
                        tables.push(vec![(78_796_800, c0), (i64::MAX - k - DAY28, c0 + step), (i64::MAX - k, c0 + step + step2)]);
                    }
                }
            }
        }
        tables.push(vec![(i64::MAX, c0)]);
        tables.push(vec![(i64::MAX - 1, c0)]);
    }
    for leaps in tables {
        for rule_kind in 0..2u8 {
            let r = guard(|| {
                let mut t2 = Tally::default();
                let types = base_types();
                let trans = vec![(1_000_000_000i64, 1usize), (2_000_000_000, 0)];
                let rule = if rule_kind == 1 { Some(MRule::Fixed(types[0])) } else { None };
                let z = MZone { trans, types, leaps: leaps.clone(), rule };
                let mut probes = probes_for(&z);
                probes.extend([999_999_999, 1_000_000_000, 1_000_000_001, 1_999_999_998, 1_999_999_999, 2_000_000_000, 2_000_000_001]);
                probes.sort();
                probes.dedup();
                check_zone(cyc, &z, &probes, rec, "leap_extreme_positions", &mut t2);
                t2
            });
            match r {
                Ok(t2) => tl = tl.merge(t2),
                Err(m) => rec.violation("leap_extreme_positions", json!({"kind":"leap_extreme","leaps":leaps.iter().map(|&(a,b)| json!([a,b])).collect::<Vec<_>>()}), json!("no panic"), json!(m)),
            }
        }
    }
    rec.sub("leap_extreme_positions", json!({"zones": tl.zones, "lookups": tl.evals}));
    tl
}

/// leap tables by length x sign pattern x position of the last record relative to i64::MAX x transition layout: a table longer
/// than any real one may take another code path (a bisection over a derived key instead of the scan), and a derived key such
/// as `record time - previous correction` leaves the i64 range only when a long enough negative run meets a record near the
/// limit. Each factor alone is in other sweeps; here they are multiplied.
pub fn sweep_leap_long_tables(cyc: &Cycle, rec: &Recorder, thorough: bool) -> Tally {
    let lens: Vec<usize> = if thorough { vec![1, 2, 3, 15, 16, 17, 31, 32, 33, 34, 63, 64, 65, 129, 257, 1000] } else { vec![2, 16, 17, 31, 32, 33, 34, 63, 64, 65, 129] };
    let mut specs: Vec<(usize, u8, u8, u8)> = vec![];
    for &n in &lens {
        for sign in 0..3u8 {
            for last in 0..7u8 {
                for layout in 0..3u8 {
                    specs.push((n, sign, last, layout));
                }
            }
        }
    }
    let tl = specs
        .par_iter()
        .map(|&(n, sign, last, layout)| {
            let corr = |i: usize| -> i32 {
                let (i, h) = (i as i32, (n / 2) as i32);
                match sign {
                    0 => -(i + 1),
                    1 => i + 1,
                    _ => if i < h { -(i + 1) } else { -h + (i - h) + 1 },
                }
            };
            let mut leaps: Vec<(i64, i32)> = (0..n).map(|i| (i as i64 * DAY28, corr(i))).collect();
            // the down-then-up pattern must step by one at the turn
            if sign == 2 {
                for i in 1..n {
                    let d = leaps[i].1 - leaps[i - 1].1;
                    if d != 1 && d != -1 {
                        leaps[i].1 = leaps[i - 1].1 + 1;
                    }
                }
            }
            let cn = leaps[n - 1].1;
            let step = if sign == 0 { -1 } else { 1 };
            let m = n as i64 + 1;
            let last_time = match last {
                0 => None,
                1 => Some(i64::MAX),
                2 => Some(i64::MAX - 1),
                3 => Some(i64::MAX - m),
                4 => Some(i64::MAX - m + 1),
                5 => Some(i64::MAX - m - 1),
                _ => Some(i64::MAX - DAY28),
            };
            if let Some(t) = last_time {
                leaps.push((t, cn + step));
            }
            let end = n as i64 * DAY28;
            let trans: Vec<(i64, usize)> = match layout {
                0 => vec![(0, 1), (4_000_000_000i64.max(end + 1000), 0)],
                1 => vec![(-1000, 1), (end / 2 + 7, 0), (end + DAY28 / 2, 1), (i64::MAX - 2 * m, 0)],
                _ => (0..n.min(40)).map(|i| (i as i64 * DAY28 + (i as i64 % 3 - 1), (i + 1) % 2)).collect(),
            };
            let mut tl = Tally::default();
            for rule_kind in 0..2u8 {
                let r = guard(|| {
                    let mut t2 = Tally::default();
                    let types = base_types();
                    let rule = if rule_kind == 1 { Some(MRule::Fixed(types[trans.last().unwrap().1])) } else { None };
                    let z = MZone { trans: trans.clone(), types, leaps: leaps.clone(), rule };
                    let mut probes = probes_for(&z);
                    probes.extend([951_868_800, 3_999_999_999, end + 5, i64::MAX - 3 * m]);
                    for &(t, _) in &trans {
                        probes.extend([t.saturating_sub(m + 1), t.saturating_sub(m), t.saturating_add(m), t.saturating_add(m + 1)]);
                    }
                    probes.sort();
                    probes.dedup();
                    check_zone(cyc, &z, &probes, rec, "leap_long_tables", &mut t2);
                    t2
                });
                match r {
                    Ok(t2) => tl = tl.merge(t2),
                    Err(msg) => rec.violation("leap_long_tables", json!({"kind":"leap_long","records":n,"sign_pattern":sign,"last_record":last,"layout":layout}), json!("no panic"), json!(msg)),
                }
            }
            tl
        })
        .reduce(Tally::default, Tally::merge);
    rec.sub("leap_long_tables", json!({"table_lengths": lens, "zones": tl.zones, "zones_refused_as_model_predicts": tl.rejected, "lookups": tl.evals}));
    tl
}

/// table lengths and time distributions beyond the per-length sweep: every multiple of 64 up to 2048, 2^k - 1, 2^k, 2^k + 1 up
/// to 2^16, in six time distributions (uniform; uniform behind one entry at the far end of the range, as zic's "Big Bang"
/// entry; uniform in front of one far entry; two clusters of different density; geometric spacing; adjacent seconds). A search
/// strategy that depends on the length (pages, blocks) or on the values (interpolation) is exercised at its own boundaries.
/// Zones without leap seconds: the expected answer at t_i - 1 / t_i / t_i + 1 follows from the construction (type of entry
/// i - 1 resp. i), so every entry of every table is probed without a quadratic model scan.
pub fn sweep_table_shapes(rec: &Recorder, thorough: bool) -> Tally {
    let mut lens: Vec<usize> = (1..=32).map(|k| k * 64).collect();
    for k in 8..=16u32 {
        for d in [-1i64, 0, 1] {
            lens.push(((1i64 << k) + d) as usize);
        }
    }
    lens.extend([300, 600, 601, 1000, 1500, 3000]);
    if thorough {
        lens.extend((257..=1100).step_by(1));
        lens.extend([100_000, 262_144, 1_000_000]);
    }
    lens.sort();
    lens.dedup();
    let mut work: Vec<(usize, u8, bool)> = vec![];
    for &n in &lens {
        for dist in 0..6u8 {
            for with_rule in [false, true] {
                if n > 5000 && (with_rule || dist >= 4) && !thorough {
                    continue;
                }
                work.push((n, dist, with_rule));
            }
        }
    }
    let tl = work
        .par_iter()
        .map(|&(n, dist, with_rule)| {
            let mut tl = Tally::default();
            let step: i64 = 15_778_800; // half a year
            let mut times: Vec<i64> = match dist {
                0 => (0..n).map(|i| i as i64 * step).collect(),
                1 => std::iter::once(-(1i64 << 59)).chain((1..n).map(|i| i as i64 * step)).collect(),
                2 => (0..n - 1).map(|i| i as i64 * step).chain(std::iter::once(1i64 << 59)).collect(),
                3 => (0..n).map(|i| if i < n / 2 { i as i64 * 7 } else { 1_000_000_000 + (i - n / 2) as i64 * step }).collect(),
                4 => {
                    let mut v: Vec<i64> = vec![];
                    let mut x: i64 = -4_000_000_000_000_000;
                    for i in 0..n {
                        v.push(x);
                        // spacing grows by ~0.1 % per entry, capped
                        x = x.saturating_add(1 + (1i64 << (i * 40 / n.max(1)).min(40)));
                    }
                    v
                }
                _ => (0..n).map(|i| 2_000_000_000 + i as i64).collect(),
            };
            times.dedup();
            let n = times.len();
            let mtypes = [MType::new(-18000, false, Some("EST")), MType::new(-14400, true, Some("EDT")), MType::new(3600, false, Some("CET"))];
            let types: Vec<tz::timezone::LocalTimeType> = mtypes.iter().map(ltt).collect();
            let idx = |i: usize| (i + 1) % 3;
            let trans: Vec<tz::timezone::Transition> = times.iter().enumerate().map(|(i, &t)| tz::timezone::Transition::new(t, idx(i))).collect();
            let rule = if with_rule { Some(tz::timezone::TransitionRule::Fixed(types[idx(n - 1)])) } else { None };
            let case = |t: i64| json!({"kind":"table_shape","length":n,"distribution":dist,"fixed_rule":with_rule,"t":t});
            let r = guard(|| {
                let mut tl = Tally::default();
                let zr = match tz::timezone::TimeZoneRef::new(&trans, &types, &[], &rule) {
                    Ok(z) => z,
                    Err(e) => {
                        rec.violation("table_shapes", case(0), json!("constructor accepts"), json!(err_name(&e)));
                        return tl;
                    }
                };
                tl.zones += 1;
                for i in 0..n {
                    for d in [-1i64, 0, 1] {
                        let t = times[i] + d;
                        // entry in force at t: the last entry with time <= t
                        let j: Option<usize> = if d < 0 { if i > 0 && times[i - 1] <= t { Some(i - 1) } else if i > 0 { None } else { None } } else { Some(if d > 0 && i + 1 < n && times[i + 1] <= t { i + 1 } else { i }) };
                        let j = if d < 0 && i > 0 && times[i - 1] > t { continue } else { j };
                        tl.evals += 1;
                        let exp: Result<&MType, ()> = match j {
                            None => Ok(&mtypes[0]),
                            Some(j) if j + 1 == n && !with_rule => Err(()),
                            Some(j) => Ok(&mtypes[idx(j)]),
                        };
                        let got = zr.find_local_time_type(t);
                        let ok = match (&exp, &got) {
                            (Ok(m), Ok(l)) => same_type(l, m),
                            (Err(()), Err(TzError::NoAvailableLocalTimeType)) => true,
                            _ => false,
                        };
                        if !ok {
                            rec.violation("table_shapes", case(t), json!(format!("{:?}", exp.map(|m| (m.off, m.dst)))), json!(format!("{:?}", got.map(type_json))));
                        } else if let Ok(m) = exp {
                            tl.nontrivial += (d == 0) as u64;
                            if crate::find::in_supported(t) {
                                match DateTime::from_timespec(t, 0, zr) {
                                    Ok(dt) if dt.local_time_type().ut_offset() == m.off && dt.unix_time() == t => {}
                                    other => rec.violation("table_shapes", case(t), json!({"from_timespec offset": m.off}), json!(format!("{:?}", other.map(|d| d.local_time_type().ut_offset())))),
                                }
                            }
                        }
                    }
                }
                tl
            });
            match r {
                Ok(t2) => tl = tl.merge(t2),
                Err(m) => rec.violation("table_shapes", case(0), json!("no panic"), json!(m)),
            }
            tl
        })
        .reduce(Tally::default, Tally::merge);
    rec.sub("table_shapes", json!({"lengths": lens.len(), "max_length": lens.last(), "distributions": 6, "zones": tl.zones, "lookups": tl.evals}));
    tl
}

/// long call histories on one thread (state recycled by a wrapping counter or a fixed-capacity table): a lookup in zone A, N
/// lookups in zone B, a different lookup in zone A, for N = 2^k - 2 .. 2^k + 1, k = 4..=17; A has three types, B two
/// the clock route: `find_current_local_time_type`, `DateTime::now`, `UtcDateTime::now` under every answer of the system clock
/// in {second -3..+3 around a block of transitions} x {0, 1, 499 999 999, 500 000 000, 500 000 001, 999 999 999 ns}; the clock
/// (interposed `clock_gettime`) is owned by the harness, so the expected instant is known exactly: "now" is the second the
/// clock shows, whatever its fraction
#[cfg(feature = "tz-std")]
fn sweep_clock_route(cyc: &Cycle, rec: &Recorder) -> Tally {
    let mut tl = Tally::default();
    let nss: [u32; 6] = [0, 1, 499_999_999, 500_000_000, 500_000_001, 999_999_999];
    for base in [0i64, 1_700_000_000, 1 << 31, 1 << 32, 253_402_300_800] {
        let types: Vec<MType> = (0..6).map(|i| MType::new(100 * i, i % 2 == 1, Some(["AAA", "BBB", "CCC", "DDD", "EEE", "FFF"][i as usize]))).collect();
        let trans: Vec<(i64, usize)> = (0..5).map(|i| (base - 2 + i as i64, i + 1)).collect();
        let z = MZone { trans, types: types.clone(), leaps: vec![], rule: Some(MRule::Fixed(types[5])) };
        let iz = ImplZone::from_model(&z).unwrap();
        let owned = tz::TimeZone::new(iz.trans.clone(), iz.types.clone(), iz.leaps.clone(), iz.rule).expect("zone");
        for s in base - 3..=base + 3 {
            for &ns in &nss {
                tl.evals += 1;
                let exp = z.forward(cyc, s).expect("model answer");
                crate::hist::set_fake_clock(Some((s, ns)));
                let r = guard(|| {
                    let cur = owned.find_current_local_time_type().map(|l| *l).map_err(|e| format!("{e:?}"));
                    let now = DateTime::now(owned.as_ref()).map(|d| (d.unix_time(), d.nanoseconds(), *d.local_time_type())).map_err(|e| format!("{e:?}"));
                    let unow = tz::UtcDateTime::now().map(|d| (d.unix_time(), d.nanoseconds())).map_err(|e| format!("{e:?}"));
                    (cur, now, unow)
                });
                crate::hist::set_fake_clock(None);
                let case = || json!({"kind":"clock","base":base,"clock_seconds":s,"clock_nanoseconds":ns});
                match r {
                    Ok((cur, now, unow)) => {
                        let ok = matches!(&cur, Ok(l) if same_type(l, &exp)) && matches!(&now, Ok((u, n, l)) if *u == s && *n == ns && same_type(l, &exp)) && unow == Ok((s, ns));
                        if !ok {
                            rec.violation("clock_route", case(), json!({"instant": [s, ns], "type": mtype_json(&exp)}), json!({"find_current_local_time_type": format!("{cur:?}"), "DateTime::now": format!("{now:?}"), "UtcDateTime::now": format!("{unow:?}")}));
                        }
                    }
                    Err(m) => rec.violation("clock_route", case(), json!("no panic"), json!(m)),
                }
            }
        }
    }
    rec.sub("clock_route", json!({"clock_answers": tl.evals}));
    tl
}

fn sweep_long_histories(cyc: &Cycle, rec: &Recorder) -> Tally {
    let mut tl = Tally::default();
    let r = guard(|| {
        let mut tl = Tally::default();
        let ta = base_types();
        let za = MZone { trans: vec![(400_000_000, 1), (401_000_000, 2), (402_000_000, 0), (959_000_000, 2)], types: ta.clone(), leaps: vec![(78_796_800, 1)], rule: Some(MRule::Fixed(ta[2])) };
        let tb = vec![MType::new(0, false, Some("GMT")), MType::new(3600, true, Some("BST"))];
        let zb = MZone { trans: vec![(500_000_000, 1), (510_000_000, 0), (520_000_000, 1)], types: tb.clone(), leaps: vec![], rule: Some(MRule::Fixed(tb[1])) };
        let probes_a = [401_500_000i64, 959_500_000, 400_000_000, 402_000_005];
        let mut j = 0usize;
        for k in 4..=17u32 {
            for d in [-2i64, -1, 0, 1] {
                let n = ((1i64 << k) + d) as usize;
                let fillers: Vec<i64> = (0..n).map(|f| 505_000_000 + (f as i64 % 4000) * 3600).collect();
                check_zone(cyc, &za, &[probes_a[j % 4]], rec, "long_histories", &mut tl);
                check_zone(cyc, &zb, &fillers, rec, "long_histories", &mut tl);
                check_zone(cyc, &za, &[probes_a[(j + 1) % 4]], rec, "long_histories", &mut tl);
                j += 1;
            }
        }
        tl
    });
    match r {
        Ok(t) => tl = tl.merge(t),
        Err(m) => rec.violation("long_histories", json!({"kind":"long_histories"}), json!("no panic"), json!(m)),
    }
    rec.sub("long_histories", json!({"lookups": tl.evals}));
    tl
}

/// every +-1 walk of the cumulative correction (length 1..=L) with records 28 days apart, crossed with transitions that sit
/// on a record's time, one second before or one second after it (on the count scale), every assignment of the three positions
fn sweep_leap_walks(cyc: &Cycle, rec: &Recorder, thorough: bool) -> Tally {
    let max_len: u32 = if thorough { 7 } else { 5 };
    let mut work = vec![];
    for len in 1..=max_len {
        for signs in 0..(1u32 << len) {
            for deltas in 0..3u32.pow(len) {
                work.push((len, signs, deltas));
            }
        }
    }
    let base = 400_000_000i64;
    let t = work
        .par_iter()
        .map(|&(len, signs, deltas)| {
            let mut tl = Tally::default();
            let r = guard(|| {
                let mut t2 = Tally::default();
                let mut leaps = vec![];
                let mut c = 0i32;
                for k in 0..len {
                    c += if signs & (1 << k) != 0 { 1 } else { -1 };
                    leaps.push((base + DAY28 * k as i64, c));
                }
                let mut d = deltas;
                let trans: Vec<(i64, usize)> = (0..len)
                    .map(|k| {
                        let dl = (d % 3) as i64 - 1;
                        d /= 3;
                        (base + DAY28 * k as i64 + dl, (k as usize + 1) % 3)
                    })
                    .collect();
                for rule_kind in 0..2u8 {
                    let types = base_types();
                    let rule = if rule_kind == 1 { Some(MRule::Fixed(types[trans[trans.len() - 1].1])) } else { None };
                    let z = MZone { trans: trans.clone(), types, leaps: leaps.clone(), rule };
                    let probes = probes_for(&z);
                    check_zone(cyc, &z, &probes, rec, "leap_walks", &mut t2);
                }
                t2
            });
            match r {
                Ok(t2) => tl = tl.merge(t2),
                Err(m) => rec.violation("leap_walks", json!({"kind":"leap_walks","len":len,"signs":signs,"deltas":deltas}), json!("no panic"), json!(m)),
            }
            tl
        })
        .reduce(Tally::default, Tally::merge);
    rec.sub("leap_walks", json!({"zones": t.zones, "lookups": t.evals, "max_walk_len": max_len}));
    t
}

pub fn run(args: &Args) -> i32 {
    let rec = Recorder::new(args, "exploration");
    let cyc = Cycle::build();
    let thorough = args.thorough();
    let us = us_rule(&cyc);
    let max_n: usize = if thorough { 1500 } else if args.digest_mode { 64 } else { 300 };
    let all_seq_n: usize = if thorough { 10 } else if args.digest_mode { 6 } else { 8 };
    // work list: (n, layout, pattern code) ; pattern code < 3 => i mod (code+1) ; otherwise explicit base-3 sequence number
    let mut work: Vec<(usize, u8, u64, bool)> = vec![];
    for n in 0..=max_n {
        for layout in 0..4u8 {
            if layout == 3 && n > 33 {
                continue;
            }
            for k in 0..3u64 {
                work.push((n, layout, k, false));
            }
        }
    }
    for n in 1..=all_seq_n {
        for layout in 0..4u8 {
            for code in 0..3u64.pow(n as u32) {
                work.push((n, layout, code, true));
            }
        }
    }
    let total = work
        .par_iter()
        .map(|&(n, layout, code, explicit)| {
            let mut tl = Tally::default();
            let times = layout_times(layout, n);
            let idx: Vec<usize> = if explicit {
                let mut c = code;
                (0..n)
                    .map(|_| {
                        let d = (c % 3) as usize;
                        c /= 3;
                        d
                    })
                    .collect()
            } else {
                (0..n).map(|i| i % (code as usize + 1)).collect()
            };
            for leap_variant in 0..7u8 {
                if explicit && n > 6 && leap_variant > 1 && !thorough {
                    continue;
                }
                for rule_kind in 0..3u8 {
                    let r = guard(|| {
                        let mut t2 = Tally::default();
                        let z = build_zone(&cyc, &times, &idx, leap_variant, rule_kind, &us);
                        let mut probes = probes_for(&z);
                        probes.extend(rule_probes(&cyc, &z));
                        probes.sort();
                        probes.dedup();
                        check_zone(&cyc, &z, &probes, &rec, "table", &mut t2);
                        t2
                    });
                    match r {
                        Ok(t2) => tl = tl.merge(t2),
                        Err(m) => rec.violation("table", json!({"kind":"gen","n":n,"layout":layout,"code":code,"explicit":explicit,"leap":leap_variant,"rule":rule_kind}), json!("no panic"), json!(m)),
                    }
                }
            }
            tl
        })
        .reduce(Tally::default, Tally::merge);
    // real zones of the vendored corpus (decoded by the independent reader): every transition -1/0/+1, leap records, rule
    // transitions of the years after the table, range limits
    let (zones, skipped) = crate::corpus::model_zones(&cyc);
    let ct = zones
        .par_iter()
        .map(|(path, z)| {
            let mut tl = Tally::default();
            let mut probes: Vec<i64> = vec![i64::MIN, 0, i64::MAX];
            for &(t, _) in &z.trans {
                for d in -1i64..=1 {
                    // transition times are on the count scale; probe the corresponding UTC instants
                    if let Some(u) = z.to_utc(t) {
                        probes.push(u.saturating_add(d));
                    }
                    probes.push(t.saturating_add(d));
                }
            }
            for i in 0..z.leaps.len() {
                for d in -2i64..=2 {
                    probes.push(z.leap_utc(i).saturating_add(d));
                }
            }
            probes.extend(rule_probes(&cyc, z));
            probes.sort();
            probes.dedup();
            if let Err(m) = guard(|| check_zone(&cyc, z, &probes, &rec, "corpus", &mut tl)) {
                rec.violation("corpus", json!({"kind":"corpus","path":path}), json!("no panic"), json!(m));
            }
            tl
        })
        .reduce(Tally::default, Tally::merge);
    rec.sub("corpus", json!({"distinct_corpus_zones": zones.len(), "files_not_expressible_in_the_model": skipped, "zones_checked": ct.zones, "lookups": ct.evals}));
    let total = total.merge(ct).merge(sweep_many_types(&cyc, &rec, thorough)).merge(sweep_leap_walks(&cyc, &rec, thorough));
    let total = if args.digest_mode { total } else { total.merge(sweep_long_histories(&cyc, &rec)) };
    #[cfg(feature = "tz-std")]
    let total = if args.digest_mode { total } else { total.merge(sweep_clock_route(&cyc, &rec)) };
    let total = total.merge(sweep_leap_extreme_positions(&cyc, &rec));
    let total = if args.digest_mode { total } else { total.merge(sweep_leap_long_tables(&cyc, &rec, thorough)) };
    let total = if args.digest_mode { total } else { total.merge(sweep_table_shapes(&rec, thorough)) };
    // one-signed leap tables of 2.4 million records (accumulated correction >= record spacing), shared with the C12 engine
    let total = if args.digest_mode {
        total
    } else {
        let ctx = crate::find::Ctx { cyc: &cyc, rec: &rec, prop: crate::find::Prop::C05, kf1_open: false, kf2_open: false, kf3_open: false };
        let h = crate::leap::sweep_huge_table(&ctx, thorough);
        Tally { evals: total.evals + h.0 + h.1, ..total }
    };
    rec.sub("table", json!({"shapes": work.len(), "zones": total.zones, "zones_refused_as_model_predicts": total.rejected, "lookups": total.evals, "max_table_len": max_n, "all_index_sequences_up_to_len": all_seq_n}));
    rec.add(total.evals, total.nontrivial);
    rec.digest("table", total.digest);
    rec.set_rule("zones: table length 0..=N x 4 time layouts (spaced, adjacent, around +-2^31 / 2^32 / 2^52 / 2^53 / 2^62, i64 extremes) x type-index patterns (i mod k; all 3^n sequences for small n) x 7 leap tables x {no rule, fixed rule, DST rule}; zones with 256..513 (65537) local time types; every +-1 walk of the leap correction of length <= 5 (7) x transitions at record -1/0/+1; probes: every transition -3..+3, every leap record -2..+2, 0, i64 extremes; the clock route (find_current_local_time_type, now) under 210 answers of an interposed system clock; oracle: linear-scan zone model; DateTime::from_timespec fields vs model calendar; owned == borrowed. non-trivial = probes whose expected answer differs from that of the instant one second earlier");
    rec.set_exhaustive(true);
    rec.outcome("type");
    rec.outcome("NoAvailableLocalTimeType");
    rec.outcome("OutOfRange");
    let pickn = 3 + (args.seed % 5) as usize;
    let z = build_zone(&cyc, &layout_times(1, pickn), &(0..pickn).map(|i| i % 2).collect::<Vec<_>>(), 2, 2, &us);
    rec.sample(json!({"zone": zone_json(&z), "probes": probes_for(&z).len()}));
    rec.finish()
}

pub fn replay(case: &Value, args: &Args) -> i32 {
    let rec = Recorder::new(args, "exploration");
    let cyc = Cycle::build();
    let us = us_rule(&cyc);
    let mut tl = Tally::default();
    for _ in 0..2 {
        match case["kind"].as_str().unwrap_or("") {
            #[cfg(feature = "tz-std")]
            "clock" => {
                // the sweep is small: re-run it (the recorded clock answer is among its cases)
                sweep_clock_route(&cyc, &rec);
            }
            "zone" => {
                let z = zone_from_json(&cyc, &case["zone"]);
                let mut probes: Vec<i64> = case["probes"].as_array().map(|a| a.iter().filter_map(|x| x.as_i64()).collect()).unwrap_or_default();
                if probes.is_empty() {
                    probes = probes_for(&z);
                }
                if let Err(m) = guard(|| check_zone(&cyc, &z, &probes, &rec, "replay", &mut tl)) {
                    rec.violation("replay", case.clone(), json!("no panic"), json!(m));
                }
            }
            "gen" => {
                let n = case["n"].as_u64().unwrap() as usize;
                let layout = case["layout"].as_u64().unwrap() as u8;
                let code = case["code"].as_u64().unwrap();
                let explicit = case["explicit"].as_bool().unwrap();
                let times = layout_times(layout, n);
                let idx: Vec<usize> = if explicit {
                    let mut c = code;
                    (0..n).map(|_| { let d = (c % 3) as usize; c /= 3; d }).collect()
                } else {
                    (0..n).map(|i| i % (code as usize + 1)).collect()
                };
                let r = guard(|| {
                    let z = build_zone(&cyc, &times, &idx, case["leap"].as_u64().unwrap() as u8, case["rule"].as_u64().unwrap() as u8, &us);
                    let probes = probes_for(&z);
                    let mut t2 = Tally::default();
                    check_zone(&cyc, &z, &probes, &rec, "replay", &mut t2);
                });
                if let Err(m) = r {
                    rec.violation("replay", case.clone(), json!("no panic"), json!(m));
                }
            }
            // the sub-sweeps below are small and deterministic: the recorded case is among the ones they re-run
            "table_shape" => {
                sweep_table_shapes(&rec, false);
            }
            "leap_long" => {
                sweep_leap_long_tables(&cyc, &rec, false);
            }
            "leap_extreme" => {
                sweep_leap_extreme_positions(&cyc, &rec);
            }
            _ => return 2,
        }
    }
    if rec.viol_count.load(std::sync::atomic::Ordering::Relaxed) > 0 {
        println!("REPLAY: violation reproduced");
        1
    } else {
        println!("REPLAY: case passes");
        0
    }
}
