//! Engine `rule`: C04 DST rule evaluation vs the rule timeline model.

use crate::common::*;
use crate::conv::*;
use crate::rulealpha::*;
use rayon::prelude::*;
use refmodel::cal::Cycle;
use refmodel::rule::{Class, Day, RuleSpec, Timeline};
use refmodel::zone::{FwdErr, MRule, MType, MZone};
use serde_json::{json, Value};
use tz::timezone::{LocalTimeType, TimeZoneRef, TransitionRule};
use tz::TzError;

#[derive(Default, Clone)]
pub struct Tally {
    pub rules: u64,
    pub rejected: u64,
    pub skipped_class: u64,
    pub evals: u64,
    pub nontrivial: u64,
    pub kf1: u64,
    pub leaves: [u64; 12],
    pub digest: u64,
    pub start_first: u64,
    pub end_first: u64,
}
impl Tally {
    pub fn merge(mut self, o: Tally) -> Tally {
        self.rules += o.rules;
        self.rejected += o.rejected;
        self.skipped_class += o.skipped_class;
        self.evals += o.evals;
        self.nontrivial += o.nontrivial;
        self.kf1 += o.kf1;
        for i in 0..12 {
            self.leaves[i] += o.leaves[i];
        }
        self.digest = self.digest.wrapping_add(o.digest);
        self.start_first += o.start_first;
        self.end_first += o.end_first;
        self
    }
}

thread_local! {
    /// attributes of the two halves of a rule that the evaluation must carry through but not depend on: 0 = (standard "AAA",
    /// daylight "BBB"); 1 = both flagged standard; 2 = both flagged daylight; 3 = flags swapped; 4 = same designation; 5 = no
    /// designation on the standard half and a 7-letter one on the daylight half
    pub static TYPE_VARIANT: std::cell::Cell<u8> = const { std::cell::Cell::new(0) };
}
pub const TYPE_VARIANTS: u8 = 6;

pub fn std_type(r: &RuleSpec) -> MType {
    match TYPE_VARIANT.with(|v| v.get()) {
        1 => MType::new(r.std_off as i32, false, Some("AAA")),
        2 | 3 => MType::new(r.std_off as i32, true, Some("AAA")),
        5 => MType::new(r.std_off as i32, false, None),
        _ => MType::new(r.std_off as i32, false, Some("AAA")),
    }
}
pub fn dst_type(r: &RuleSpec) -> MType {
    match TYPE_VARIANT.with(|v| v.get()) {
        1 | 3 => MType::new(r.dst_off as i32, false, Some("BBB")),
        2 => MType::new(r.dst_off as i32, true, Some("BBB")),
        4 => MType::new(r.dst_off as i32, true, Some("AAA")),
        5 => MType::new(r.dst_off as i32, true, Some("BBBBBBB")),
        _ => MType::new(r.dst_off as i32, true, Some("BBB")),
    }
}

/// leaf of the model's case analysis a probe falls into: class x region of the UTC year x expected answer
fn leaf(class: Class, tl: &Timeline, t: i64, y: i64, exp: bool) -> usize {
    let (s, e) = (tl.sy(y), tl.ey(y));
    let (lo, hi) = if s <= e { (s, e) } else { (e, s) };
    let region = if t < lo {
        0
    } else if t < hi {
        1
    } else {
        2
    };
    (if class == Class::EndFirst { 6 } else { 0 }) + region * 2 + exp as usize
}

/// all probes of one rule over years y_from..y_to; returns false if the rule was not explored
pub fn check_rule(tabs: &Tables, r: &RuleSpec, y_from: i64, y_to: i64, rec: &Recorder, sweep: &str, tl: &mut Tally, kf1_open: bool) {
    check_rule_variant(tabs, r, y_from, y_to, rec, sweep, tl, kf1_open);
    // the same rule with the other attribute combinations of its two halves (flags, designations): all of them when the two
    // offsets are equal (the halves then differ in those attributes only), otherwise one of them in rotation
    let h = (r.start_time ^ r.end_time ^ r.std_off).unsigned_abs() as u8;
    for v in 1..TYPE_VARIANTS {
        if r.std_off == r.dst_off || (h % 16 == 0 && h / 16 % (TYPE_VARIANTS - 1) + 1 == v) {
            TYPE_VARIANT.with(|c| c.set(v));
            let mut t2 = Tally::default();
            check_rule_variant(tabs, r, y_from, y_to.min(y_from + 27), rec, sweep, &mut t2, kf1_open);
            TYPE_VARIANT.with(|c| c.set(0));
            tl.evals += t2.evals;
            tl.kf1 += t2.kf1;
            tl.digest = tl.digest.wrapping_add(t2.digest);
        }
    }
}

fn check_rule_variant(tabs: &Tables, r: &RuleSpec, y_from: i64, y_to: i64, rec: &Recorder, sweep: &str, tl: &mut Tally, kf1_open: bool) {
    let (ms, md) = (std_type(r), dst_type(r));
    let alt = match alt(r, &ms, &md) {
        Ok(a) => a,
        Err(_) => {
            tl.rejected += 1;
            return;
        }
    };
    let line = Timeline::from_tables(r, tabs.tab(r.start), tabs.tab(r.end));
    let class = line.classify();
    match class {
        Class::StartFirst => tl.start_first += 1,
        Class::EndFirst => tl.end_first += 1,
        _ => {
            tl.skipped_class += 1;
            return;
        }
    }
    tl.rules += 1;
    let types = [ltt(&ms), ltt(&md)];
    let rule = Some(TransitionRule::Alternate(alt));
    let zr = TimeZoneRef::new(&[], &types, &[], &rule).expect("rule-only zone");
    let mut probe = |t: i64, y: i64| {
        let uy = tabs.utc_year_near(t, y);
        let exp = line.is_dst(class, t, uy);
        tl.evals += 1;
        tl.leaves[leaf(class, &line, t, uy, exp)] += 1;
        let got: Result<&LocalTimeType, TzError> = zr.find_local_time_type(t);
        let ok = match got {
            Ok(l) => {
                tl.digest = tl.digest.wrapping_add((t as u64) ^ (l.is_dst() as u64));
                same_type(l, if exp { &md } else { &ms })
            }
            Err(_) => false,
        };
        if !ok {
            // known finding KF1: end-first rule, S(Y) == E(Y) in the UTC year of the instant
            if kf1_open && class == Class::EndFirst && line.tie_in_year(uy) {
                tl.kf1 += 1;
                rec.known_hit("KF1", || json!({"rule": spec_json(r), "tz": tz_string(r), "t": t, "utc_year": uy, "model_is_dst": exp}));
            } else {
                rec.violation(sweep, json!({"kind":"rule","rule":spec_json(r),"t":t,"year":y,"type_variant":TYPE_VARIANT.with(|c| c.get())}), json!({"is_dst": exp, "class": format!("{class:?}"), "utc_year": uy}), json!(format!("{:?}", got.map(type_json))));
            }
        }
    };
    for y in y_from..=y_to {
        let (s, e) = (line.sy(y), line.ey(y));
        for d in -1..=1 {
            probe(s + d, y);
            probe(e + d, y);
        }
        // the answer must change exactly at s and e (non-trivial probes)
        let ny = tabs.new_year(y);
        probe(ny - 1, y);
        probe(ny, y);
        for off in [r.std_off, r.dst_off] {
            probe(ny - off - 1, y);
            probe(ny - off, y);
        }
        // middle of the periods
        probe(s + (e - s) / 2, y);
        probe(e + (line.sy(y + 1) - e) / 2, y);
    }
    tl.nontrivial += 4 * (y_to - y_from + 1) as u64;
}

fn rule_list_quick() -> Vec<RuleSpec> {
    let days = quick_days();
    let mut v = vec![];
    for &a in &days {
        for &b in &days {
            for (st, et, o) in quick_combos() {
                v.push(spec(a, b, st, et, o));
            }
        }
    }
    v
}

/// day set of the partial-tie sweep: the quick notations, the 4th and last week of every month for every week day, and the
/// notations around 28/29 February and 1 March
pub fn tie_days(all: bool, tabs: &Tables) -> Vec<Day> {
    if all {
        return tabs.days.clone();
    }
    let mut v = quick_days();
    for m in 1..=12u8 {
        for w in [4u8, 5] {
            for d in 0..7u8 {
                v.push(Day::M(m, w, d));
            }
        }
    }
    for n in [59u16, 60, 61] {
        v.push(Day::J(n));
    }
    for n in [58u16, 59, 60] {
        v.push(Day::Z(n));
    }
    v.sort_by_key(|d| tabs.index_of(*d));
    v.dedup();
    v
}

/// Rules whose start and end instants coincide in some years but not in all of them (the order of the two events of a tie
/// year is then defined by the other years): for every ordered pair of notations (a, b) and every whole-day distance k that
/// b - a takes in some but not all years of the 400-year cycle, UTC day times u_s - u_e = k days in four sign patterns
/// (both positive, both negative, opposite signs both ways) x two offset pairs; every year of the cycle is probed.
fn sweep_partial_ties(tabs: &Tables, rec: &Recorder, all_days: bool, kf1_open: bool) -> Tally {
    let days = tie_days(all_days, tabs);
    let nd = days.len();
    let idx: Vec<usize> = days.iter().map(|d| tabs.index_of(*d)).collect();
    let t = (0..nd * nd)
        .into_par_iter()
        .map(|ij| {
            let (i, j) = (ij / nd, ij % nd);
            let mut tl = Tally::default();
            let (ta, tb) = (&tabs.tabs[idx[i]], &tabs.tabs[idx[j]]);
            // distances over one 400-year cycle
            let mut count = [0u32; 13];
            for y in 2000..2400 {
                let k = tb.get(y) - ta.get(y);
                if (-6..=6).contains(&k) {
                    count[(k + 6) as usize] += 1;
                }
            }
            for kk in 0..13usize {
                if count[kk] == 0 || count[kk] == 400 {
                    continue;
                }
                let k = kk as i64 - 6;
                let mut pats: Vec<(i64, i64)> = vec![(H + k.max(0) * D, H + (-k).max(0) * D), (-H - (-k).max(0) * D, -H - k.max(0) * D)];
                if k > 0 {
                    pats.push((H, H - k * D));
                    pats.push((k * D - H, -H));
                } else if k < 0 {
                    pats.push((H + k * D, H));
                    pats.push((-H, -k * D - H));
                }
                for (us, ue) in pats {
                    debug_assert_eq!(us - ue, k * D);
                    for o in [(0i64, H), (-5 * H, -4 * H)] {
                        let r = spec(days[i], days[j], us + o.0, ue + o.1, o);
                        if let Err(m) = guard(|| check_rule(tabs, &r, 2000, 2399, rec, "partial_ties", &mut tl, kf1_open)) {
                            rec.violation("partial_ties", json!({"kind":"rule","rule":spec_json(&r),"t":null,"year":2000}), json!("no panic"), json!(m));
                        }
                    }
                }
            }
            tl
        })
        .reduce(Tally::default, Tally::merge);
    rec.sub("partial_ties", json!({"notations": nd, "explored": t.rules, "refused_by_constructor": t.rejected, "not_interleaving_or_degenerate": t.skipped_class, "probes": t.evals}));
    t
}

/// the rule evaluated behind a transition table in a zone with leap seconds (the rule works on UTC instants, the table on the
/// leap-counting scale): one table transition in 2001, leap records whose UTC instants sit at a rule transition -1/0/+1 in
/// every (previous correction, step) combination, lookups -3..+3 around every rule transition of the next years
fn sweep_behind_table_with_leaps(cyc: &Cycle, tabs: &Tables, rec: &Recorder) -> Tally {
    const DAY28: i64 = 28 * 86400;
    let days = [Day::M(3, 2, 0), Day::M(11, 1, 0), Day::J(60), Day::Z(59), Day::J(1), Day::M(10, 5, 0)];
    let combos = quick_combos();
    let mut specs: Vec<RuleSpec> = vec![];
    for (i, &a) in days.iter().enumerate() {
        for (j, &b) in days.iter().enumerate() {
            if i != j {
                for k in [0usize, 1, 2, 5] {
                    let (st, et, o) = combos[k];
                    specs.push(spec(a, b, st, et, o));
                }
            }
        }
    }
    let t = specs
        .par_iter()
        .map(|r| {
            let mut tl = Tally::default();
            let res = guard(|| {
                let mut tl = Tally::default();
                let (ms, md) = (std_type(r), dst_type(r));
                if alt(r, &ms, &md).is_err() {
                    return tl;
                }
                let line = Timeline::from_tables(r, tabs.tab(r.start), tabs.tab(r.end));
                let class = line.classify();
                if !matches!(class, Class::StartFirst | Class::EndFirst) {
                    return tl;
                }
                let rule = MRule::alt(cyc, *r, ms, md);
                let y = 2010i64;
                for x in [line.sy(y), line.ey(y)] {
                    for (c0, step) in [(0i32, 1i32), (0, -1), (1, 1), (1, -1), (-1, -1), (-1, 1), (2, 1), (-2, -1)] {
                        for dpos in [-1i64, 0, 1] {
                            // record count = UTC instant + previous correction
                            let l1 = x + dpos + c0 as i64;
                            let mut leaps: Vec<(i64, i32)> = vec![];
                            let mut c = 0i32;
                            let mut tcur = l1 - (c0.unsigned_abs() as i64 + 1) * DAY28;
                            while c != c0 {
                                c += c0.signum();
                                leaps.push((tcur, c));
                                tcur += DAY28;
                            }
                            leaps.push((l1, c0 + step));
                            // the table: one transition in 2001 carrying the type the rule prescribes there
                            let mut z = MZone { trans: vec![], types: vec![ms, md, MType::new(-7200, false, Some("LMT"))], leaps, rule: Some(rule.clone()) };
                            let u0 = line.sy(2001) + 40 * 86400;
                            let ty = match z.rule_type(cyc, u0) {
                                Ok(t) => *t,
                                Err(_) => continue,
                            };
                            z.trans = vec![(u0 - 1000, 2), (u0, if ty.dst { 1 } else { 0 })];
                            let iz = ImplZone::from_model(&z).unwrap();
                            let zr = match iz.zref() {
                                Ok(zr) => zr,
                                Err(e) => {
                                    rec.violation("behind_table_with_leaps", json!({"kind":"zone","zone":zone_json(&z)}), json!("accepted"), json!(err_name(&e)));
                                    continue;
                                }
                            };
                            tl.rules += 1;
                            for yy in [y - 1, y, y + 1] {
                                for xx in [line.sy(yy), line.ey(yy)] {
                                    for d in -3i64..=3 {
                                        let u = xx + d;
                                        tl.evals += 1;
                                        let exp = z.forward(cyc, u);
                                        let got = zr.find_local_time_type(u);
                                        let ok = matches!((&exp, &got), (Ok(m), Ok(l)) if same_type(l, m));
                                        if !ok {
                                            rec.violation("behind_table_with_leaps", json!({"kind":"zone_probe","zone":zone_json(&z),"t":u}), json!(format!("{:?}", exp.map(mtype_json))), json!(format!("{:?}", got.map(type_json))));
                                        }
                                    }
                                }
                            }
                        }
                    }
                }
                tl
            });
            match res {
                Ok(t) => tl = tl.merge(t),
                Err(m) => rec.violation("behind_table_with_leaps", json!({"kind":"rule","rule":spec_json(r),"t":null,"year":2010}), json!("no panic"), json!(m)),
            }
            tl
        })
        .reduce(Tally::default, Tally::merge);
    rec.sub("behind_table_with_leaps", json!({"zones": t.rules, "lookups": t.evals}));
    Tally { rules: 0, ..t }
}

/// every notation of the first and last twelve days of the year (and the first / last weeks of January and December) with
/// the day times and offsets that move a transition furthest into the neighbouring year, both as start and as end
fn sweep_year_edge_days(tabs: &Tables, rec: &Recorder, kf1_open: bool) -> Tally {
    let mut edge: Vec<Day> = vec![];
    for n in 1..=12u16 {
        edge.push(Day::J(n));
        edge.push(Day::J(366 - n));
        edge.push(Day::Z(n - 1));
        edge.push(Day::Z(366 - n));
    }
    for d in 0..7u8 {
        for (m, w) in [(1u8, 1u8), (1, 2), (12, 4), (12, 5)] {
            edge.push(Day::M(m, w, d));
        }
    }
    let partners = [Day::J(100), Day::J(200), Day::Z(180), Day::M(6, 2, 3), Day::M(3, 5, 0), Day::M(10, 5, 0)];
    let combos = quick_combos();
    let extreme: Vec<(i64, i64, (i64, i64))> = vec![combos[7], combos[8], combos[9], combos[10], combos[12], combos[13], combos[14], combos[15], (-7 * D + 1, 2 * H, (26 * H - 1, 25 * H)), (2 * H, -7 * D + 1, (25 * H, 26 * H - 1)), (167 * H, 2 * H, (-25 * H + 1, -24 * H)), (2 * H, 167 * H, (-24 * H, -25 * H + 1))];
    let mut specs: Vec<RuleSpec> = vec![];
    for &e in &edge {
        for &p in &partners {
            for &(st, et, o) in &extreme {
                specs.push(spec(e, p, st, et, o));
                specs.push(spec(p, e, st, et, o));
            }
        }
    }
    let t = specs
        .par_iter()
        .map(|r| {
            let mut tl = Tally::default();
            if let Err(m) = guard(|| check_rule(tabs, r, 2000, 2399, rec, "year_edge_days", &mut tl, kf1_open)) {
                rec.violation("year_edge_days", json!({"kind":"rule","rule":spec_json(r),"t":null,"year":2000}), json!("no panic"), json!(m));
            }
            tl
        })
        .reduce(Tally::default, Tally::merge);
    rec.sub("year_edge_days", json!({"rules_generated": specs.len(), "explored": t.rules, "refused_by_constructor": t.rejected, "not_interleaving_or_degenerate": t.skipped_class, "probes": t.evals}));
    t
}

/// numeric thresholds of the day times and offsets themselves: +-(2^k - 1, 2^k, 2^k + 1) for every k, whole hours at the
/// 24 h / 48 h / 7 d marks; (a) every pair of such day times on eight day pairs, (b) every pair of such offsets x four
/// day-time pairs. The quick alphabets know nine day times and nine offset pairs; an implementation that narrows a day
/// time or an offset (i16 holds 9 h 6 min, 2^17 s = 36 h 24 min 32 s) or takes a shortcut for "ordinary" values is only
/// seen with values on both sides of every such threshold.
fn sweep_time_grid(tabs: &Tables, rec: &Recorder, thorough: bool, kf1_open: bool) -> Tally {
    let (ts, os) = (grid_times(), grid_offsets());
    let pairs = grid_day_pairs();
    let (yf, yt) = if thorough { (2000, 2099) } else { (2000, 2027) };
    let mut specs: Vec<RuleSpec> = vec![];
    for &(a, b) in &pairs {
        for &st in &ts {
            for &et in &ts {
                specs.push(spec(a, b, st, et, (0, H)));
            }
        }
    }
    let n_times = specs.len();
    let time_pairs = [(2 * H, 2 * H), (0, 24 * H), (-H, 25 * H), (26 * H, -2 * H)];
    for (i, &(a, b)) in pairs.iter().enumerate() {
        for &so in &os {
            for &dof in &os {
                // every pair on two day pairs, one day-time pair in rotation elsewhere
                for (k, &(st, et)) in time_pairs.iter().enumerate() {
                    if thorough || i < 2 || (so + dof + i as i64).rem_euclid(4) as usize == k {
                        specs.push(spec(a, b, st, et, (so, dof)));
                    }
                }
            }
        }
    }
    let t = specs
        .par_iter()
        .map(|r| {
            let mut tl = Tally::default();
            if let Err(m) = guard(|| check_rule(tabs, r, yf, yt, rec, "time_grid", &mut tl, kf1_open)) {
                rec.violation("time_grid", json!({"kind":"rule","rule":spec_json(r),"t":null,"year":yf}), json!("no panic"), json!(m));
            }
            tl
        })
        .reduce(Tally::default, Tally::merge);
    rec.sub("time_grid", json!({"day_times": ts.len(), "offsets": os.len(), "rules_time_pairs": n_times, "rules_offset_pairs": specs.len() - n_times, "explored": t.rules, "refused_by_constructor": t.rejected, "not_interleaving_or_degenerate": t.skipped_class, "probes": t.evals, "years": [yf, yt]}));
    t
}

/// years far from the explored 400-year window: the rule model is periodic in the year, an implementation need not be (an
/// estimate that drifts, a narrowing of the year): every year 2400..=12 000 and every 99 991st year of the i32 range for 72
/// rules, six probes per year
fn sweep_far_years(cyc: &Cycle, rec: &Recorder, thorough: bool) -> Tally {
    let days = [Day::M(3, 2, 0), Day::M(11, 1, 0), Day::J(60), Day::Z(59), Day::J(1), Day::M(10, 5, 0), Day::M(4, 1, 0), Day::Z(365), Day::M(2, 5, 3)];
    let combos = quick_combos();
    let mut specs: Vec<RuleSpec> = vec![];
    for (i, &a) in days.iter().enumerate() {
        for (j, &b) in days.iter().enumerate() {
            if i != j {
                let (st, et, o) = combos[(i * 3 + j) % 6];
                specs.push(spec(a, b, st, et, o));
            }
        }
    }
    let mut years: Vec<i64> = (2400..=12_000).step_by(if thorough { 1 } else { 3 }).collect();
    let mut y = i32::MIN as i64 + 5;
    while y < i32::MAX as i64 - 5 {
        years.push(y);
        y += if thorough { 9_973 } else { 99_991 };
    }
    let t = specs
        .par_iter()
        .map(|r| {
            let mut tl = Tally::default();
            let res = guard(|| {
                let mut tl = Tally::default();
                let (ms, md) = (std_type(r), dst_type(r));
                let a = match alt(r, &ms, &md) {
                    Ok(a) => a,
                    Err(_) => return tl,
                };
                let mz = MZone { trans: vec![], types: vec![ms, md], leaps: vec![], rule: Some(MRule::alt(cyc, *r, ms, md)) };
                if !matches!(&mz.rule, Some(MRule::Alt { class: Class::StartFirst | Class::EndFirst, .. })) {
                    return tl;
                }
                let types = [ltt(&ms), ltt(&md)];
                let rule = Some(TransitionRule::Alternate(a));
                let zr = TimeZoneRef::new(&[], &types, &[], &rule).unwrap();
                tl.rules += 1;
                for &y in &years {
                    let (s, e) = (r.s(cyc, y), r.e(cyc, y));
                    for t in [s - 1, s, e - 1, e, s + (e - s) / 2, e + 100 * 86_400] {
                        tl.evals += 1;
                        let exp = mz.forward(cyc, t);
                        let got = zr.find_local_time_type(t);
                        if !matches!((&exp, &got), (Ok(m), Ok(l)) if same_type(l, m)) {
                            rec.violation("far_years", json!({"kind":"rule_probe","rule":spec_json(r),"t":t}), json!(format!("{:?}", exp.map(mtype_json))), json!(format!("{:?}", got.map(type_json))));
                        }
                    }
                }
                tl
            });
            match res {
                Ok(t) => tl = tl.merge(t),
                Err(m) => rec.violation("far_years", json!({"kind":"rule","rule":spec_json(r),"t":null,"year":2400}), json!("no panic"), json!(m)),
            }
            tl
        })
        .reduce(Tally::default, Tally::merge);
    rec.sub("far_years", json!({"rules": t.rules, "years_per_rule": years.len(), "probes": t.evals}));
    Tally { rules: 0, ..t }
}

/// the tie families used at the ends of the year range: last vs 4th week day of February at the same UTC instant (both
/// orders), and J60 vs day 60 counted from zero one day apart (both orders)
pub fn tie_specs() -> Vec<RuleSpec> {
    let mut v = vec![];
    for wd in [0u8, 3] {
        v.push(spec(Day::M(2, 5, wd), Day::M(2, 4, wd), 2 * H, 3 * H, (0, H)));
        v.push(spec(Day::M(2, 4, wd), Day::M(2, 5, wd), 2 * H, 3 * H, (0, H)));
    }
    v.push(spec(Day::J(60), Day::Z(60), H, -22 * H, (0, H)));
    v.push(spec(Day::Z(60), Day::J(60), H, 26 * H, (0, H)));
    v.push(spec(Day::J(60), Day::Z(59), 2 * H, 3 * H, (0, H)));
    v.push(spec(Day::Z(59), Day::J(60), 2 * H, 3 * H, (0, H)));
    v
}

/// extreme years: lookups in years i32::MIN+2 / i32::MAX-2 must answer like the model, beyond must be OutOfRange
fn sweep_extreme_years(cyc: &Cycle, rec: &Recorder, tl: &mut Tally, kf1_open: bool) {
    let days = [Day::J(1), Day::J(365), Day::Z(0), Day::Z(365), Day::M(3, 2, 0), Day::M(11, 1, 0), Day::M(1, 1, 0), Day::M(12, 5, 6), Day::M(2, 5, 3)];
    let combos = quick_combos();
    let mut n = 0u64;
    let mut specs: Vec<RuleSpec> = vec![];
    for (i, &a) in days.iter().enumerate() {
        for (j, &b) in days.iter().enumerate() {
            let (st, et, o) = combos[(i * 7 + j) % combos.len()];
            specs.push(spec(a, b, st, et, o));
        }
    }
    // rules whose start and end coincide in most years (the order then comes from other years, which do not all exist at the
    // ends of the year range)
    for spec_tie in tie_specs() {
        specs.push(spec_tie);
    }
    {
        for r in specs {
            let (ms, md) = (std_type(&r), dst_type(&r));
            let alt = match alt(&r, &ms, &md) {
                Ok(a) => a,
                Err(_) => continue,
            };
            let mz = MZone { trans: vec![], types: vec![ms.clone(), md.clone()], leaps: vec![], rule: Some(MRule::alt(cyc, r, ms.clone(), md.clone())) };
            let class = match &mz.rule {
                Some(MRule::Alt { class, .. }) => *class,
                _ => unreachable!(),
            };
            if !matches!(class, Class::StartFirst | Class::EndFirst) {
                continue;
            }
            let types = [ltt(&ms), ltt(&md)];
            let rule = Some(TransitionRule::Alternate(alt));
            let zr = TimeZoneRef::new(&[], &types, &[], &rule).unwrap();
            let years: Vec<i64> = (0..12).map(|k| i32::MIN as i64 + k).chain((0..12).map(|k| i32::MAX as i64 - 11 + k)).collect();
            for year in years {
                let ny = cyc.year_start_day(year) * 86400;
                let mut ts = vec![ny, ny + 1, ny + 86400 * 365 - 1, ny + 86400 * 180];
                if year > i32::MIN as i64 + 1 && year < i32::MAX as i64 - 1 {
                    for d in -1..=1 {
                        ts.push(r.s(cyc, year) + d);
                        ts.push(r.e(cyc, year) + d);
                    }
                }
                for t in ts {
                    n += 1;
                    tl.evals += 1;
                    let exp = mz.forward(cyc, t);
                    let got = zr.find_local_time_type(t);
                    let ok = match (&exp, &got) {
                        (Ok(m), Ok(l)) => same_type(l, m),
                        (Err(FwdErr::OutOfRange), Err(TzError::OutOfRange)) => true,
                        _ => false,
                    };
                    if !ok {
                        let (c, _, _, _) = cyc.gmtime(t);
                        if kf1_open && class == Class::EndFirst && c.year > i32::MIN as i64 + 1 && c.year < i32::MAX as i64 - 1 && r.s(cyc, c.year) == r.e(cyc, c.year) {
                            tl.kf1 += 1;
                            rec.known_hit("KF1", || json!({"rule": spec_json(&r), "t": t}));
                        } else {
                            rec.violation("extreme_years", json!({"kind":"extreme","rule":spec_json(&r),"t":t}), json!(format!("{:?}", exp.map(mtype_json))), json!(format!("{:?}", got.map(type_json))));
                        }
                    }
                }
            }
        }
    }
    rec.sub("extreme_years", json!({"probes": n}));
}

/// the same rules through the string path (TZ string -> parser -> zone), extension-free subset
#[cfg(feature = "tz-alloc")]
fn sweep_string_path(tabs: &Tables, rec: &Recorder, tl: &mut Tally, kf1_open: bool) {
    use tz::TimeZoneSettings;
    let fail: fn(&str) -> Result<Vec<u8>, Box<dyn std::error::Error + Send + Sync + 'static>> = |_| Err("no files".into());
    let settings = TimeZoneSettings::new(&[], fail);
    let days = quick_days();
    let mut n = 0u64;
    let mut parsed = 0u64;
    for (i, &a) in days.iter().enumerate() {
        for (j, &b) in days.iter().enumerate() {
            if (i + 2 * j) % 5 != 0 {
                continue;
            }
            let o = offsets()[(i + j) % 5];
            let r = spec(a, b, [0, 2 * H, 24 * H][(i + j) % 3], [2 * H, 3 * H, 0][(i * j) % 3], o);
            let s = tz_string(&r);
            let z = match settings.parse_posix_tz(&s) {
                Ok(z) => z,
                Err(_) => continue,
            };
            parsed += 1;
            let line = Timeline::from_tables(&r, tabs.tab(r.start), tabs.tab(r.end));
            let class = line.classify();
            if !matches!(class, Class::StartFirst | Class::EndFirst) {
                continue;
            }
            let (ms, md) = (std_type(&r), dst_type(&r));
            for y in 2019..=2030 {
                for t in [line.sy(y) - 1, line.sy(y), line.ey(y) - 1, line.ey(y), tabs.new_year(y) - 1, tabs.new_year(y)] {
                    let uy = tabs.utc_year_near(t, y);
                    let exp = line.is_dst(class, t, uy);
                    n += 1;
                    tl.evals += 1;
                    let got = z.find_local_time_type(t);
                    let ok = matches!(&got, Ok(l) if same_type(l, if exp { &md } else { &ms }));
                    if !ok {
                        if kf1_open && class == Class::EndFirst && line.tie_in_year(uy) {
                            tl.kf1 += 1;
                            rec.known_hit("KF1", || json!({"tz": s, "t": t}));
                        } else {
                            rec.violation("string_path", json!({"kind":"string","tz":s,"rule":spec_json(&r),"t":t,"year":y}), json!({"is_dst": exp}), json!(format!("{:?}", got.map(type_json))));
                        }
                    }
                }
            }
        }
    }
    // the same through version-3 footers with extended day times (negative, beyond 24 h, sub-hour negative such as -0:30)
    let mut fparsed = 0u64;
    for (i, &a) in days.iter().enumerate() {
        for (j, &b) in days.iter().enumerate() {
            if (i + 3 * j) % 7 != 0 {
                continue;
            }
            for (st, et) in [(-1800i64, -1), (-H - 1800, 25 * H + 59), (-30, 30), (-167 * H, 167 * H)] {
                let r = spec(a, b, st, et, offsets()[(i + j) % 5]);
                let s = tz_string(&r);
                let z = match tz::TimeZone::from_tz_data(&crate::tzstr::footer_file(b'3', s.as_bytes())) {
                    Ok(z) => z,
                    Err(_) => continue,
                };
                fparsed += 1;
                let line = Timeline::from_tables(&r, tabs.tab(r.start), tabs.tab(r.end));
                let class = line.classify();
                if !matches!(class, Class::StartFirst | Class::EndFirst) {
                    continue;
                }
                let (ms, md) = (std_type(&r), dst_type(&r));
                for y in 2019..=2024 {
                    for t in [line.sy(y) - 1, line.sy(y), line.ey(y) - 1, line.ey(y)] {
                        let uy = tabs.utc_year_near(t, y);
                        let exp = line.is_dst(class, t, uy);
                        n += 1;
                        tl.evals += 1;
                        let got = z.find_local_time_type(t);
                        let ok = matches!(&got, Ok(l) if same_type(l, if exp { &md } else { &ms }));
                        if !ok {
                            if kf1_open && class == Class::EndFirst && line.tie_in_year(uy) {
                                tl.kf1 += 1;
                                rec.known_hit("KF1", || json!({"tz": s, "t": t}));
                            } else {
                                rec.violation("string_path", json!({"kind":"string","tz":s,"rule":spec_json(&r),"t":t,"year":y}), json!({"is_dst": exp, "route": "v3 footer"}), json!(format!("{:?}", got.map(type_json))));
                            }
                        }
                    }
                }
            }
        }
    }
    rec.sub("string_path", json!({"strings_parsed": parsed, "v3_footers_parsed": fparsed, "probes": n}));
}

pub fn run(args: &Args) -> i32 {
    let rec = Recorder::new(args, "exploration");
    let cyc = Cycle::build();
    let tabs = Tables::build(&cyc);
    let thorough = args.thorough();
    let kf1_open = rec.kf_open("KF1");
    let (yf, yt) = if thorough { (2000, 2399) } else { (2000, 2399) };
    let mut total = Tally::default();
    {
        let rules = rule_list_quick();
        let full_years = !args.digest_mode; let _ = thorough;
        let t = rules
            .par_iter()
            .enumerate()
            .map(|(i, r)| {
                let mut tl = Tally::default();
                // quick: 400 years for every 8th rule, 40 years (one of 10 windows, rotating) for the others
                let (a, b) = if full_years || i % 8 == 0 { (yf, yt) } else { let w = (i % 10) as i64; (2000 + 40 * w, 2039 + 40 * w) };
                if let Err(m) = guard(|| check_rule(&tabs, r, a, b, &rec, "quick_set", &mut tl, kf1_open)) {
                    rec.violation("quick_set", json!({"kind":"rule","rule":spec_json(r),"t":null,"year":a}), json!("no panic"), json!(m));
                }
                tl
            })
            .reduce(Tally::default, Tally::merge);
        rec.sub("quick_set", json!({"rules_generated": rules.len(), "explored": t.rules, "refused_by_constructor": t.rejected, "not_interleaving_or_degenerate": t.skipped_class, "probes": t.evals}));
        total = total.merge(t);
    }
    if thorough {
        // all 1151 x 1151 day pairs x 3 combinations
        let days = tabs.days.clone();
        let combos = [quick_combos()[0], quick_combos()[3], quick_combos()[8]];
        let t = (0..days.len())
            .into_par_iter()
            .map(|i| {
                let mut tl = Tally::default();
                for j in 0..days.len() {
                    for (k, &(st, et, o)) in combos.iter().enumerate() {
                        let r = spec(days[i], days[j], st, et, o);
                        let w = ((i + j + k) % 10) as i64;
                        if let Err(m) = guard(|| check_rule(&tabs, &r, 2000 + 40 * w, 2039 + 40 * w, &rec, "all_day_pairs", &mut tl, kf1_open)) {
                            rec.violation("all_day_pairs", json!({"kind":"rule","rule":spec_json(&r),"t":null,"year":2000}), json!("no panic"), json!(m));
                        }
                    }
                }
                tl
            })
            .reduce(Tally::default, Tally::merge);
        rec.sub("all_day_pairs", json!({"explored": t.rules, "refused_by_constructor": t.rejected, "not_interleaving_or_degenerate": t.skipped_class, "probes": t.evals}));
        total = total.merge(t);
        // quick notation set x full T x T x O
        let qd = quick_days();
        let (ts, os) = (times(), offsets());
        let t = (0..qd.len() * qd.len())
            .into_par_iter()
            .map(|ij| {
                let (i, j) = (ij / qd.len(), ij % qd.len());
                let mut tl = Tally::default();
                for &st in &ts {
                    for &et in &ts {
                        for &o in &os {
                            let r = spec(qd[i], qd[j], st, et, o);
                            let w = ((i + j) % 20) as i64;
                            if let Err(m) = guard(|| check_rule(&tabs, &r, 2000 + 20 * w, 2019 + 20 * w, &rec, "full_time_offset_product", &mut tl, kf1_open)) {
                                rec.violation("full_time_offset_product", json!({"kind":"rule","rule":spec_json(&r),"t":null,"year":2000}), json!("no panic"), json!(m));
                            }
                        }
                    }
                }
                tl
            })
            .reduce(Tally::default, Tally::merge);
        rec.sub("full_time_offset_product", json!({"explored": t.rules, "refused_by_constructor": t.rejected, "not_interleaving_or_degenerate": t.skipped_class, "probes": t.evals}));
        total = total.merge(t);
    }
    total = total.merge(sweep_behind_table_with_leaps(&cyc, &tabs, &rec));
    if !args.digest_mode {
        total = total.merge(sweep_year_edge_days(&tabs, &rec, kf1_open));
    }
    if !args.digest_mode {
        total = total.merge(sweep_far_years(&cyc, &rec, thorough));
    }
    if !args.digest_mode {
        total = total.merge(sweep_time_grid(&tabs, &rec, thorough, kf1_open));
    }
    // C19 digest mode: the partial-tie family is left to C04 itself
    if !args.digest_mode {
        total = total.merge(sweep_partial_ties(&tabs, &rec, thorough, kf1_open));
    }
    let mut tl = Tally::default();
    if let Err(m) = guard(|| sweep_extreme_years(&cyc, &rec, &mut tl, kf1_open)) {
        rec.violation("extreme_years", json!({"kind":"extreme_sweep"}), json!("no panic"), json!(m));
    }
    #[cfg(feature = "tz-alloc")]
    if let Err(m) = guard(|| sweep_string_path(&tabs, &rec, &mut tl, kf1_open)) {
        rec.violation("string_path", json!({"kind":"string_sweep"}), json!("no panic"), json!(m));
    }
    total = total.merge(tl);

    // witness of KF1 is re-executed on every run
    kf1_witness(&cyc, &rec);

    rec.add(total.evals, total.nontrivial);
    rec.digest("rule", total.digest);
    let names = ["SF/before/std", "SF/before/dst", "SF/inside/std", "SF/inside/dst", "SF/after/std", "SF/after/dst", "EF/before/std", "EF/before/dst", "EF/inside/std", "EF/inside/dst", "EF/after/std", "EF/after/dst"];
    rec.sub("leaves_reached", json!(names.iter().zip(total.leaves.iter()).map(|(n, c)| (n.to_string(), json!(c))).collect::<serde_json::Map<_, _>>()));
    rec.sub("classes", json!({"start_first_rules": total.start_first, "end_first_rules": total.end_first, "kf1_cases": total.kf1}));
    rec.set_rule("rules = day-notation pairs x (start time, end time, offsets) combinations accepted by AlternateTime::new and classified interleaving by the model; probes per year: S(y)-1,S(y),S(y)+1,E(y)-1,E(y),E(y)+1, UTC and both local New Years -1/0, middles of both periods; oracle = rule timeline model. non-trivial = the probes S(y)-1|S(y) and E(y)-1|E(y), where the answer must change");
    rec.set_exhaustive(thorough);
    for l in 0..12 {
        if total.leaves[l] > 0 {
            rec.outcome(names[l]);
        }
    }
    let rules = rule_list_quick();
    let r = &rules[(args.seed as usize * 7919 + 13) % rules.len()];
    rec.sample(json!({"rule": spec_json(r), "tz": tz_string(r), "S(2024)": r.s(&cyc, 2024), "E(2024)": r.e(&cyc, 2024)}));
    rec.finish()
}

/// KF1 witness: AAA0BBB0,J60/0,M2.5.0/24 at 1613390400
pub fn kf1_witness(cyc: &Cycle, rec: &Recorder) {
    let r = RuleSpec { std_off: 0, dst_off: 0, start: Day::J(60), start_time: 0, end: Day::M(2, 5, 0), end_time: 86400 };
    let (ms, md) = (std_type(&r), dst_type(&r));
    let a = match alt(&r, &ms, &md) {
        Ok(a) => a,
        Err(_) => return,
    };
    let types = [ltt(&ms), ltt(&md)];
    let rule = Some(TransitionRule::Alternate(a));
    let zr = TimeZoneRef::new(&[], &types, &[], &rule).unwrap();
    let t = 1613390400;
    let line = Timeline::build(cyc, &r, 2000, 402);
    let class = line.classify();
    let exp = line.is_dst(class, t, 2021);
    let got = zr.find_local_time_type(t).map(|l| l.is_dst());
    let fails = got.as_ref().ok() != Some(&exp);
    rec.sub("kf1_witness", json!({"tz": "AAA0BBB0,J60/0,M2.5.0/24", "t": t, "model_is_dst": exp, "impl_is_dst": format!("{got:?}"), "still_fails": fails, "class": format!("{class:?}")}));
    if fails {
        if rec.kf_open("KF1") {
            rec.known_hit("KF1", || json!({"witness": "AAA0BBB0,J60/0,M2.5.0/24", "t": t}));
        } else {
            rec.violation("kf1_witness", json!({"kind":"rule","rule":spec_json(&r),"t":t,"year":2021}), json!({"is_dst": exp}), json!(format!("{got:?}")));
        }
    }
}

pub fn replay(case: &Value, args: &Args) -> i32 {
    let rec = Recorder::new(args, "exploration");
    let cyc = Cycle::build();
    let tabs = Tables::build(&cyc);
    let kind = case["kind"].as_str().unwrap_or("");
    if kind == "zone_probe" || kind == "zone" {
        // a lookup behind a table in a zone with leap seconds
        let z = zone_from_json(&cyc, &case["zone"]);
        let mut bad = false;
        for _ in 0..2 {
            let iz = ImplZone::from_model(&z).unwrap();
            match iz.zref() {
                Ok(zr) => {
                    if let Some(u) = case["t"].as_i64() {
                        let exp = z.forward(&cyc, u);
                        let got = zr.find_local_time_type(u);
                        println!("model {:?} impl {:?}", exp.as_ref().map(|m| mtype_json(m)), got.as_ref().map(|l| type_json(l)));
                        if !matches!((&exp, &got), (Ok(m), Ok(l)) if same_type(l, m)) {
                            bad = true;
                        }
                    }
                }
                Err(e) => {
                    println!("zone refused: {}", err_name(&e));
                    bad = true;
                }
            }
        }
        println!("{}", if bad { "REPLAY: violation reproduced" } else { "REPLAY: case passes" });
        return bad as i32;
    }
    if kind == "rule_probe" {
        // one lookup in a rule-only zone against the rule model evaluated directly
        let r = spec_from_json(&case["rule"]);
        let t = case["t"].as_i64().unwrap();
        let (ms, md) = (std_type(&r), dst_type(&r));
        let mz = MZone { trans: vec![], types: vec![ms, md], leaps: vec![], rule: Some(MRule::alt(&cyc, r, ms, md)) };
        let types = [ltt(&ms), ltt(&md)];
        let rule = Some(TransitionRule::Alternate(alt(&r, &ms, &md).expect("rule constructible")));
        let zr = TimeZoneRef::new(&[], &types, &[], &rule).unwrap();
        let mut bad = false;
        for _ in 0..2 {
            let exp = mz.forward(&cyc, t);
            let got = zr.find_local_time_type(t);
            println!("model {:?} impl {:?}", exp.as_ref().map(|m| mtype_json(m)), got.as_ref().map(|l| type_json(l)));
            if !matches!((&exp, &got), (Ok(m), Ok(l)) if same_type(l, m)) {
                bad = true;
            }
        }
        println!("{}", if bad { "REPLAY: violation reproduced" } else { "REPLAY: case passes" });
        return bad as i32;
    }
    if kind != "rule" && kind != "string" && kind != "extreme" {
        return 2;
    }
    let r = spec_from_json(&case["rule"]);
    let mut tl = Tally::default();
    for _ in 0..2 {
        if kind == "extreme" {
            sweep_extreme_years(&cyc, &rec, &mut tl, false);
            continue;
        }
        let y = case["year"].as_i64().unwrap_or(2021);
        let (a, b) = match case["t"].as_i64() {
            Some(_) => (y.max(Y0 + 3), y.min(Y0 + NYEARS as i64 - 4)),
            None => (2000, 2399),
        };
        if let Err(m) = guard(|| check_rule(&tabs, &r, a, b, &rec, "replay", &mut tl, false)) {
            rec.violation("replay", case.clone(), json!("no panic"), json!(m));
        }
    }
    let n = rec.viol_count.load(std::sync::atomic::Ordering::Relaxed);
    if n > 0 {
        println!("REPLAY: violation reproduced ({n} disagreeing probes in the replayed year(s); known findings are not suppressed in replay)");
        1
    } else {
        println!("REPLAY: case passes");
        0
    }
}
