//! Conversions between model values (refmodel) and tz-rs values.

use refmodel::rule::{Day, RuleSpec};
use refmodel::zone::{MRule, MType, MZone};
use serde_json::{json, Value};
use tz::timezone::{AlternateTime, Julian0WithLeap, Julian1WithoutLeap, LeapSecond, LocalTimeType, MonthWeekDay, RuleDay, TimeZoneRef, Transition, TransitionRule};
use tz::TzError;

pub fn ltt(t: &MType) -> LocalTimeType {
    LocalTimeType::new(t.off, t.dst, t.name()).expect("model type must be constructible")
}

pub fn same_type(l: &LocalTimeType, m: &MType) -> bool {
    l.ut_offset() == m.off && l.is_dst() == m.dst && l.time_zone_designation().as_bytes() == m.name().unwrap_or(b"")
}

pub fn type_json(l: &LocalTimeType) -> Value {
    json!({"off": l.ut_offset(), "dst": l.is_dst(), "name": l.time_zone_designation()})
}
pub fn mtype_json(m: &MType) -> Value {
    json!({"off": m.off, "dst": m.dst, "name": m.name().map(|n| String::from_utf8_lossy(n).to_string()).unwrap_or_default()})
}

pub fn rule_day(d: Day) -> RuleDay {
    match d {
        Day::J(n) => RuleDay::Julian1WithoutLeap(Julian1WithoutLeap::new(n).unwrap()),
        Day::Z(n) => RuleDay::Julian0WithLeap(Julian0WithLeap::new(n).unwrap()),
        Day::M(m, w, d) => RuleDay::MonthWeekDay(MonthWeekDay::new(m, w, d).unwrap()),
    }
}

pub fn alt(spec: &RuleSpec, std: &MType, dst: &MType) -> Result<AlternateTime, tz::error::timezone::TransitionRuleError> {
    AlternateTime::new(ltt(std), ltt(dst), rule_day(spec.start), spec.start_time as i32, rule_day(spec.end), spec.end_time as i32)
}

pub fn day_json(d: Day) -> Value {
    json!(d.text())
}
pub fn day_from_json(v: &Value) -> Day {
    let s = v.as_str().unwrap();
    if let Some(r) = s.strip_prefix('J') {
        Day::J(r.parse().unwrap())
    } else if let Some(r) = s.strip_prefix('M') {
        let p: Vec<u8> = r.split('.').map(|x| x.parse().unwrap()).collect();
        Day::M(p[0], p[1], p[2])
    } else {
        Day::Z(s.parse().unwrap())
    }
}
pub fn spec_json(s: &RuleSpec) -> Value {
    json!({"std_off": s.std_off, "dst_off": s.dst_off, "start": s.start.text(), "start_time": s.start_time, "end": s.end.text(), "end_time": s.end_time})
}
pub fn spec_from_json(v: &Value) -> RuleSpec {
    RuleSpec {
        std_off: v["std_off"].as_i64().unwrap(),
        dst_off: v["dst_off"].as_i64().unwrap(),
        start: day_from_json(&v["start"]),
        start_time: v["start_time"].as_i64().unwrap(),
        end: day_from_json(&v["end"]),
        end_time: v["end_time"].as_i64().unwrap(),
    }
}

/// tz-rs values built from a model zone (borrowed constructor usable without alloc in tz-rs)
pub struct ImplZone {
    pub trans: Vec<Transition>,
    pub types: Vec<LocalTimeType>,
    pub leaps: Vec<LeapSecond>,
    pub rule: Option<TransitionRule>,
}

impl ImplZone {
    pub fn from_model(z: &MZone) -> Result<ImplZone, String> {
        let rule = match &z.rule {
            None => None,
            Some(MRule::Fixed(t)) => Some(TransitionRule::Fixed(ltt(t))),
            Some(MRule::Alt { spec, std, dst, .. }) => Some(TransitionRule::Alternate(alt(spec, std, dst).map_err(|e| format!("{e:?}"))?)),
        };
        Ok(ImplZone {
            trans: z.trans.iter().map(|&(t, i)| Transition::new(t, i)).collect(),
            types: z.types.iter().map(ltt).collect(),
            leaps: z.leaps.iter().map(|&(t, c)| LeapSecond::new(t, c)).collect(),
            rule,
        })
    }
    pub fn zref(&self) -> Result<TimeZoneRef<'_>, TzError> {
        TimeZoneRef::new(&self.trans, &self.types, &self.leaps, &self.rule)
    }
    #[cfg(feature = "tz-alloc")]
    pub fn owned(&self) -> Result<tz::TimeZone, TzError> {
        tz::TimeZone::new(self.trans.clone(), self.types.clone(), self.leaps.clone(), self.rule)
    }
}

pub fn zone_json(z: &MZone) -> Value {
    json!({
        "trans": z.trans.iter().map(|&(t, i)| json!([t, i])).collect::<Vec<_>>(),
        "types": z.types.iter().map(mtype_json).collect::<Vec<_>>(),
        "leaps": z.leaps.iter().map(|&(t, c)| json!([t, c])).collect::<Vec<_>>(),
        "rule": match &z.rule {
            None => Value::Null,
            Some(MRule::Fixed(t)) => json!({"fixed": mtype_json(t)}),
            Some(MRule::Alt{spec, std, dst, ..}) => json!({"alt": spec_json(spec), "std": mtype_json(std), "dst": mtype_json(dst)}),
        }
    })
}

fn mtype_from_json(v: &Value) -> MType {
    let name = v["name"].as_str().unwrap_or("");
    MType::new(v["off"].as_i64().unwrap() as i32, v["dst"].as_bool().unwrap(), if name.is_empty() { None } else { Some(name) })
}

pub fn zone_from_json(cyc: &refmodel::cal::Cycle, v: &Value) -> MZone {
    let pair = |x: &Value| (x[0].as_i64().unwrap(), x[1].as_i64().unwrap());
    MZone {
        trans: v["trans"].as_array().unwrap().iter().map(|x| { let (a, b) = pair(x); (a, b as usize) }).collect(),
        types: v["types"].as_array().unwrap().iter().map(mtype_from_json).collect(),
        leaps: v["leaps"].as_array().unwrap().iter().map(|x| { let (a, b) = pair(x); (a, b as i32) }).collect(),
        rule: if v["rule"].is_null() {
            None
        } else if !v["rule"]["fixed"].is_null() {
            Some(MRule::Fixed(mtype_from_json(&v["rule"]["fixed"])))
        } else {
            Some(MRule::alt(cyc, spec_from_json(&v["rule"]["alt"]), mtype_from_json(&v["rule"]["std"]), mtype_from_json(&v["rule"]["dst"])))
        },
    }
}

pub fn err_name(e: &TzError) -> String {
    format!("{e:?}")
}
