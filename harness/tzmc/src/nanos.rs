//! Engine `nanos`: C16 total nanoseconds <-> (seconds, nanoseconds).

use crate::cal::{MAX_UNIX_TIME, MIN_UNIX_TIME};
use crate::common::*;
use rayon::prelude::*;
use serde_json::{json, Value};
use tz::{DateTime, LocalTimeType, TimeZoneRef, TzError, UtcDateTime};

const G: i128 = 1_000_000_000;

/// reference split: truncating division corrected by sign (no div_euclid)
fn ref_split(n: i128) -> (i128, u32) {
    let mut q = n / G;
    let mut r = n % G;
    if r < 0 {
        q -= 1;
        r += G;
    }
    (q, r as u32)
}

#[derive(Default, Clone, Copy)]
struct Tally {
    evals: u64,
    nontrivial: u64,
    digest: u64,
}
impl Tally {
    fn merge(mut self, o: Tally) -> Tally {
        self.evals += o.evals;
        self.nontrivial += o.nontrivial;
        self.digest = self.digest.wrapping_add(o.digest);
        self
    }
}

fn same_dt(a: &DateTime, b: &DateTime) -> bool {
    a.year() == b.year()
        && a.month() == b.month()
        && a.month_day() == b.month_day()
        && a.hour() == b.hour()
        && a.minute() == b.minute()
        && a.second() == b.second()
        && a.nanoseconds() == b.nanoseconds()
        && a.unix_time() == b.unix_time()
        && a.local_time_type() == b.local_time_type()
}

fn check_n(n: i128, full: bool, ltts: &[LocalTimeType]) -> Result<u64, (Value, Value)> {
    let (q, r) = ref_split(n);
    let in_range = q >= MIN_UNIX_TIME as i128 && q <= MAX_UNIX_TIME as i128;
    let got = UtcDateTime::from_total_nanoseconds(n);
    let mut dg = 0u64;
    match got {
        Ok(u) => {
            if !in_range {
                return Err((json!("Err(OutOfRange)"), json!(format!("{u:?}"))));
            }
            let s = q as i64;
            if u.unix_time() != s || u.nanoseconds() != r || u.total_nanoseconds() != n {
                return Err((json!({"unix_time": s, "ns": r, "total": n.to_string()}), json!({"unix_time": u.unix_time(), "ns": u.nanoseconds(), "total": u.total_nanoseconds().to_string()})));
            }
            match UtcDateTime::from_timespec(s, r) {
                Ok(v) if v == u => {}
                other => return Err((json!(format!("{u:?}")), json!(format!("from_timespec: {other:?}")))),
            }
            dg = (s as u64).wrapping_mul(1_000_003) ^ r as u64;
        }
        Err(TzError::OutOfRange) => {
            if in_range {
                return Err((json!({"unix_time": q.to_string(), "ns": r}), json!("Err(OutOfRange)")));
            }
        }
        Err(e) => return Err((json!("Ok or OutOfRange"), json!(format!("{e:?}")))),
    }
    if full {
        // DateTime constructors from total nanoseconds == constructors from (s, ns)
        let a = DateTime::from_total_nanoseconds(n, TimeZoneRef::utc());
        let fits_i64 = q >= i64::MIN as i128 && q <= i64::MAX as i128;
        let b = if fits_i64 { DateTime::from_timespec(q as i64, r, TimeZoneRef::utc()) } else { Err(TzError::OutOfRange) };
        match (&a, &b) {
            (Ok(x), Ok(y)) if same_dt(x, y) && x.total_nanoseconds() == n => {}
            (Err(TzError::OutOfRange), Err(TzError::OutOfRange)) => {}
            _ => return Err((json!(format!("{b:?}")), json!(format!("{a:?}")))),
        }
        for ltt in ltts {
            let a = DateTime::from_total_nanoseconds_and_local(n, *ltt);
            let b = if fits_i64 { DateTime::from_timespec_and_local(q as i64, r, *ltt) } else { Err(TzError::OutOfRange) };
            let shifted = q + ltt.ut_offset() as i128;
            let exp_ok = fits_i64 && shifted >= MIN_UNIX_TIME as i128 && shifted <= MAX_UNIX_TIME as i128;
            match (&a, &b) {
                (Ok(x), Ok(y)) if exp_ok && same_dt(x, y) && x.total_nanoseconds() == n && x.unix_time() as i128 == q && x.nanoseconds() == r => {}
                (Err(TzError::OutOfRange), Err(TzError::OutOfRange)) if !exp_ok => {}
                _ => return Err((json!({"expected_ok": exp_ok, "from_timespec_and_local": format!("{b:?}")}), json!(format!("{a:?}")))),
            }
        }
    }
    Ok(dg)
}

fn sweep_range(name: &str, lo: i128, hi: i128, full_every: u64, rec: &Recorder, ltts: &[LocalTimeType]) -> Tally {
    let chunk: i128 = 1 << 20;
    let n = ((hi - lo) / chunk + 1) as u64;
    let t = (0..n)
        .into_par_iter()
        .map(|i| {
            let a = lo + i as i128 * chunk;
            let b = a.saturating_add(chunk - 1).min(hi);
            let r = guard(|| {
                let mut tl = Tally::default();
                let mut x = a;
                loop {
                    let full = full_every != 0 && (x as u64) % full_every == 0;
                    match check_n(x, full, ltts) {
                        Ok(d) => tl.digest = tl.digest.wrapping_add(d),
                        Err((e, g)) => rec.violation(name, json!({"kind":"n","n":x.to_string()}), e, g),
                    }
                    tl.evals += 1;
                    if x == b {
                        break;
                    }
                    x += 1;
                }
                // non-trivial: negative counts and exact multiples (counted in closed form over the chunk)
                tl
            });
            match r {
                Ok(t) => t,
                Err(m) => {
                    rec.violation(name, json!({"kind":"range","lo":a.to_string(),"hi":b.to_string()}), json!("no panic"), json!(m));
                    Tally::default()
                }
            }
        })
        .reduce(Tally::default, Tally::merge);
    rec.sub(name, json!({"lo": lo.to_string(), "hi": hi.to_string(), "evaluations": t.evals}));
    t
}

/// date-times built from total nanoseconds through a ZONE equal those built from the (seconds, nanoseconds) pair:
/// counts around every transition of table and rule zones, before and after the epoch
fn sweep_zone_lookups(rec: &Recorder) -> Tally {
    use tz::timezone::{AlternateTime, MonthWeekDay, RuleDay, Transition, TransitionRule};
    let lt = |o: i32, d: bool, n: &[u8]| LocalTimeType::new(o, d, Some(n)).unwrap();
    let types = [lt(0, false, b"STD"), lt(3600, true, b"DST")];
    // incl. transitions where the nanosecond count leaves 64 bits (before 1677 / after 2262) and at other machine limits
    let trans = [
        Transition::new(-(1i64 << 62), 0),
        Transition::new(-20_000_000_000, 1),
        Transition::new(-10_000_000_000, 0),
        Transition::new(-9_223_372_037, 1),
        Transition::new(-9_223_372_036, 0),
        Transition::new(-4_294_967_296, 1),
        Transition::new(-86400 * 400, 0),
        Transition::new(-86400, 1),
        Transition::new(-3600, 0),
        Transition::new(-1, 1),
        Transition::new(0, 0),
        Transition::new(1, 1),
        Transition::new(3600, 0),
        Transition::new(86400, 1),
        Transition::new(4_294_967_296, 0),
        Transition::new(9_223_372_036, 1),
        Transition::new(9_223_372_037, 0),
        Transition::new(18_446_744_073, 1),
        Transition::new(18_446_744_074, 0),
        Transition::new(1i64 << 62, 1),
    ];
    let fixed = Some(TransitionRule::Fixed(types[1]));
    let m = |a: u8, b: u8, c: u8| RuleDay::MonthWeekDay(MonthWeekDay::new(a, b, c).unwrap());
    let us = AlternateTime::new(lt(-18000, false, b"EST"), lt(-14400, true, b"EDT"), m(3, 2, 0), 7200, m(11, 1, 0), 7200).unwrap();
    let us_types = [*us.std(), *us.dst()];
    let us_rule = Some(TransitionRule::Alternate(us));
    let none = None;
    let zones = [TimeZoneRef::new(&trans, &types, &[], &fixed).unwrap(), TimeZoneRef::new(&trans[..19], &types, &[], &none).unwrap(), TimeZoneRef::new(&[], &us_types, &[], &us_rule).unwrap()];
    let cyc = refmodel::cal::Cycle::build();
    let spec = refmodel::rule::RuleSpec { std_off: -18000, dst_off: -14400, start: refmodel::rule::Day::M(3, 2, 0), start_time: 7200, end: refmodel::rule::Day::M(11, 1, 0), end_time: 7200 };
    let mut instants: Vec<i64> = trans.iter().map(|t| t.unix_leap_time()).collect();
    for y in [1900i64, 1955, 1969, 1970, 1971, 2024] {
        instants.push(spec.s(&cyc, y));
        instants.push(spec.e(&cyc, y));
    }
    let mut tl = Tally::default();
    for z in zones {
        for &t in &instants {
            for ds in -2i128..=2 {
                for dn in [-1i128, 0, 1, 2, 499_999_999, 999_999_998, 999_999_999] {
                    let n = (t as i128 + ds) * G + dn;
                    tl.evals += 1;
                    let (q, r) = ref_split(n);
                    let res = guard(|| {
                        let a = DateTime::from_total_nanoseconds(n, z);
                        let b = DateTime::from_timespec(q as i64, r, z);
                        let same = match (&a, &b) {
                            (Ok(x), Ok(y)) => same_dt(x, y) && x.total_nanoseconds() == n,
                            (Err(x), Err(y)) => format!("{x:?}") == format!("{y:?}"),
                            _ => false,
                        };
                        (same, format!("from_timespec({q}, {r}, zone): {b:?}"), format!("{a:?}"))
                    });
                    match res {
                        Ok((true, _, _)) => {}
                        Ok((false, e, g)) => rec.violation("zone_lookups", json!({"kind":"n","n":n.to_string()}), json!(e), json!(g)),
                        Err(m) => rec.violation("zone_lookups", json!({"kind":"n","n":n.to_string()}), json!("no panic"), json!(m)),
                    }
                }
            }
        }
    }
    rec.sub("zone_lookups", json!({"evaluations": tl.evals}));
    tl
}

pub fn run(args: &Args) -> i32 {
    let rec = Recorder::new(args, "exploration");
    let thorough = args.thorough();
    let ltts: Vec<LocalTimeType> = [0i32, 1, -1, 3600, -86399, i32::MAX, i32::MIN + 1].iter().map(|&o| LocalTimeType::with_ut_offset(o).unwrap()).collect();
    let mut total = Tally::default();
    let big: i128 = if args.digest_mode { 1 << 24 } else if thorough { 1 << 33 } else { 1 << 28 };
    total = total.merge(sweep_range("around_zero", -big, big, 64, &rec, &ltts));
    let w: i128 = if thorough { 1 << 22 } else { 1 << 20 };
    let mut centers: Vec<(String, i128)> = vec![];
    for k in -4i128..=4 {
        centers.push((format!("k={k}"), k * G));
    }
    centers.push(("min_unix_time".into(), MIN_UNIX_TIME as i128 * G));
    centers.push(("max_unix_time_end".into(), (MAX_UNIX_TIME as i128 + 1) * G - 1));
    centers.push(("i64_min_seconds".into(), i64::MIN as i128 * G));
    centers.push(("i64_max_seconds_end".into(), (i64::MAX as i128 + 1) * G - 1));
    for (name, c) in &centers {
        total = total.merge(sweep_range(&format!("window_{name}"), c - w, c + w, 1, &rec, &ltts));
    }
    // the nanosecond count itself crossing machine-integer limits: +-2^k for every k, i64/u64 limits
    let w2: i128 = if thorough { 1 << 16 } else { 1 << 12 };
    let mut nwin = 0u64;
    for k in 0..127u32 {
        let p = 1i128 << k;
        for c in [p, -p] {
            let t = sweep_range(&format!("pow2_{}{k}", if c < 0 { "m" } else { "p" }), c - w2, c + w2, 1, &rec, &ltts);
            nwin += t.evals;
            total = total.merge(t);
        }
    }
    for (name, c) in [("i64_max", i64::MAX as i128), ("i64_min", i64::MIN as i128), ("u64_max", u64::MAX as i128), ("i64_max_x2", 2 * (i64::MAX as i128))] {
        let lw: i128 = if thorough { 1 << 28 } else if args.digest_mode { 1 << 20 } else { 1 << 23 };
        let t = sweep_range(&format!("limit_{name}"), c - lw, c + lw, 16, &rec, &ltts);
        nwin += t.evals;
        total = total.merge(t);
    }
    {
        // collapse the 254 power-of-two windows into one evidence entry
        let mut sub = rec.sub.lock().unwrap();
        let keys: Vec<String> = sub.keys().filter(|k| k.starts_with("pow2_")).cloned().collect();
        for k in keys {
            sub.remove(&k);
        }
        sub.insert("windows_around_pow2_and_integer_limits".into(), json!({"windows": 254 + 4, "evaluations": nwin}));
    }
    // whole seconds at machine-integer and decimal thresholds: n = s x 1e9 - w3 ..= s x 1e9 + w3 for s = +-2^k, +-10^k
    if !args.digest_mode {
        let w3: i128 = if thorough { 1 << 12 } else { 1 << 9 };
        let mut secs: Vec<i128> = vec![];
        for k in 0..70u32 {
            secs.push(1i128 << k);
            secs.push(-(1i128 << k));
        }
        let mut p = 10i128;
        while p < (1i128 << 70) {
            secs.push(p);
            secs.push(-p);
            p *= 10;
        }
        let mut n = 0u64;
        for s in secs {
            let t = sweep_range("sec_threshold", s * G - w3, s * G + w3, 1, &rec, &ltts);
            n += t.evals;
            total = total.merge(t);
        }
        rec.sub.lock().unwrap().remove("sec_threshold");
        rec.sub("windows_around_seconds_pow2_pow10", json!({"windows": 2 * 70 + 2 * 21, "evaluations": n}));
    }
    // a lattice over the whole success range (about +-6.78e25): step chosen odd and not a multiple of 1e9 so that the
    // nanosecond part runs through many residues
    {
        let lo = MIN_UNIX_TIME as i128 * G;
        let hi = (MAX_UNIX_TIME as i128 + 1) * G;
        let points: i128 = if thorough { 50_000_000 } else if args.digest_mode { 100_000 } else { 2_000_000 };
        let step = (hi - lo) / points + 123_456_791;
        let chunks: Vec<i128> = (0..1024).collect();
        let t = chunks
            .par_iter()
            .map(|&c| {
                let mut tl = Tally::default();
                let per = points / 1024 + 1;
                for j in c * per..((c + 1) * per).min(points) {
                    let n = lo + j * step;
                    if n >= hi {
                        break;
                    }
                    tl.evals += 1;
                    match guard(|| check_n(n, true, &ltts)) {
                        Ok(Ok(d)) => tl.digest = tl.digest.wrapping_add(d),
                        Ok(Err((e, g))) => rec.violation("lattice", json!({"kind":"n","n":n.to_string()}), e, g),
                        Err(m) => rec.violation("lattice", json!({"kind":"n","n":n.to_string()}), json!("no panic"), json!(m)),
                    }
                }
                tl
            })
            .reduce(Tally::default, Tally::merge);
        rec.sub("lattice_over_success_range", json!({"points": t.evals, "step": step.to_string()}));
        total = total.merge(t);
    }
    // totals whose count of nanoseconds / seconds / minutes / hours / days / weeks equals an in-range one modulo 2^m
    {
        let cands = crate::cal::wrap_total_candidates();
        let mut n = 0u64;
        for c in cands {
            n += 1;
            match guard(|| check_n(c, true, &ltts)) {
                Ok(Ok(_)) => {}
                Ok(Err((e, g))) => rec.violation("wrap_totals", json!({"kind":"n","n":c.to_string()}), e, g),
                Err(m) => rec.violation("wrap_totals", json!({"kind":"n","n":c.to_string()}), json!("no panic"), json!(m)),
            }
        }
        total.evals += n;
        rec.sub("wrap_totals", json!({"evaluations": n}));
    }
    total = total.merge(sweep_zone_lookups(&rec));
    total = total.merge(sweep_range("i128_min", i128::MIN, i128::MIN + w, 1, &rec, &ltts));
    total = total.merge(sweep_range("i128_max", i128::MAX - w, i128::MAX, 1, &rec, &ltts));
    // product of boundary seconds x boundary nanoseconds
    let mut secs: Vec<i128> = vec![];
    for base in [0i128, MIN_UNIX_TIME as i128, MAX_UNIX_TIME as i128, i64::MIN as i128, i64::MAX as i128, i32::MIN as i128, i32::MAX as i128, 951868800, -62167219200] {
        for d in -3..=3 {
            secs.push(base + d);
        }
    }
    for k in 0..70 {
        let p = 1i128 << k;
        secs.extend([p - 1, p, p + 1, -p - 1, -p, -p + 1]);
    }
    let nss: Vec<i128> = vec![0, 1, 2, 499_999_999, 500_000_000, 999_999_998, 999_999_999];
    let mut nprod = 0u64;
    for &s in &secs {
        for &r in &nss {
            let n = match s.checked_mul(G).and_then(|x| x.checked_add(r)) {
                Some(n) => n,
                None => continue,
            };
            nprod += 1;
            match guard(|| check_n(n, true, &ltts)) {
                Ok(Ok(_)) => {}
                Ok(Err((e, g))) => rec.violation("product", json!({"kind":"n","n":n.to_string()}), e, g),
                Err(m) => rec.violation("product", json!({"kind":"n","n":n.to_string()}), json!("no panic"), json!(m)),
            }
            // identity split on the boundary alphabet itself
            let (q, rr) = ref_split(n);
            assert!(q == s && rr as i128 == r);
        }
    }
    total.evals += nprod;
    rec.sub("product_boundary_seconds_x_ns", json!({"evaluations": nprod}));

    // ns >= 1e9 refused wherever fields are validated
    let mut nref = 0u64;
    let utc = TimeZoneRef::utc();
    for ns in [1_000_000_000u32, 1_000_000_001, 2_000_000_000, u32::MAX - 1, u32::MAX] {
        for (y, mo, d, h, mi, s) in [(1970, 1, 1, 0, 0, 0), (2024, 2, 29, 23, 59, 60), (i32::MIN, 1, 1, 0, 0, 0), (i32::MAX, 12, 31, 23, 59, 59), (-1, 6, 15, 12, 30, 30)] {
            let case = json!({"kind":"ns_refusal","ns":ns,"y":y,"mo":mo,"d":d,"h":h,"mi":mi,"s":s});
            let exp = "DateTime(InvalidNanoseconds)";
            let mut results: Vec<(&str, String)> = vec![];
            results.push(("UtcDateTime::new", format!("{:?}", guard(|| UtcDateTime::new(y, mo, d, h, mi, s, ns).map(|_| ())))));
            results.push(("DateTime::new", format!("{:?}", guard(|| DateTime::new(y, mo, d, h, mi, s, ns, LocalTimeType::utc()).map(|_| ())))));
            let mut buf = [None; 4];
            results.push(("DateTime::find_n", format!("{:?}", guard(|| DateTime::find_n(&mut buf, y, mo, d, h, mi, s, ns, utc).map(|_| ())))));
            #[cfg(feature = "tz-alloc")]
            results.push(("DateTime::find", format!("{:?}", guard(|| DateTime::find(y, mo, d, h, mi, s, ns, utc).map(|_| ())))));
            // also against a zone with transitions and a rule (different code path in the search)
            let tr = [tz::timezone::Transition::new(0, 1)];
            let lt = [LocalTimeType::utc(), LocalTimeType::with_ut_offset(3600).unwrap()];
            let rule = Some(tz::timezone::TransitionRule::Fixed(lt[1]));
            let z = TimeZoneRef::new(&tr, &lt, &[], &rule).unwrap();
            results.push(("DateTime::find_n(zone)", format!("{:?}", guard(|| DateTime::find_n(&mut buf, y, mo, d, h, mi, s, ns, z).map(|_| ())))));
            for (what, r) in results {
                nref += 1;
                if r != format!("Ok(Err({exp}))") {
                    rec.violation("ns_refusal", json!({"case": case, "via": what}), json!(exp), json!(r));
                }
            }
        }
    }
    total.evals += nref;
    rec.sub("ns_refusal", json!({"evaluations": nref}));

    // non-trivial by closed form: counts that are negative or exact multiples of 1e9 +-1 in the explored windows
    // measured conservatively: boundary windows contribute 3 non-trivial counts (k*1e9-1, k*1e9, k*1e9+1) each,
    // the big range contributes its negative half
    let nontrivial = big as u64 + 3 * centers.len() as u64 + nprod;
    rec.add(total.evals, nontrivial);
    rec.digest("nanos", total.digest);
    rec.set_rule("every integer n of the listed ranges/windows: from_total_nanoseconds vs reference floor split, recombination, equality with the (s, ns) constructors (DateTime variants on every n of the windows and every 64th n of the big range, 7 offsets); product of boundary seconds x boundary ns; ns>=1e9 refusals. non-trivial = negative n of the big range + the three counts straddling each window centre + every product case");
    rec.set_exhaustive(false);
    rec.outcome("Ok");
    rec.outcome("OutOfRange");
    rec.outcome("InvalidNanoseconds");
    for (i, (name, c)) in centers.iter().enumerate() {
        if i % 3 == (args.seed % 3) as usize {
            let n = c - 1;
            rec.sample(json!({"window": name, "n": n.to_string(), "model_split": format!("{:?}", ref_split(n)), "impl": format!("{:?}", UtcDateTime::from_total_nanoseconds(n).map(|u| (u.unix_time(), u.nanoseconds())))}));
        }
    }
    rec.finish()
}

pub fn replay(case: &Value, args: &Args) -> i32 {
    let rec = Recorder::new(args, "exploration");
    let ltts: Vec<LocalTimeType> = [0i32, 1, -1, 3600, -86399, i32::MAX, i32::MIN + 1].iter().map(|&o| LocalTimeType::with_ut_offset(o).unwrap()).collect();
    let mut ns: Vec<i128> = vec![];
    match case["kind"].as_str().unwrap_or("") {
        "n" => ns.push(case["n"].as_str().unwrap().parse().unwrap()),
        "range" => {
            let lo: i128 = case["lo"].as_str().unwrap().parse().unwrap();
            let hi: i128 = case["hi"].as_str().unwrap().parse().unwrap();
            let mut x = lo;
            loop {
                ns.push(x);
                if x == hi {
                    break;
                }
                x += 1;
            }
        }
        _ => {
            println!("REPLAY: ns_refusal cases are re-run by the engine itself");
            return run(args);
        }
    }
    let mut bad = 0;
    for n in ns {
        for _ in 0..2 {
            match guard(|| check_n(n, true, &ltts)) {
                Ok(Ok(_)) => {}
                Ok(Err((e, g))) => {
                    bad += 1;
                    println!("n={n}: expected {e} got {g}");
                }
                Err(m) => {
                    bad += 1;
                    println!("n={n}: panic {m}");
                }
            }
        }
    }
    let _ = rec;
    if bad > 0 {
        println!("REPLAY: violation reproduced");
        1
    } else {
        println!("REPLAY: case passes");
        0
    }
}
