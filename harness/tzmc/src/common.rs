//! Shared machinery: arguments, recorder (evidence + violations + known findings), panic capture.

use serde_json::{json, Map, Value};
use std::cell::RefCell;
use std::collections::{BTreeMap, BTreeSet};
use std::path::PathBuf;
use std::sync::atomic::{AtomicU64, Ordering};
use std::sync::Mutex;
use std::time::Instant;

#[derive(Clone, Copy, PartialEq, Eq, Debug)]
pub enum Tier {
    Quick,
    Thorough,
}

#[derive(Clone, Debug)]
pub struct Args {
    pub engine: String,
    pub prop: String,
    pub tier: Tier,
    pub seed: u64,
    pub evidence: Option<PathBuf>,
    pub replay_dir: PathBuf,
    pub known_findings: PathBuf,
    pub digest_mode: bool,
    pub extra: BTreeMap<String, String>,
}

impl Args {
    pub fn parse(argv: &[String]) -> Args {
        let mut a = Args {
            engine: argv.get(1).cloned().unwrap_or_default(),
            prop: String::new(),
            tier: Tier::Quick,
            seed: std::env::var("VERIF_SEED").ok().and_then(|s| s.parse().ok()).unwrap_or(0),
            evidence: None,
            replay_dir: PathBuf::from("/verif/replay"),
            known_findings: PathBuf::from("/verif/known_findings.json"),
            digest_mode: false,
            extra: BTreeMap::new(),
        };
        let mut i = 2;
        while i < argv.len() {
            let k = argv[i].as_str();
            let v = argv.get(i + 1).cloned().unwrap_or_default();
            match k {
                "--prop" => a.prop = v,
                "--tier" => a.tier = if v == "thorough" { Tier::Thorough } else { Tier::Quick },
                "--seed" => a.seed = v.parse().unwrap_or(0),
                "--evidence" => a.evidence = Some(PathBuf::from(v)),
                "--replay-dir" => a.replay_dir = PathBuf::from(v),
                "--known" => a.known_findings = PathBuf::from(v),
                "--digest" => {
                    a.digest_mode = true;
                    i += 1;
                    continue;
                }
                _ => {
                    a.extra.insert(k.trim_start_matches("--").to_string(), v);
                }
            }
            i += 2;
        }
        a
    }
    pub fn thorough(&self) -> bool {
        self.tier == Tier::Thorough
    }
}

// ---------------------------------------------------------------------------------------------
// panic capture

thread_local! {
    static PANIC_MSG: RefCell<Option<String>> = const { RefCell::new(None) };
    static GUARD_DEPTH: std::cell::Cell<u32> = const { std::cell::Cell::new(0) };
}

/// context of the safety net in the panic hook (set for the in-process sweep engines only)
pub struct NetCtx {
    pub engine: String,
    pub prop: String,
    pub tier: &'static str,
    pub seed: u64,
    pub replay_dir: PathBuf,
    pub evidence: Option<PathBuf>,
}
static NET: std::sync::OnceLock<NetCtx> = std::sync::OnceLock::new();
static NET_LOCK: Mutex<()> = Mutex::new(());

pub fn arm_safety_net(a: &Args) {
    const ENGINES: [&str; 13] = ["cal", "nanos", "fmt", "table", "rule", "rulecons", "find", "leap", "zonecons", "dtinv", "tzstr", "tzif", "resolve"];
    if a.digest_mode || !ENGINES.contains(&a.engine.as_str()) {
        return;
    }
    let _ = NET.set(NetCtx {
        engine: a.engine.clone(),
        prop: a.prop.clone(),
        tier: if a.tier == Tier::Thorough { "thorough" } else { "quick" },
        seed: a.seed,
        replay_dir: a.replay_dir.clone(),
        evidence: a.evidence.clone(),
    });
}

pub fn install_panic_hook() {
    std::panic::set_hook(Box::new(|info| {
        let msg = if let Some(s) = info.payload().downcast_ref::<&str>() {
            s.to_string()
        } else if let Some(s) = info.payload().downcast_ref::<String>() {
            s.clone()
        } else {
            "panic".to_string()
        };
        let loc = info.location().map(|l| format!("{}:{}", l.file(), l.line())).unwrap_or_default();
        if GUARD_DEPTH.with(|g| g.get()) == 0 {
            let harness = loc.starts_with("tzmc/src") || loc.starts_with("refmodel/src") || loc.contains("/verif/harness/");
            let foreign = loc.contains("/rustc/") || loc.contains("/.cargo/") || loc.contains("/library/") || loc.is_empty();
            if !harness && !foreign && loc.contains("src/") {
                if let Some(ctx) = NET.get() {
                    // safety net: tz-rs itself panicked in a call the engine did not wrap. No model ever panics, so this
                    // is a verdict for every property; the replay re-runs the sweep (the case is not known here).
                    let _g = NET_LOCK.lock();
                    let case = json!({"kind": "unguarded_panic", "tier": ctx.tier, "message": msg, "location": loc});
                    let v = json!({"engine": ctx.engine, "property": ctx.prop, "sweep": "unguarded", "case": case, "expected": "no panic inside tz-rs", "got": format!("{msg} @ {loc}")});
                    let _ = std::fs::create_dir_all(&ctx.replay_dir);
                    let rp = ctx.replay_dir.join(format!("{}-{}-panic.json", ctx.prop, ctx.engine));
                    let _ = std::fs::write(&rp, serde_json::to_string_pretty(&v).unwrap());
                    if let Some(e) = &ctx.evidence {
                        let ev = json!({"property_id": ctx.prop, "tier": ctx.tier, "seed": ctx.seed, "level": "model_checking", "engine": ctx.engine,
                            "coverage": {"evaluations": 0, "distinct_nontrivial": 0, "states": 0, "transitions": 0, "traces_validated_against_impl": 0,
                                "rule": "the run was ended by a panic inside tz-rs in a call the engine does not wrap; counts were not kept", "samples": [v["case"].clone()]},
                            "wall_s": 0.0, "violations": 1});
                        if let Some(dir) = e.parent() {
                            let _ = std::fs::create_dir_all(dir);
                        }
                        let _ = std::fs::write(e, serde_json::to_string_pretty(&ev).unwrap());
                    }
                    println!("tz-rs panicked: {msg} @ {loc}");
                    println!("VIOLATION property={} replay={}", ctx.prop, rp.display());
                    std::process::exit(1);
                }
            }
            eprintln!("MACHINERY PANIC (outside any guarded call into tz-rs): {msg} @ {loc}");
        }
        PANIC_MSG.with(|m| *m.borrow_mut() = Some(format!("{msg} @ {loc}")));
    }));
}

pub fn take_panic_msg() -> String {
    PANIC_MSG.with(|m| m.borrow_mut().take()).unwrap_or_else(|| "panic".into())
}

/// run `f`, turning a panic into Err(message)
pub fn guard<T>(f: impl FnOnce() -> T) -> Result<T, String> {
    GUARD_DEPTH.with(|g| g.set(g.get() + 1));
    let r = std::panic::catch_unwind(std::panic::AssertUnwindSafe(f));
    GUARD_DEPTH.with(|g| g.set(g.get() - 1));
    match r {
        Ok(v) => Ok(v),
        Err(_) => {
            let m = take_panic_msg();
            // a panic raised by the harness or the reference model itself is a machinery failure, never a verdict
            if let Some(loc) = m.rsplit(" @ ").next() {
                if loc.starts_with("tzmc/src") || loc.starts_with("refmodel/src") || loc.contains("/verif/harness/") {
                    eprintln!("MACHINERY PANIC (harness code, not tz-rs): {m}");
                    std::process::exit(4);
                }
            }
            Err(m)
        }
    }
}

// ---------------------------------------------------------------------------------------------
// FNV digest (C19 digest mode, C15 op digests)

#[derive(Clone, Copy)]
pub struct Fnv(pub u64);
impl Default for Fnv {
    fn default() -> Self {
        Fnv(0xcbf29ce484222325)
    }
}
impl Fnv {
    #[inline]
    pub fn u8(&mut self, b: u8) {
        self.0 ^= b as u64;
        self.0 = self.0.wrapping_mul(0x100000001b3);
    }
    #[inline]
    pub fn u64(&mut self, v: u64) {
        for b in v.to_le_bytes() {
            self.u8(b);
        }
    }
    #[inline]
    pub fn i64(&mut self, v: i64) {
        self.u64(v as u64)
    }
    pub fn bytes(&mut self, b: &[u8]) {
        for &x in b {
            self.u8(x);
        }
        self.u64(b.len() as u64);
    }
}

// ---------------------------------------------------------------------------------------------
// Known findings

#[derive(Clone, Debug)]
pub struct KnownFinding {
    pub id: String,
    pub properties: Vec<String>,
    pub status: String, // "open" | "fixed"
    pub what: String,
}

pub fn load_known(path: &PathBuf) -> Vec<KnownFinding> {
    let mut out = vec![];
    if let Ok(s) = std::fs::read_to_string(path) {
        if let Ok(v) = serde_json::from_str::<Value>(&s) {
            if let Some(arr) = v.get("findings").and_then(|x| x.as_array()) {
                for f in arr {
                    out.push(KnownFinding {
                        id: f["id"].as_str().unwrap_or("").to_string(),
                        properties: f["properties"].as_array().map(|a| a.iter().filter_map(|x| x.as_str().map(String::from)).collect()).unwrap_or_default(),
                        status: f["status"].as_str().unwrap_or("open").to_string(),
                        what: f["what"].as_str().unwrap_or("").to_string(),
                    });
                }
            }
        }
    }
    out
}

// ---------------------------------------------------------------------------------------------
// Recorder

pub const MAX_RECORDED_VIOLATIONS: usize = 12;
pub const MAX_SAMPLES: usize = 10;

pub struct Recorder {
    pub args: Args,
    pub level: &'static str,
    pub start: Instant,
    pub evaluations: AtomicU64,
    pub nontrivial: AtomicU64,
    pub states: AtomicU64,
    pub transitions: AtomicU64,
    pub traces: AtomicU64,
    pub viol_count: AtomicU64,
    violations: Mutex<Vec<Value>>,
    known_tally: Mutex<BTreeMap<String, (u64, Option<Value>)>>,
    samples: Mutex<Vec<Value>>,
    pub sub: Mutex<Map<String, Value>>,
    outcomes: Mutex<BTreeSet<String>>,
    caps: Mutex<Vec<String>>,
    assumptions: Mutex<Vec<String>>,
    pub rule: Mutex<String>,
    pub exhaustive: Mutex<Option<bool>>,
    pub known: Vec<KnownFinding>,
    pub digest: Mutex<BTreeMap<String, u64>>,
    notes: Mutex<BTreeMap<String, (u64, Option<Value>)>>,
}

impl Recorder {
    pub fn new(args: &Args, level: &'static str) -> Recorder {
        Recorder {
            args: args.clone(),
            level,
            start: Instant::now(),
            evaluations: AtomicU64::new(0),
            nontrivial: AtomicU64::new(0),
            states: AtomicU64::new(0),
            transitions: AtomicU64::new(0),
            traces: AtomicU64::new(0),
            viol_count: AtomicU64::new(0),
            violations: Mutex::new(vec![]),
            known_tally: Mutex::new(BTreeMap::new()),
            samples: Mutex::new(vec![]),
            sub: Mutex::new(Map::new()),
            outcomes: Mutex::new(BTreeSet::new()),
            caps: Mutex::new(vec![]),
            assumptions: Mutex::new(vec![]),
            rule: Mutex::new(String::new()),
            exhaustive: Mutex::new(None),
            known: load_known(&args.known_findings),
            digest: Mutex::new(BTreeMap::new()),
            notes: Mutex::new(BTreeMap::new()),
        }
    }
    /// enough violations recorded: engines may stop exploring (the verdict is already VIOLATION)
    pub fn saturated(&self) -> bool {
        self.viol_count.load(Ordering::Relaxed) >= 2000
    }
    pub fn add(&self, evals: u64, nontrivial: u64) {
        self.evaluations.fetch_add(evals, Ordering::Relaxed);
        self.nontrivial.fetch_add(nontrivial, Ordering::Relaxed);
    }
    pub fn add_model(&self, states: u64, transitions: u64, traces: u64) {
        self.states.fetch_add(states, Ordering::Relaxed);
        self.transitions.fetch_add(transitions, Ordering::Relaxed);
        self.traces.fetch_add(traces, Ordering::Relaxed);
    }
    pub fn set_rule(&self, s: &str) {
        *self.rule.lock().unwrap() = s.to_string();
    }
    pub fn set_exhaustive(&self, b: bool) {
        *self.exhaustive.lock().unwrap() = Some(b);
    }
    pub fn cap(&self, s: &str) {
        self.caps.lock().unwrap().push(s.to_string());
    }
    pub fn assume(&self, s: &str) {
        self.assumptions.lock().unwrap().push(s.to_string());
    }
    pub fn outcome(&self, s: &str) {
        let mut o = self.outcomes.lock().unwrap();
        if o.len() < 10_000 && !o.contains(s) {
            o.insert(s.to_string());
        }
    }
    pub fn sub(&self, name: &str, v: Value) {
        self.sub.lock().unwrap().insert(name.to_string(), v);
    }
    pub fn digest(&self, name: &str, v: u64) {
        self.digest.lock().unwrap().insert(name.to_string(), v);
    }
    pub fn sample(&self, v: Value) {
        let mut s = self.samples.lock().unwrap();
        if s.len() < MAX_SAMPLES {
            s.push(v);
        }
    }
    pub fn want_sample(&self) -> bool {
        self.samples.lock().unwrap().len() < MAX_SAMPLES
    }
    /// An observation that goes beyond what the property states (e.g. WHICH error kind a refusal carries when the statement
    /// only says "refused"): counted and reported in evidence with one example, never a verdict.
    pub fn note(&self, name: &str, example: impl FnOnce() -> Value) {
        let mut k = self.notes.lock().unwrap();
        let e = k.entry(name.to_string()).or_insert((0, None));
        e.0 += 1;
        if e.1.is_none() {
            e.1 = Some(example());
        }
    }
    /// A disagreement between implementation and model on `case`.
    pub fn violation(&self, sweep: &str, case: Value, expected: Value, got: Value) {
        self.viol_count.fetch_add(1, Ordering::Relaxed);
        let mut v = self.violations.lock().unwrap();
        if v.len() < MAX_RECORDED_VIOLATIONS {
            v.push(json!({"engine": self.args.engine, "property": self.args.prop, "sweep": sweep, "case": case, "expected": expected, "got": got}));
        }
    }
    pub fn take_violations(&self) -> Vec<Value> {
        self.violations.lock().unwrap().clone()
    }
    /// A disagreement that matches the input predicate of a listed known finding.
    pub fn known_hit(&self, id: &str, example: impl FnOnce() -> Value) {
        let mut k = self.known_tally.lock().unwrap();
        let e = k.entry(id.to_string()).or_insert((0, None));
        e.0 += 1;
        if e.1.is_none() {
            e.1 = Some(example());
        }
    }
    /// is finding `id` listed as open (i.e. may suppress)?
    pub fn kf_open(&self, id: &str) -> bool {
        self.known.iter().any(|k| k.id == id && k.status == "open")
    }

    /// write evidence, replay files, print verdict lines; returns process exit code
    pub fn finish(&self) -> i32 {
        let wall = self.start.elapsed().as_secs_f64();
        let prop = &self.args.prop;
        let nviol = self.viol_count.load(Ordering::Relaxed);
        let viols = self.violations.lock().unwrap();
        let _ = std::fs::create_dir_all(&self.args.replay_dir);
        let mut replay_paths = vec![];
        for (i, v) in viols.iter().enumerate() {
            let p = self.args.replay_dir.join(format!("{}-{}-{}.json", prop, self.args.engine, i));
            let _ = std::fs::write(&p, serde_json::to_string_pretty(v).unwrap());
            replay_paths.push(p);
        }
        let known = self.known_tally.lock().unwrap();
        let mut known_json = Map::new();
        for (id, (n, ex)) in known.iter() {
            known_json.insert(id.clone(), json!({"cases": n, "example": ex}));
            let what = self.known.iter().find(|k| &k.id == id).map(|k| k.what.clone()).unwrap_or_default();
            println!("KNOWN-FINDING: property={} {} {} ({} explored cases match its input predicate and disagree with the model)", prop, id, what, n);
        }
        let evals = self.evaluations.load(Ordering::Relaxed);
        let mut cov = Map::new();
        cov.insert("evaluations".into(), json!(evals));
        cov.insert("distinct_nontrivial".into(), json!(self.nontrivial.load(Ordering::Relaxed)));
        cov.insert("rule".into(), json!(*self.rule.lock().unwrap()));
        let mut samples = self.samples.lock().unwrap().clone();
        if samples.is_empty() {
            samples.push(json!("no sample recorded"));
        }
        cov.insert("samples".into(), Value::Array(samples));
        if self.level == "model_checking" {
            cov.insert("states".into(), json!(self.states.load(Ordering::Relaxed)));
            cov.insert("transitions".into(), json!(self.transitions.load(Ordering::Relaxed)));
            cov.insert("traces_validated_against_impl".into(), json!(self.traces.load(Ordering::Relaxed)));
        }
        if let Some(b) = *self.exhaustive.lock().unwrap() {
            cov.insert("exhaustive".into(), json!(b));
        }
        cov.insert("distinct_outcomes".into(), json!(self.outcomes.lock().unwrap().len()));
        cov.insert("caps_hit".into(), json!(*self.caps.lock().unwrap()));
        cov.insert("sub_sweeps".into(), Value::Object(self.sub.lock().unwrap().clone()));
        cov.insert("known_findings_met".into(), Value::Object(known_json));
        let notes = self.notes.lock().unwrap();
        if !notes.is_empty() {
            cov.insert("not_judged_notes".into(), json!(notes.iter().map(|(k, (n, ex))| (k.clone(), json!({"cases": n, "example": ex}))).collect::<BTreeMap<_, _>>()));
        }
        let dg = self.digest.lock().unwrap();
        if !dg.is_empty() {
            cov.insert("digests".into(), json!(dg.iter().map(|(k, v)| (k.clone(), format!("{v:016x}"))).collect::<BTreeMap<_, _>>()));
        }
        let ev = json!({
            "property_id": prop,
            "tier": if self.args.tier == Tier::Thorough {"thorough"} else {"quick"},
            "seed": self.args.seed,
            "level": self.level,
            "engine": self.args.engine,
            "coverage": Value::Object(cov),
            "assumptions": *self.assumptions.lock().unwrap(),
            "wall_s": (wall * 1000.0).round() / 1000.0,
            "violations": nviol,
        });
        if let Some(p) = &self.args.evidence {
            if let Some(dir) = p.parent() {
                let _ = std::fs::create_dir_all(dir);
            }
            std::fs::write(p, serde_json::to_string_pretty(&ev).unwrap()).expect("write evidence");
        }
        if self.args.digest_mode {
            for (k, v) in dg.iter() {
                println!("DIGEST {} {:016x}", k, v);
            }
        }
        println!(
            "[{} {} {}] evaluations={} nontrivial={} violations={} wall={:.1}s",
            prop,
            self.args.engine,
            if self.args.tier == Tier::Thorough { "thorough" } else { "quick" },
            evals,
            self.nontrivial.load(Ordering::Relaxed),
            nviol,
            wall
        );
        if nviol > 0 {
            for p in &replay_paths {
                println!("VIOLATION property={} replay={}", prop, p.display());
            }
            if replay_paths.is_empty() {
                println!("VIOLATION property={} replay=none", prop);
            }
            1
        } else {
            0
        }
    }
}

/// deterministic sample selector: true for roughly one case in `period`, rotated by seed
#[inline]
pub fn pick(index: u64, seed: u64, period: u64) -> bool {
    period != 0 && (index.wrapping_add(seed.wrapping_mul(0x9e3779b97f4a7c15))) % period == 0
}
