//! Engine `leap`: C12 leap-second scales observed through probe zones (forward switch point, reported transition
//! instant, round trip through the search).

use crate::common::*;
use crate::conv::*;
use crate::find::{check_search, Ctx, Fields, Prop, Tally};
use rayon::prelude::*;
use refmodel::cal::Cycle;
use refmodel::zone::{FwdErr, MRule, MType, MZone};
use serde_json::{json, Value};
use tz::TzError;

const D28: i64 = 28 * 86400;

pub fn real_table(cyc: &Cycle) -> Vec<(i64, i32)> {
    let dates: [(i64, u8); 27] = [
        (1972, 7), (1973, 1), (1974, 1), (1975, 1), (1976, 1), (1977, 1), (1978, 1), (1979, 1), (1980, 1), (1981, 7), (1982, 7), (1983, 7), (1985, 7), (1988, 1), (1990, 1), (1991, 1), (1992, 7), (1993, 7), (1994, 7), (1996, 1), (1997, 7), (1999, 1), (2006, 1), (2009, 1), (2012, 7), (2015, 7), (2017, 1),
    ];
    dates.iter().enumerate().map(|(i, &(y, m))| (cyc.timegm(y, m, 1, 0, 0, 0) + i as i64, i as i32 + 1)).collect()
}

fn tables(cyc: &Cycle, thorough: bool) -> Vec<Vec<(i64, i32)>> {
    let mut out = vec![];
    let max_len = if thorough { 10 } else { 4 };
    for len in 1..=max_len {
        for signs in 0..(1u32 << len) {
            for &first in &[0i64, 1, 78_796_800] {
                for &sp in &[D28 - 1, D28, D28 + 1000] {
                    let mut v = vec![];
                    let mut c = 0i32;
                    let mut t = first;
                    for k in 0..len {
                        c += if signs & (1 << k) != 0 { 1 } else { -1 };
                        v.push((t, c));
                        t += sp;
                    }
                    out.push(v);
                }
            }
        }
    }
    out.push(real_table(cyc));
    // long tables (block-wise scans, binary search depth): sign patterns all -, all +, alternating, 15 x - then +, 16 x + then -
    for len in [15usize, 16, 17, 31, 32, 33, 64, 100] {
        for pat in 0..5 {
            let mut v = vec![];
            let mut c = 0i32;
            let mut t = 1000i64;
            for k in 0..len {
                let up = match pat {
                    0 => false,
                    1 => true,
                    2 => k % 2 == 0,
                    3 => k >= 15,
                    _ => k < 16,
                };
                c += if up { 1 } else { -1 };
                v.push((t, c));
                t += D28 - 1 + (k as i64 % 3);
            }
            out.push(v);
        }
    }
    out
}

/// model self-checks of the two-scale clock over a window (monotone, round trip for non-deleted labels,
/// an inserted leap second shares the UTC value of the following second)
fn model_laws(z: &MZone, lo: i64, hi: i64) {
    let mut prev = None;
    for u in lo..=hi {
        let c = z.to_count(u).unwrap();
        if let Some(p) = prev {
            assert!(c >= p && c - p <= 2, "model: count not monotone / jumps by more than 2");
        }
        prev = Some(c);
        if !z.deleted(u) {
            // I5: the inverse conversion of the count *at* a negative leap record yields the deleted label, which is
            // identified with its successor
            let back = z.to_utc(c).unwrap();
            assert!(back == u || (z.deleted(back) && back + 1 == u), "model: round trip of a non-deleted label {u} -> {c} -> {back}");
        }
    }
    for i in 0..z.leaps.len() {
        let prevc = if i == 0 { 0 } else { z.leaps[i - 1].1 };
        if z.leaps[i].1 > prevc {
            assert_eq!(z.to_utc(z.leaps[i].0), z.to_utc(z.leaps[i].0 + 1), "model: inserted second shares the UTC value of its successor");
        }
    }
}

fn check_probe_zone(ctx: &Ctx, z: &MZone, tl: &mut Tally, fw: &mut (u64, u64)) {
    let cyc = ctx.cyc;
    let iz = ImplZone::from_model(z).unwrap();
    let zr = match iz.zref() {
        Ok(r) => r,
        Err(e) => {
            ctx.rec.violation("probe_zones", json!({"kind":"probe","zone":zone_json(z)}), json!("valid leap table and zone accepted"), json!(err_name(&e)));
            return;
        }
    };
    tl.zones += 1;
    let t = z.trans[0].0;
    let sw = match z.switch_instant(t) {
        Some(s) => s,
        None => return,
    };
    model_laws(z, sw - 45, sw + 45);
    // forward lookup switches exactly at the model's switch instant
    for u in sw - 40..=sw + 40 {
        fw.0 += 1;
        let exp = z.forward(cyc, u);
        let got = zr.find_local_time_type(u);
        let ok = match (&exp, &got) {
            (Ok(m), Ok(l)) => same_type(l, m),
            (Err(FwdErr::NoType), Err(TzError::NoAvailableLocalTimeType)) => true,
            _ => false,
        };
        if u == sw || u == sw - 1 {
            fw.1 += 1;
        }
        if !ok {
            ctx.rec.violation("probe_zones", json!({"kind":"probe_fwd","zone":zone_json(z),"u":u}), json!({"model": format!("{:?}", exp.map(mtype_json)), "switch_instant": sw}), json!(format!("{:?}", got.map(type_json))));
        }
    }
    // searches: gap boundaries, middle of the gap, and the local reading of every instant of the walk
    let (a, b) = (z.types[0].off as i64, z.types[z.trans[0].1].off as i64);
    let mut ls = vec![sw + a - 1, sw + a, sw + a + 1, sw + (a + b) / 2, sw + b - 1, sw + b, sw + b + 1];
    for u in sw - 6..=sw + 6 {
        if let Ok(m) = z.forward(cyc, u) {
            ls.push(u + m.off as i64);
        }
    }
    ls.sort();
    ls.dedup();
    for l in ls {
        if let Some(f) = Fields::of_local(cyc, l, 3) {
            check_search(ctx, z, zr, &f, "probe_zones", tl);
            // the same reading written with second 60 of the previous minute (I11): next to a leap record this is the notation of
            // the inserted second itself, and it must still denote the instant that follows it
            if f.s == 0 {
                if let Some(p) = Fields::of_local(cyc, l - 1, 3) {
                    if p.s == 59 {
                        check_search(ctx, z, zr, &Fields { s: 60, ..p }, "probe_zones", tl);
                    }
                }
            }
        }
    }
}

/// zone of the huge-table sweep: `n` records of one sign at the minimal spacing (the accumulated correction exceeds the
/// spacing from record `spacing - 1` on), one transition at count (record i) + d
fn huge_zone(sign: i32, n: usize, i: usize, d: i64) -> MZone {
    let sp = D28 - 1;
    let leaps: Vec<(i64, i32)> = (0..n).map(|k| (1000 + k as i64 * sp, sign * (k as i32 + 1))).collect();
    let types = vec![MType::new(0, false, Some("AAA")), MType::new(3600, true, Some("BBB"))];
    let t = leaps[i].0 + d;
    MZone { trans: vec![(t, 1)], types: types.clone(), leaps, rule: Some(MRule::Fixed(types[1])) }
}

/// forward lookups and searches around the single transition of a huge-table zone (results compared with the model without
/// serialising the zone: the case is replayed from its parameters)
fn check_huge(ctx: &Ctx, sign: i32, n: usize, i: usize, d: i64, counts: &mut (u64, u64)) {
    let cyc = ctx.cyc;
    let z = huge_zone(sign, n, i, d);
    let iz = ImplZone::from_model(&z).unwrap();
    let case = |what: &str, x: i64| json!({"kind":"huge_leap","sign":sign,"records":n,"record":i,"delta":d,"what":what,"x":x});
    let zr = match iz.zref() {
        Ok(r) => r,
        Err(e) => {
            ctx.rec.violation("huge_table", case("zone", 0), json!("valid leap table accepted"), json!(err_name(&e)));
            return;
        }
    };
    let sw = z.switch_instant(z.trans[0].0).expect("switch instant");
    for u in sw - 3..=sw + 3 {
        counts.0 += 1;
        let exp = z.forward(cyc, u).map(|m| m.off);
        let got = zr.find_local_time_type(u).map(|l| l.ut_offset());
        if exp.as_ref().ok() != got.as_ref().ok() || exp.is_err() != got.is_err() {
            ctx.rec.violation("huge_table", case("forward", u), json!(format!("{exp:?} (switch instant {sw})")), json!(format!("{got:?}")));
        }
    }
    for l in [sw - 1, sw, sw + 1800, sw + 3600 - 1, sw + 3600] {
        counts.1 += 1;
        let f = match Fields::of_local(cyc, l, 0) {
            Some(f) => f,
            None => continue,
        };
        let exp = z.search(cyc, l);
        let mut en: Vec<i64> = vec![];
        let mut eg: Vec<i64> = vec![];
        for e in &exp {
            match e {
                refmodel::zone::Found::Normal { u, .. } => en.push(*u),
                refmodel::zone::Found::Skipped { u, .. } => eg.push(*u),
            }
        }
        let mut buf: [Option<tz::datetime::FoundDateTimeKind>; 8] = [None; 8];
        let got = tz::DateTime::find_n(&mut buf, f.y, f.mo, f.d, f.h, f.mi, f.s, f.ns, zr).map(|list| {
            let mut gn = vec![];
            let mut gg = vec![];
            for k in list.data().iter().flatten() {
                match k {
                    tz::datetime::FoundDateTimeKind::Normal(x) => gn.push(x.unix_time()),
                    tz::datetime::FoundDateTimeKind::Skipped { before_transition, .. } => gg.push(before_transition.unix_time()),
                }
            }
            gn.sort();
            (gn, gg)
        });
        // I5: a UTC label deleted by a negative leap second denotes no point in time (readings with such a candidate are not
        // judged; a gap reported at a deleted label denotes its successor)
        if z.offsets().iter().any(|&o| z.deleted(l - o as i64)) {
            continue;
        }
        let gaps_agree = |gg: &Vec<i64>| gg.len() == eg.len() && gg.iter().zip(eg.iter()).all(|(g, e)| g == e || (z.deleted(*g) && g + 1 == *e));
        match got {
            Ok((gn, gg)) if gn == en && gaps_agree(&gg) => {}
            other => ctx.rec.violation("huge_table", case("search", l), json!({"valid": en, "gaps": eg}), json!(format!("{:?}", other.map_err(|e| err_name(&e))))),
        }
    }
}

pub fn sweep_huge_table(ctx: &Ctx, thorough: bool) -> (u64, u64) {
    let sp = (D28 - 1) as usize;
    let n = sp + 300;
    let mut work = vec![];
    for sign in [1i32, -1] {
        let recs: Vec<usize> = if thorough { vec![0, 1, sp / 2, sp - 3, sp - 2, sp - 1, sp, sp + 1, sp + 2, sp + 100, n - 1] } else { vec![sp - 2, sp - 1, sp, sp + 100] };
        for i in recs {
            for d in [-1i64, 0, 1] {
                work.push((sign, i, d));
            }
        }
    }
    let r = work
        .par_iter()
        .map(|&(sign, i, d)| {
            let mut c = (0u64, 0u64);
            if let Err(m) = guard(|| {
                let mut c2 = (0u64, 0u64);
                check_huge(ctx, sign, n, i, d, &mut c2);
                c2
            })
            .map(|c2| c = c2)
            {
                ctx.rec.violation("huge_table", json!({"kind":"huge_leap","sign":sign,"records":n,"record":i,"delta":d,"what":"panic","x":0}), json!("no panic"), json!(m));
            }
            c
        })
        .reduce(|| (0, 0), |a, b| (a.0 + b.0, a.1 + b.1));
    ctx.rec.sub("huge_table", json!({"records": n, "zones": work.len(), "forward_lookups": r.0, "searches": r.1, "note": "one-signed table at the minimal spacing: the accumulated correction reaches the record spacing"}));
    r
}

/// offsets that differ by more than two record spacings: the candidate instants of one search lie several records apart
pub fn sweep_wide_offsets(ctx: &Ctx, thorough: bool) -> Tally {
    let cyc = ctx.cyc;
    let sp = D28 - 1;
    let len = if thorough { 8 } else { 5 };
    let mut work = vec![];
    for signs in 0..(1u32 << len) {
        for w in [5_000_000i32, 2 * sp as i32 + 7, 3 * sp as i32 - 1] {
            for (a, b) in [(0, w), (w, 0), (0, -w), (-w, 0)] {
                work.push((signs, a, b));
            }
        }
    }
    let t = work
        .par_iter()
        .map(|&(signs, a, b)| {
            let mut tl = Tally::default();
            let r = guard(|| {
                let mut tl = Tally::default();
                let mut leaps = vec![];
                let mut c = 0i32;
                for k in 0..len {
                    c += if signs & (1 << k) != 0 { 1 } else { -1 };
                    leaps.push((10 * sp + k as i64 * sp, c));
                }
                for pat in 0..4 {
                    let types = vec![MType::new(a, false, Some("AAA")), MType::new(b, true, Some("BBB"))];
                    let trans: Vec<(i64, usize)> = match pat {
                        0 => (0..len as usize).map(|k| (leaps[k].0, (k + 1) % 2)).collect(),
                        1 => (0..len as usize).map(|k| (leaps[k].0 - 1, (k + 1) % 2)).collect(),
                        2 => (0..len as usize).map(|k| (leaps[k].0 + 1, (k + 1) % 2)).collect(),
                        _ => vec![(leaps[1].0, 1), (leaps[1].0 + 11 * sp, 0), (leaps[1].0 + 21 * sp, 1)],
                    };
                    let last = trans[trans.len() - 1].1;
                    let z = MZone { trans, types: types.clone(), leaps: leaps.clone(), rule: Some(MRule::Fixed(types[last])) };
                    let iz = ImplZone::from_model(&z).unwrap();
                    let zr = match iz.zref() {
                        Ok(r) => r,
                        Err(_) => {
                            tl.refused_zones += 1;
                            continue;
                        }
                    };
                    tl.zones += 1;
                    let mut ls = vec![];
                    for k in 0..len as usize {
                        let th = z.leap_utc(k);
                        for u in th - 2..=th + 2 {
                            for o in [a as i64, b as i64] {
                                ls.push(u + o);
                            }
                        }
                    }
                    for &(t, _) in &z.trans {
                        if let Some(sw) = z.switch_instant(t) {
                            for u in sw - 2..=sw + 1 {
                                for o in [a as i64, b as i64] {
                                    ls.push(u + o);
                                }
                            }
                        }
                    }
                    ls.sort();
                    ls.dedup();
                    for l in ls {
                        if let Some(f) = Fields::of_local(cyc, l, 0) {
                            check_search(ctx, &z, zr, &f, "wide_offsets", &mut tl);
                        }
                    }
                }
                tl
            });
            match r {
                Ok(t) => tl = tl.merge(t),
                Err(m) => ctx.rec.violation("wide_offsets", json!({"kind":"wide","signs":signs,"a":a,"b":b}), json!("no panic"), json!(m)),
            }
            tl
        })
        .reduce(Tally::default, Tally::merge);
    ctx.rec.sub("wide_offsets", t.json());
    t
}

pub fn run(args: &Args) -> i32 {
    let rec = Recorder::new(args, "model_checking");
    let cyc = Cycle::build();
    let thorough = args.thorough();
    let ctx = Ctx { cyc: &cyc, rec: &rec, prop: Prop::C12, kf1_open: false, kf2_open: false, kf3_open: false };
    let tabs = tables(&cyc, thorough);
    let res = tabs
        .par_iter()
        .map(|leaps| {
            let mut tl = Tally::default();
            let mut fw = (0u64, 0u64);
            let r = guard(|| {
                let mut tl = Tally::default();
                let mut fw = (0u64, 0u64);
                // transition counts: at, just before and after each record; far from records
                let mut ts: Vec<i64> = vec![];
                let n = leaps.len();
                let recs: Vec<usize> = if n > 6 { let mut r = vec![0, 1, n / 2, n - 2, n - 1]; for k in [13usize, 14, 15, 16, 17, 30, 31, 32, 33, 47, 48, 63] { if k < n { r.push(k); } } r.sort(); r.dedup(); r } else { (0..n).collect() };
                for &i in &recs {
                    for d in -3..=3 {
                        ts.push(leaps[i].0 + d);
                    }
                    ts.push(leaps[i].0 + 3600 - 5);
                    ts.push(leaps[i].0 - 3600 + 5);
                    ts.push(leaps[i].0 + 1800);
                }
                ts.push(leaps[0].0 - 100_000);
                ts.push(leaps[leaps.len() - 1].0 + 100_000);
                ts.sort();
                ts.dedup();
                for &t in &ts {
                    for (offs, fixed_rule) in [([0, 3600, 0], true), ([0, 3600, 0], false), ([3600, 0, 0], true), ([-5, 5, 0], true)] {
                        let types = crate::find::tiny_types(offs);
                        let z = MZone { trans: vec![(t, 1)], types: types.clone(), leaps: leaps.clone(), rule: if fixed_rule { Some(MRule::Fixed(types[1])) } else { None } };
                        check_probe_zone(&ctx, &z, &mut tl, &mut fw);
                    }
                    // two transitions one second apart straddling the record
                    let types = vec![MType::new(0, false, Some("AAA")), MType::new(3600, true, Some("BBB")), MType::new(7200, false, Some("CCC"))];
                    let z = MZone { trans: vec![(t, 1), (t + 1, 2)], types: types.clone(), leaps: leaps.clone(), rule: Some(MRule::Fixed(types[2])) };
                    check_probe_zone(&ctx, &z, &mut tl, &mut fw);
                }
                (tl, fw)
            });
            match r {
                Ok((t, f)) => {
                    tl = tl.merge(t);
                    fw = f;
                }
                Err(m) => rec.violation("probe_zones", json!({"kind":"table","leaps":leaps.iter().map(|&(a,b)| json!([a,b])).collect::<Vec<_>>()}), json!("no panic"), json!(m)),
            }
            (tl, fw)
        })
        .reduce(|| (Tally::default(), (0, 0)), |a, b| (a.0.merge(b.0), (a.1 .0 + b.1 .0, a.1 .1 + b.1 .1)));
    let (mut tl, mut fw) = res;
    let h = sweep_huge_table(&ctx, thorough);
    fw.0 += h.0 + h.1;
    fw.1 += h.0 + h.1;
    tl = tl.merge(sweep_wide_offsets(&ctx, thorough));
    // leap tables by length x sign pattern x last record near i64::MAX (forward lookups through the table engine's oracle)
    if !args.digest_mode {
        let lt = crate::table::sweep_leap_long_tables(&cyc, &rec, thorough);
        fw.0 += lt.evals;
        fw.1 += lt.nontrivial;
    }
    // table x trailing DST rule x leap record at the rule transition (searches; the forward side is C03/C04 territory)
    let rtabs = crate::rulealpha::Tables::build(&cyc);
    // both ends of the supported range in zones with leap seconds (range checks must be made on the UTC value)
    tl = tl.merge(crate::find::sweep_range_ends(&ctx));
    // leap tables x offsets at the ends of the i32 range (a bound computed on the wrong scale is off by the correction)
    tl = tl.merge(crate::find::sweep_leap_extreme(&ctx));
    if !args.digest_mode {
        tl = tl.merge(crate::find::sweep_junction(&ctx, &rtabs, false, true, false));
    }
    rec.sub("probe_zones", json!({"leap_tables": tabs.len(), "zones": tl.zones, "forward_lookups": fw.0, "searches": tl.searches, "searches_with_gap": tl.with_gap, "normalised_deleted_labels_I5": tl.normalised_deleted}));
    rec.add(fw.0 + tl.searches, fw.1 + tl.nontrivial);
    rec.add_model(fw.0 + tl.searches, fw.0 + tl.searches, fw.0 + tl.searches);
    rec.digest("leap", tl.digest);
    rec.set_rule("leap tables: all +-1 sign sequences of length 1..4 (10 thorough) x 3 first-record times x 3 spacings (constructor minimum and above) + the real 27-record table + long tables + one-signed tables of 2,419,499 records at the minimal spacing (accumulated correction >= spacing) + all sign sequences of length 5 (8) with offsets more than two spacings apart; probe zones with one (or two adjacent) transitions at counts record-3..record+3, record+-1h, far; states = (table, transition count, UTC second of a +-40 s walk / local reading); forward lookup and search compared with the two-scale clock model. non-trivial = walk instants adjacent to the switch and searches whose expected result is not one valid instant");
    rec.set_exhaustive(true);
    rec.outcome("switch");
    rec.outcome("gap");
    rec.outcome("valid");
    let t = &tabs[(args.seed as usize * 31 + 7) % tabs.len()];
    rec.sample(json!({"leap_table": t.iter().map(|&(a,b)| json!([a,b])).collect::<Vec<_>>(), "probe_transition_counts": [t[0].0 - 1, t[0].0, t[0].0 + 1]}));
    rec.finish()
}

pub fn replay(case: &Value, args: &Args) -> i32 {
    let rec = Recorder::new(args, "model_checking");
    let cyc = Cycle::build();
    let ctx = Ctx { cyc: &cyc, rec: &rec, prop: Prop::C12, kf1_open: false, kf2_open: false, kf3_open: false };
    let kind = case["kind"].as_str().unwrap_or("");
    if kind == "huge_leap" {
        let g = |k: &str| case[k].as_i64().unwrap();
        for _ in 0..2 {
            let mut c = (0, 0);
            if let Err(m) = guard(|| check_huge(&ctx, g("sign") as i32, g("records") as usize, g("record") as usize, g("delta"), &mut c)) {
                rec.violation("replay", case.clone(), json!("no panic"), json!(m));
            }
        }
        return if rec.viol_count.load(std::sync::atomic::Ordering::Relaxed) > 0 {
            println!("REPLAY: violation reproduced");
            1
        } else {
            println!("REPLAY: case passes");
            0
        };
    }
    if !matches!(kind, "probe" | "probe_fwd" | "search") {
        return 2;
    }
    let z = zone_from_json(&cyc, &case["zone"]);
    let mut tl = Tally::default();
    let mut fw = (0, 0);
    for _ in 0..2 {
        if kind == "search" {
            let iz = ImplZone::from_model(&z).unwrap();
            if let Ok(zr) = iz.zref() {
                let f = Fields::from_json(&case["fields"]);
                if let Err(m) = guard(|| check_search(&ctx, &z, zr, &f, "replay", &mut tl)) {
                    rec.violation("replay", case.clone(), json!("no panic"), json!(m));
                }
            }
        } else if let Err(m) = guard(|| check_probe_zone(&ctx, &z, &mut tl, &mut fw)) {
            rec.violation("replay", case.clone(), json!("no panic"), json!(m));
        }
    }
    if rec.viol_count.load(std::sync::atomic::Ordering::Relaxed) > 0 {
        println!("REPLAY: violation reproduced");
        1
    } else {
        println!("REPLAY: case passes");
        0
    }
}
