//! C15 schedule explorer: exhaustive (DFS) exploration of thread interleavings of tz-rs operations with shuttle.
//! Built against a copy of /repo whose std::sync / core::sync::atomic / thread_local! uses were rerouted to shuttle's
//! (a no-op on a tree without such primitives: then the scheduling points are the explicit yields between operations).

use serde_json::json;
use shuttle::scheduler::DfsScheduler;
use shuttle::{Config, FailurePersistence, Runner};
use std::sync::atomic::{AtomicUsize, Ordering};
use std::sync::{Arc, OnceLock};
use tz::timezone::{AlternateTime, LocalTimeType, MonthWeekDay, RuleDay, TransitionRule};
use tz::{DateTime, TimeZone, TimeZoneSettings, UtcDateTime};

fn utc_block_file(version: u8, footer: &[u8]) -> Vec<u8> {
    // minimal TZif: no transitions, one type UTC, footer
    let mut hdr = |v: &mut Vec<u8>| {
        v.extend_from_slice(b"TZif");
        v.push(version);
        v.extend_from_slice(&[0u8; 15]);
        for c in [0u32, 0, 0, 0, 1, 4] {
            v.extend_from_slice(&c.to_be_bytes());
        }
        v.extend_from_slice(&[0, 0, 0, 0, 0, 0]);
        v.extend_from_slice(b"UTC\0");
    };
    let mut v = vec![];
    hdr(&mut v);
    hdr(&mut v);
    v.push(b'\n');
    v.extend_from_slice(footer);
    v.push(b'\n');
    v
}

fn vfs(path: &str) -> Result<Vec<u8>, Box<dyn std::error::Error + Send + Sync + 'static>> {
    match path {
        "/primary/Zone" => Ok(utc_block_file(b'2', b"<+01>-1")),
        "/secondary/Zone" => Ok(utc_block_file(b'2', b"<-01>1")),
        "/secondary/Other" => Ok(utc_block_file(b'2', b"UTC0")),
        _ => Err("no such file".into()),
    }
}

static DIRS: [&str; 2] = ["/primary", "/secondary"];

struct Shared {
    paris: TimeZone,
    ny: TimeZone,
    la: TimeZone,
    settings: TimeZoneSettings<'static>,
    file_ext: Vec<u8>,
    utc_dt: UtcDateTime,
}

impl Shared {
    fn build() -> Shared {
        let lt = |o: i32, d: bool, n: &[u8]| LocalTimeType::new(o, d, Some(n)).unwrap();
        let m = |a: u8, b: u8, c: u8| RuleDay::MonthWeekDay(MonthWeekDay::new(a, b, c).unwrap());
        let eu = AlternateTime::new(lt(3600, false, b"CET"), lt(7200, true, b"CEST"), m(3, 5, 0), 7200, m(10, 5, 0), 10800).unwrap();
        let us_e = AlternateTime::new(lt(-18000, false, b"EST"), lt(-14400, true, b"EDT"), m(3, 2, 0), 7200, m(11, 1, 0), 7200).unwrap();
        let us_p = AlternateTime::new(lt(-28800, false, b"PST"), lt(-25200, true, b"PDT"), m(3, 2, 0), 7200, m(11, 1, 0), 7200).unwrap();
        let mk = |a: AlternateTime| TimeZone::new(vec![], vec![*a.std(), *a.dst()], vec![], Some(TransitionRule::Alternate(a))).unwrap();
        Shared { paris: mk(eu), ny: mk(us_e), la: mk(us_p), settings: TimeZoneSettings::new(&DIRS, vfs), file_ext: utc_block_file(b'3', b"EST5EDT,0/0,J365/25"), utc_dt: UtcDateTime::from_timespec(1_600_000_000, 5).unwrap() }
    }
}

const T_SUMMER: i64 = 1_594_000_000;

type OpFn = fn(&Shared) -> String;
fn d<T: std::fmt::Debug>(v: T) -> String {
    format!("{v:?}")
}

const OPS: [(&str, OpFn); 13] = [
    ("lookup paris", |s| d(s.paris.find_local_time_type(T_SUMMER))),
    ("lookup ny", |s| d(s.ny.find_local_time_type(T_SUMMER))),
    ("lookup la", |s| d(s.la.find_local_time_type(T_SUMMER))),
    ("find ny gap", |s| d(DateTime::find(2021, 3, 14, 2, 30, 0, 0, s.ny.as_ref()).map(|l| l.into_inner()))),
    ("find la gap", |s| d(DateTime::find(2021, 3, 14, 2, 30, 0, 0, s.la.as_ref()).map(|l| l.into_inner()))),
    ("parse v3 ext footer", |s| d(TimeZone::from_tz_data(&s.file_ext))),
    ("parse settings ext string", |s| d(s.settings.parse_posix_tz("EST5EDT,0/0,J365/25").map_err(|e| e.to_string()))),
    ("settings Zone", |s| d(s.settings.parse_posix_tz("Zone").map_err(|e| e.to_string()))),
    ("settings Other", |s| d(s.settings.parse_posix_tz("Other").map_err(|e| e.to_string()))),
    ("parse v2 plain footer", |_| d(TimeZone::from_tz_data(&utc_block_file(b'2', b"EST5EDT,M3.2.0,M11.1.0")))),
    ("project+display", |s| d(s.utc_dt.project(s.paris.as_ref()).map(|x| x.to_string()))),
    ("find ny fold", |s| d(DateTime::find(2021, 11, 7, 1, 30, 0, 0, s.ny.as_ref()).map(|l| l.into_inner()))),
    ("lookup ny winter", |s| d(s.ny.find_local_time_type(1_578_000_000))),
];

fn fnv(s: &str) -> u64 {
    let mut h = 0xcbf29ce484222325u64;
    for b in s.bytes() {
        h ^= b as u64;
        h = h.wrapping_mul(0x100000001b3);
    }
    h
}

static ALONE: OnceLock<Vec<u64>> = OnceLock::new();
static ITER: AtomicUsize = AtomicUsize::new(0);

/// threads[i] = list of op indices run by thread i (a yield between consecutive ops)
fn body(threads: &[Vec<usize>]) {
    ITER.fetch_add(1, Ordering::Relaxed);
    let shared = Arc::new(Shared::build());
    let alone = ALONE.get().expect("alone table");
    let mut hs = vec![];
    for ops in threads.iter().cloned() {
        let sh = shared.clone();
        hs.push(shuttle::thread::spawn(move || {
            let mut out = vec![];
            for (k, &o) in ops.iter().enumerate() {
                if k > 0 {
                    shuttle::thread::yield_now();
                }
                out.push((o, fnv(&(OPS[o].1)(&sh))));
            }
            out
        }));
    }
    for h in hs {
        for (o, dg) in h.join().unwrap() {
            assert!(dg == alone[o], "operation '{}' returned a result different from its run-alone result (digest {dg:016x} != {:016x})", OPS[o].0, alone[o]);
        }
    }
}

fn run_single(op: usize) -> u64 {
    let out = Arc::new(std::sync::Mutex::new(0u64));
    let o2 = out.clone();
    let r = Runner::new(DfsScheduler::new(Some(1), false), quiet_config(None));
    r.run(move || {
        let s = Shared::build();
        *o2.lock().unwrap() = fnv(&(OPS[op].1)(&s));
    });
    let v = *out.lock().unwrap();
    v
}

fn quiet_config(dir: Option<std::path::PathBuf>) -> Config {
    let mut c = Config::new();
    c.silence_warnings = true;
    c.failure_persistence = match dir {
        Some(d) => FailurePersistence::File(Some(d)),
        None => FailurePersistence::None,
    };
    c
}

fn main() {
    let args: Vec<String> = std::env::args().collect();
    if args.get(1).map(|s| s.as_str()) == Some("alone") {
        let op: usize = args[2].parse().unwrap();
        println!("ALONE {} {:016x}", op, run_single(op));
        return;
    }
    if args.get(1).map(|s| s.as_str()) == Some("replay") {
        // conc replay <threads as json> <schedule>: runs the recorded schedule twice
        let th: Vec<Vec<usize>> = serde_json::from_str(&args[2]).expect("threads json");
        let sched = args[3].clone();
        let exe = std::env::current_exe().unwrap();
        let mut alone = vec![];
        for i in 0..OPS.len() {
            let o = std::process::Command::new(&exe).args(["alone", &i.to_string()]).output().expect("spawn");
            let t = String::from_utf8_lossy(&o.stdout).to_string();
            alone.push(t.lines().find_map(|l| l.strip_prefix("ALONE ")).and_then(|l| l.split_whitespace().nth(1)).and_then(|h| u64::from_str_radix(h, 16).ok()).expect("alone digest"));
        }
        ALONE.set(alone).unwrap();
        static LAST_PANIC: std::sync::Mutex<String> = std::sync::Mutex::new(String::new());
        std::panic::set_hook(Box::new(|info| {
            let msg = info.payload().downcast_ref::<String>().cloned().or_else(|| info.payload().downcast_ref::<&str>().map(|s| s.to_string())).unwrap_or_default();
            let mut l = LAST_PANIC.lock().unwrap();
            if l.is_empty() || msg.contains("run-alone") {
                *l = msg;
            }
        }));
        let mut outcomes = vec![];
        for _ in 0..2 {
            LAST_PANIC.lock().unwrap().clear();
            let th3 = th.clone();
            let s2 = sched.clone();
            let failed = std::panic::catch_unwind(move || shuttle::replay(move || body(&th3), &s2)).is_err();
            let msg = LAST_PANIC.lock().unwrap().clone();
            outcomes.push(if !failed { "passes".to_string() } else if msg.contains("run-alone") { format!("oracle failure: {msg}") } else { format!("schedule not applicable to this tree: {msg}") });
        }
        println!("replayed schedule twice: {outcomes:?}");
        let reproduced = outcomes.iter().all(|o| o.starts_with("oracle failure"));
        println!("{}", if reproduced { "REPLAY: violation reproduced" } else { "REPLAY: case passes (the recorded schedule no longer leads to a wrong result, or no longer applies because the scheduling points of the code changed)" });
        std::process::exit(if reproduced { 1 } else { 0 });
    }
    let thorough = args.iter().any(|a| a == "thorough");
    let cap: usize = if thorough { 200_000 } else { 20_000 };
    // wall budget for the whole exploration: with rerouted primitives the schedule space of a body can explode;
    // bodies not reached within the budget are reported as skipped (never silently)
    let budget = std::time::Duration::from_secs(args.iter().position(|a| a == "--budget-secs").and_then(|i| args.get(i + 1)).and_then(|s| s.parse().ok()).unwrap_or(if thorough { 900 } else { 45 }));
    let started = std::time::Instant::now();
    let exe = std::env::current_exe().unwrap();
    // run-alone digests: one fresh process per operation
    let mut alone = vec![];
    for i in 0..OPS.len() {
        let o = std::process::Command::new(&exe).args(["alone", &i.to_string()]).output().expect("spawn");
        let t = String::from_utf8_lossy(&o.stdout).to_string();
        let dg = t.lines().find_map(|l| l.strip_prefix("ALONE ")).and_then(|l| l.split_whitespace().nth(1)).and_then(|h| u64::from_str_radix(h, 16).ok());
        match dg {
            Some(v) => alone.push(v),
            None => {
                eprintln!("run-alone child failed for op {i}: {}", String::from_utf8_lossy(&o.stderr));
                std::process::exit(4);
            }
        }
    }
    ALONE.set(alone).unwrap();
    std::panic::set_hook(Box::new(|_| {}));
    let sched_dir = std::env::temp_dir().join(format!("conc-schedules-{}", std::process::id()));
    let _ = std::fs::create_dir_all(&sched_dir);
    // bodies: 2 threads x 2 ops over every ordered pair per thread (thread order irrelevant), 3 threads x 1 op (multisets)
    let n = OPS.len();
    let mut bodies: Vec<Vec<Vec<usize>>> = vec![];
    for a in 0..n {
        for b in a..n {
            for c in b..n {
                bodies.push(vec![vec![a], vec![b], vec![c]]);
            }
        }
    }
    let mut two: Vec<Vec<Vec<usize>>> = vec![];
    for a in 0..n * n {
        for b in a..n * n {
            two.push(vec![vec![a / n, a % n], vec![b / n, b % n]]);
        }
    }
    // cheapest bodies first (lookups and searches before parsers), so that a wall budget cuts the expensive tail
    let cost = |o: usize| -> usize { match o { 0 | 1 | 2 | 12 => 0, 3 | 4 | 11 | 10 => 1, _ => 2 } };
    two.sort_by_key(|b| b.iter().flatten().map(|&o| cost(o)).sum::<usize>());
    bodies.extend(two);
    if thorough {
        // 3 threads x 2 ops over a 6-op collision subset
        let sub = [1usize, 3, 5, 6, 7, 8];
        let m = sub.len();
        for a in 0..m * m {
            for b in a..m * m {
                for c in b..m * m {
                    bodies.push(vec![vec![sub[a / m], sub[a % m]], vec![sub[b / m], sub[b % m]], vec![sub[c / m], sub[c % m]]]);
                }
            }
        }
    }
    let mut schedules = 0usize;
    let mut caps = 0usize;
    let mut violations = vec![];
    let mut max_iter_one_body = 0usize;
    let mut explored = 0usize;
    for th in &bodies {
        if started.elapsed() > budget {
            break;
        }
        explored += 1;
        let th2 = th.clone();
        let before = ITER.load(Ordering::Relaxed);
        let dir = sched_dir.clone();
        let res = std::panic::catch_unwind(move || {
            let mut cfg = quiet_config(Some(dir));
            cfg.max_time = Some(std::time::Duration::from_secs(20));
            let r = Runner::new(DfsScheduler::new(Some(cap), false), cfg);
            r.run(move || body(&th2))
        });
        let iters = ITER.load(Ordering::Relaxed) - before;
        schedules += iters;
        max_iter_one_body = max_iter_one_body.max(iters);
        match res {
            Ok(k) => {
                if k >= cap {
                    caps += 1;
                }
            }
            Err(e) => {
                let msg = e.downcast_ref::<String>().cloned().or_else(|| e.downcast_ref::<&str>().map(|s| s.to_string())).unwrap_or_else(|| "panic".into());
                // newest schedule file
                let mut files: Vec<_> = std::fs::read_dir(&sched_dir).map(|d| d.filter_map(|e| e.ok()).map(|e| e.path()).collect()).unwrap_or_default();
                files.sort();
                let sched = files.last().and_then(|p| std::fs::read_to_string(p).ok()).unwrap_or_default();
                // replay the recorded schedule twice
                let mut reproduced = vec![];
                for _ in 0..2 {
                    let th3 = th.clone();
                    let s2 = sched.clone();
                    let r = std::panic::catch_unwind(move || shuttle::replay(move || body(&th3), &s2));
                    reproduced.push(r.is_err());
                }
                let class = if msg.contains("different from its run-alone result") { "an operation returned a result different from its run-alone result under this schedule" } else { "the explored code failed inside the scheduler's model of a rerouted primitive (e.g. a static array of atomics that persists across explored executions): the global / interior state itself is what C15 forbids" };
                violations.push(json!({"failure_class": class, "threads": th.iter().map(|t| t.iter().map(|&o| OPS[o].0).collect::<Vec<_>>()).collect::<Vec<_>>(), "indices": th, "message": msg, "schedule": sched, "replay_fails_again": reproduced}));
                for f in files {
                    let _ = std::fs::remove_file(f);
                }
                // a panic unwinding through the scheduler can leave its per-process pools in an undefined state: the first
                // counterexample (simplest body first) is reported and the exploration stops
                break;
            }
        }
    }
    let _ = std::fs::remove_dir_all(&sched_dir);
    println!("{}", json!({"bodies": explored, "bodies_generated": bodies.len(), "bodies_skipped_wall_budget": bodies.len() - explored, "wall_budget_s": budget.as_secs(), "schedules": schedules, "max_schedules_one_body": max_iter_one_body, "bodies_that_hit_the_iteration_cap": caps, "iteration_cap_per_body": cap, "ops": OPS.iter().map(|o| o.0).collect::<Vec<_>>(), "stopped_at_first_counterexample": !violations.is_empty(), "violations": violations}));
}
