//! Independent TZif (RFC 8536) writer and reader. No tz-rs code.

#[derive(Clone, Debug, PartialEq, Eq, Default)]
pub struct Block {
    /// (transition time, type index)
    pub trans: Vec<(i64, u8)>,
    /// (utoff, isdst byte, designation index)
    pub types: Vec<(i32, u8, u8)>,
    /// designation pool (NUL-terminated strings)
    pub chars: Vec<u8>,
    /// (occurrence, correction)
    pub leaps: Vec<(i64, i32)>,
    pub isstd: Vec<u8>,
    pub isut: Vec<u8>,
}

/// header count overrides (for corruption classes); None = the true count
#[derive(Clone, Copy, Debug, Default)]
pub struct CountOverride {
    pub isutcnt: Option<u32>,
    pub isstdcnt: Option<u32>,
    pub leapcnt: Option<u32>,
    pub timecnt: Option<u32>,
    pub typecnt: Option<u32>,
    pub charcnt: Option<u32>,
}

pub fn header(version: u8, b: &Block, ov: &CountOverride) -> Vec<u8> {
    let mut v = Vec::with_capacity(44);
    v.extend_from_slice(b"TZif");
    v.push(version);
    v.extend_from_slice(&[0u8; 15]);
    // RFC order: isutcnt, isstdcnt, leapcnt, timecnt, typecnt, charcnt
    for c in [
        ov.isutcnt.unwrap_or(b.isut.len() as u32),
        ov.isstdcnt.unwrap_or(b.isstd.len() as u32),
        ov.leapcnt.unwrap_or(b.leaps.len() as u32),
        ov.timecnt.unwrap_or(b.trans.len() as u32),
        ov.typecnt.unwrap_or(b.types.len() as u32),
        ov.charcnt.unwrap_or(b.chars.len() as u32),
    ] {
        v.extend_from_slice(&c.to_be_bytes());
    }
    v
}

pub fn body(b: &Block, time64: bool) -> Vec<u8> {
    let mut v = vec![];
    let put_time = |v: &mut Vec<u8>, t: i64| {
        if time64 {
            v.extend_from_slice(&t.to_be_bytes());
        } else {
            v.extend_from_slice(&(t as i32).to_be_bytes());
        }
    };
    for &(t, _) in &b.trans {
        put_time(&mut v, t);
    }
    for &(_, i) in &b.trans {
        v.push(i);
    }
    for &(off, dst, idx) in &b.types {
        v.extend_from_slice(&off.to_be_bytes());
        v.push(dst);
        v.push(idx);
    }
    v.extend_from_slice(&b.chars);
    for &(t, c) in &b.leaps {
        put_time(&mut v, t);
        v.extend_from_slice(&c.to_be_bytes());
    }
    v.extend_from_slice(&b.isstd);
    v.extend_from_slice(&b.isut);
    v
}

/// Whole file. version: 0 (v1), b'2', b'3'. For v2+: v1 block, then second header + 64-bit block, then footer
/// "\n<footer>\n" (footer None => empty footer "\n\n").
pub fn file(version: u8, v1: &Block, v2: Option<&Block>, footer: Option<&[u8]>) -> Vec<u8> {
    let mut v = header(version, v1, &CountOverride::default());
    v.extend_from_slice(&body(v1, false));
    if version != 0 {
        let b2 = v2.expect("v2+ needs a 64-bit block");
        v.extend_from_slice(&header(version, b2, &CountOverride::default()));
        v.extend_from_slice(&body(b2, true));
        v.push(b'\n');
        if let Some(f) = footer {
            v.extend_from_slice(f);
        }
        v.push(b'\n');
    }
    v
}

/// offsets of the parts of a file produced by `file` (for truncation / corruption at block boundaries)
pub fn boundaries(version: u8, v1: &Block, v2: Option<&Block>) -> Vec<usize> {
    let mut out = vec![0, 4, 5, 20, 44];
    let seg = |b: &Block, ts: usize| -> Vec<usize> { vec![b.trans.len() * ts, b.trans.len(), b.types.len() * 6, b.chars.len(), b.leaps.len() * (ts + 4), b.isstd.len(), b.isut.len()] };
    let mut pos = 44;
    for s in seg(v1, 4) {
        pos += s;
        out.push(pos);
    }
    if version != 0 {
        let b2 = v2.unwrap();
        for h in [4, 5, 20, 44] {
            out.push(pos + h);
        }
        pos += 44;
        for s in seg(b2, 8) {
            pos += s;
            out.push(pos);
        }
    }
    out.sort();
    out.dedup();
    out
}

// ------------------------------------------------------------------------------------------------ reader

#[derive(Clone, Debug, PartialEq, Eq)]
pub struct Decoded {
    pub version: u8,
    pub trans: Vec<(i64, usize)>,
    /// (utoff, isdst, designation)
    pub types: Vec<(i32, bool, Vec<u8>)>,
    pub leaps: Vec<(i64, i32)>,
    pub isstd: Vec<u8>,
    pub isut: Vec<u8>,
    /// footer text between the newlines (v2+), None for v1
    pub footer: Option<Vec<u8>>,
}

fn be32(b: &[u8], p: usize) -> Option<u32> {
    Some(u32::from_be_bytes(b.get(p..p + 4)?.try_into().ok()?))
}

struct Hdr {
    version: u8,
    isut: usize,
    isstd: usize,
    leap: usize,
    time: usize,
    typ: usize,
    chr: usize,
}

fn read_header(b: &[u8], p: usize) -> Result<Hdr, String> {
    if b.len() < p + 44 {
        return Err("truncated header".into());
    }
    if &b[p..p + 4] != b"TZif" {
        return Err("bad magic".into());
    }
    let version = b[p + 4];
    if !(version == 0 || version == b'2' || version == b'3') {
        return Err("unsupported version".into());
    }
    let g = |k: usize| be32(b, p + 20 + 4 * k).unwrap() as usize;
    let h = Hdr { version, isut: g(0), isstd: g(1), leap: g(2), time: g(3), typ: g(4), chr: g(5) };
    if h.typ == 0 || h.chr == 0 || !(h.isut == 0 || h.isut == h.typ) || !(h.isstd == 0 || h.isstd == h.typ) {
        return Err("inconsistent counts".into());
    }
    Ok(h)
}

fn block_len(h: &Hdr, ts: usize) -> Option<usize> {
    let mut n: usize = 0;
    for part in [h.time.checked_mul(ts)?, h.time, h.typ.checked_mul(6)?, h.chr, h.leap.checked_mul(ts + 4)?, h.isstd, h.isut] {
        n = n.checked_add(part)?;
    }
    Some(n)
}

fn read_block(b: &[u8], p: usize, h: &Hdr, ts: usize) -> Result<Decoded, String> {
    let len = block_len(h, ts).ok_or("count overflow")?;
    if b.len() < p.checked_add(len).ok_or("count overflow")? {
        return Err("truncated block".into());
    }
    let mut q = p;
    let time = |q: usize| -> i64 {
        if ts == 8 {
            i64::from_be_bytes(b[q..q + 8].try_into().unwrap())
        } else {
            i32::from_be_bytes(b[q..q + 4].try_into().unwrap()) as i64
        }
    };
    let mut times = vec![];
    for _ in 0..h.time {
        times.push(time(q));
        q += ts;
    }
    let mut trans = vec![];
    for k in 0..h.time {
        trans.push((times[k], b[q] as usize));
        q += 1;
    }
    let tq = q;
    q += 6 * h.typ;
    let chars = &b[q..q + h.chr];
    q += h.chr;
    let mut types = vec![];
    for k in 0..h.typ {
        let r = &b[tq + 6 * k..tq + 6 * k + 6];
        let off = i32::from_be_bytes(r[0..4].try_into().unwrap());
        if r[4] > 1 {
            return Err("isdst not 0/1".into());
        }
        let idx = r[5] as usize;
        if idx >= h.chr {
            return Err("designation index out of range".into());
        }
        let end = chars[idx..].iter().position(|&c| c == 0).ok_or("unterminated designation")?;
        types.push((off, r[4] == 1, chars[idx..idx + end].to_vec()));
    }
    let mut leaps = vec![];
    for _ in 0..h.leap {
        let t = time(q);
        q += ts;
        let c = i32::from_be_bytes(b[q..q + 4].try_into().unwrap());
        q += 4;
        leaps.push((t, c));
    }
    let isstd = b[q..q + h.isstd].to_vec();
    q += h.isstd;
    let isut = b[q..q + h.isut].to_vec();
    for k in 0..h.typ {
        let s = isstd.get(k).copied().unwrap_or(0);
        let u = isut.get(k).copied().unwrap_or(0);
        if !matches!((s, u), (0, 0) | (1, 0) | (1, 1)) {
            return Err("bad indicator pair".into());
        }
    }
    Ok(Decoded { version: h.version, trans, types, leaps, isstd, isut, footer: None })
}

/// Decode a TZif file: v1 -> 32-bit block (no trailing bytes allowed); v2/v3 -> 64-bit block + footer.
pub fn decode(b: &[u8]) -> Result<Decoded, String> {
    let h1 = read_header(b, 0)?;
    let len1 = block_len(&h1, 4).ok_or("count overflow")?;
    if h1.version == 0 {
        let d = read_block(b, 44, &h1, 4)?;
        if b.len() != 44 + len1 {
            return Err("trailing bytes after v1 body".into());
        }
        return Ok(d);
    }
    let p2 = 44usize.checked_add(len1).ok_or("count overflow")?;
    if b.len() < p2 {
        return Err("truncated v1 block".into());
    }
    let h2 = read_header(b, p2)?;
    let mut d = read_block(b, p2 + 44, &h2, 8)?;
    let fp = p2 + 44 + block_len(&h2, 8).unwrap();
    let f = &b[fp..];
    if f.len() < 2 || f[0] != b'\n' || f[f.len() - 1] != b'\n' {
        return Err("footer framing".into());
    }
    d.footer = Some(f[1..f.len() - 1].to_vec());
    Ok(d)
}

#[cfg(test)]
mod tests {
    use super::*;
    #[test]
    fn roundtrip() {
        let b = Block { trans: vec![(-5, 1), (7, 0)], types: vec![(0, 0, 0), (3600, 1, 4)], chars: b"UTC\0CEST\0".to_vec(), leaps: vec![(78796800, 1)], isstd: vec![1, 0], isut: vec![1, 0] };
        let f = file(b'2', &Block { types: vec![(0, 0, 0)], chars: b"X\0".to_vec(), ..Default::default() }, Some(&b), Some(b"UTC0"));
        let d = decode(&f).unwrap();
        assert_eq!(d.trans, vec![(-5, 1), (7, 0)]);
        assert_eq!(d.types[1], (3600, true, b"CEST".to_vec()));
        assert_eq!(d.footer.as_deref(), Some(&b"UTC0"[..]));
        let f1 = file(0, &b, None, None);
        assert_eq!(decode(&f1).unwrap().leaps, vec![(78796800, 1)]);
    }
}
