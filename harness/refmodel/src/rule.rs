//! POSIX DST rule model: rule days resolved by walking the calendar, yearly start/end instants,
//! classification of a rule and "is t on daylight time".

use crate::cal::{days_in_month, is_leap, Cycle, SECS_PER_DAY};

#[derive(Clone, Copy, PartialEq, Eq, Debug, Hash, PartialOrd, Ord)]
pub enum Day {
    /// Jn, 1..=365, 29 February never counted
    J(u16),
    /// n, 0..=365, 29 February counted
    Z(u16),
    /// Mm.w.d
    M(u8, u8, u8),
}

impl Day {
    pub fn text(&self) -> String {
        match *self {
            Day::J(n) => format!("J{n}"),
            Day::Z(n) => format!("{n}"),
            Day::M(m, w, d) => format!("M{m}.{w}.{d}"),
        }
    }
    /// all 1151 notations: 365 Jn + 366 n + 420 Mm.w.d
    pub fn all() -> Vec<Day> {
        let mut v = Vec::with_capacity(1151);
        for n in 1..=365 {
            v.push(Day::J(n));
        }
        for n in 0..=365 {
            v.push(Day::Z(n));
        }
        for m in 1..=12 {
            for w in 1..=5 {
                for d in 0..=6 {
                    v.push(Day::M(m, w, d));
                }
            }
        }
        v
    }

    /// day number (days since 1970-01-01) of this rule day in `year`, by walking
    pub fn resolve(&self, cyc: &Cycle, year: i64) -> i64 {
        let jan1 = cyc.year_start_day(year);
        match *self {
            Day::J(n) => {
                // count days from 1 January, never counting 29 February
                let mut d = jan1;
                let mut count = 1u16;
                let mut month = 1u8;
                let mut mday = 1u8;
                while count < n {
                    // advance one calendar day
                    d += 1;
                    if mday < days_in_month(year, month) {
                        mday += 1;
                    } else {
                        month += 1;
                        mday = 1;
                    }
                    if !(month == 2 && mday == 29) {
                        count += 1;
                    }
                }
                // landing exactly on Feb 29 is impossible: it is never counted, so the loop continues past it
                d
            }
            Day::Z(n) => jan1 + n as i64,
            Day::M(m, w, wd) => {
                let first = cyc.day_of(year, m, 1);
                let dim = days_in_month(year, m) as i64;
                // walk the month, collecting the days whose weekday is wd
                let mut hits = Vec::with_capacity(5);
                for k in 0..dim {
                    if cyc.civil(first + k).wday == wd {
                        hits.push(first + k);
                    }
                }
                if w == 5 {
                    *hits.last().unwrap()
                } else {
                    hits[(w - 1) as usize]
                }
            }
        }
    }
}

/// per-notation table of day numbers for `years` consecutive years starting at `y0`
pub struct DayTable {
    pub y0: i64,
    pub years: usize,
    pub days: Vec<i64>,
}
impl DayTable {
    pub fn build(cyc: &Cycle, d: Day, y0: i64, years: usize) -> DayTable {
        DayTable { y0, years, days: (0..years).map(|k| d.resolve(cyc, y0 + k as i64)).collect() }
    }
    #[inline]
    pub fn get(&self, year: i64) -> i64 {
        self.days[(year - self.y0) as usize]
    }
}

#[derive(Clone, Copy, PartialEq, Eq, Debug)]
pub struct RuleSpec {
    pub std_off: i64,
    pub dst_off: i64,
    pub start: Day,
    pub start_time: i64,
    pub end: Day,
    pub end_time: i64,
}

#[derive(Clone, Copy, PartialEq, Eq, Debug)]
pub enum Class {
    /// S(y) <= E(y) <= S(y+1) for all y, strict somewhere
    StartFirst,
    /// E(y) <= S(y) <= E(y+1) for all y, strict somewhere
    EndFirst,
    /// both hold: S(y) == E(y) for every y (I3)
    Degenerate,
    /// neither
    NonInterleaving,
}

impl RuleSpec {
    /// instant at which DST starts in year y (start day at start time on the standard clock)
    pub fn s(&self, cyc: &Cycle, y: i64) -> i64 {
        self.start.resolve(cyc, y) * SECS_PER_DAY + self.start_time - self.std_off
    }
    /// instant at which DST ends in year y (end day at end time on the daylight clock)
    pub fn e(&self, cyc: &Cycle, y: i64) -> i64 {
        self.end.resolve(cyc, y) * SECS_PER_DAY + self.end_time - self.dst_off
    }
    pub fn d(&self) -> i64 {
        (self.start_time - self.std_off) - (self.end_time - self.dst_off)
    }
}

/// start/end instants of a rule for a window of years
#[derive(Debug, PartialEq)]
pub struct Timeline {
    pub y0: i64,
    pub s: Vec<i64>,
    pub e: Vec<i64>,
}

impl Timeline {
    pub fn build(cyc: &Cycle, r: &RuleSpec, y0: i64, years: usize) -> Timeline {
        Timeline { y0, s: (0..years).map(|k| r.s(cyc, y0 + k as i64)).collect(), e: (0..years).map(|k| r.e(cyc, y0 + k as i64)).collect() }
    }
    pub fn from_tables(r: &RuleSpec, st: &DayTable, et: &DayTable) -> Timeline {
        assert!(st.y0 == et.y0 && st.years == et.years);
        Timeline {
            y0: st.y0,
            s: st.days.iter().map(|d| d * SECS_PER_DAY + r.start_time - r.std_off).collect(),
            e: et.days.iter().map(|d| d * SECS_PER_DAY + r.end_time - r.dst_off).collect(),
        }
    }
    pub fn years(&self) -> usize {
        self.s.len()
    }
    #[inline]
    pub fn sy(&self, y: i64) -> i64 {
        self.s[(y - self.y0) as usize]
    }
    #[inline]
    pub fn ey(&self, y: i64) -> i64 {
        self.e[(y - self.y0) as usize]
    }

    /// classification over the whole window (window should be >= 401 years for "all years")
    pub fn classify(&self) -> Class {
        let n = self.s.len();
        let mut sf = true;
        let mut ef = true;
        let mut strict = false;
        for k in 0..n {
            if self.s[k] != self.e[k] {
                strict = true;
            }
            if !(self.s[k] <= self.e[k]) {
                sf = false;
            }
            if !(self.e[k] <= self.s[k]) {
                ef = false;
            }
            if k + 1 < n {
                if !(self.e[k] <= self.s[k + 1]) {
                    sf = false;
                }
                if !(self.s[k] <= self.e[k + 1]) {
                    ef = false;
                }
            }
        }
        match (sf, ef) {
            (true, true) => {
                if strict {
                    // cannot happen: sf && ef implies s==e everywhere
                    Class::Degenerate
                } else {
                    Class::Degenerate
                }
            }
            (true, false) => Class::StartFirst,
            (false, true) => Class::EndFirst,
            (false, false) => Class::NonInterleaving,
        }
    }

    /// brute-force definition of C11's "order never flips": none of A(y)=S(y)-E(y), B(y)=E(y)-S(y+1), C(y)=S(y)-E(y+1)
    /// takes both a strictly negative and a strictly positive value
    pub fn no_flip(&self) -> bool {
        let n = self.s.len();
        let mut sign = [[false; 2]; 3];
        for k in 0..n {
            let a = self.s[k] - self.e[k];
            mark(&mut sign[0], a);
            if k + 1 < n {
                mark(&mut sign[1], self.e[k] - self.s[k + 1]);
                mark(&mut sign[2], self.s[k] - self.e[k + 1]);
            }
        }
        sign.iter().all(|s| !(s[0] && s[1]))
    }

    /// Is instant t on daylight time?  Definition from C04: t lies in a period that starts at a year's DST-start instant
    /// and ends at the following DST-end instant (start inclusive, end exclusive).  `year` = UTC year of t (the periods
    /// of years year-2..=year+1 are examined; must be inside the window).
    pub fn is_dst(&self, class: Class, t: i64, year: i64) -> bool {
        let mut y = year - 2;
        while y <= year + 1 {
            let s = self.sy(y);
            let e = match class {
                Class::StartFirst => self.ey(y),
                Class::EndFirst => self.ey(y + 1),
                _ => panic!("is_dst on non-interleaving rule"),
            };
            if s <= t && t < e {
                return true;
            }
            y += 1;
        }
        false
    }

    /// KF1 predicate: end-first rule and S(Y) == E(Y)
    pub fn tie_in_year(&self, y: i64) -> bool {
        self.sy(y) == self.ey(y)
    }
}

fn mark(s: &mut [bool; 2], v: i64) {
    if v < 0 {
        s[0] = true;
    }
    if v > 0 {
        s[1] = true;
    }
}

pub fn leap(y: i64) -> bool {
    is_leap(y)
}

#[cfg(test)]
mod tests {
    use super::*;
    #[test]
    fn days() {
        let c = Cycle::build();
        // 2021: M3.2.0 = 14 March 2021, M11.1.0 = 7 Nov 2021
        assert_eq!(Day::M(3, 2, 0).resolve(&c, 2021), c.day_of(2021, 3, 14));
        assert_eq!(Day::M(11, 1, 0).resolve(&c, 2021), c.day_of(2021, 11, 7));
        assert_eq!(Day::M(2, 5, 0).resolve(&c, 2021), c.day_of(2021, 2, 28));
        assert_eq!(Day::J(60).resolve(&c, 2020), c.day_of(2020, 3, 1));
        assert_eq!(Day::J(59).resolve(&c, 2020), c.day_of(2020, 2, 28));
        assert_eq!(Day::Z(59).resolve(&c, 2020), c.day_of(2020, 2, 29));
        assert_eq!(Day::J(365).resolve(&c, 2020), c.day_of(2020, 12, 31));
        assert_eq!(Day::Z(365).resolve(&c, 2021), c.day_of(2022, 1, 1));
        assert_eq!(Day::all().len(), 1151);
    }
}
