//! Zone clock model: transitions + types + leap table + trailing rule.
//! Forward lookup by linear scan; inverse (search) by candidate set / brute-force walk; gap list by definition.

use crate::cal::Cycle;
use crate::rule::{Class, RuleSpec, Timeline};

#[derive(Clone, Copy, PartialEq, Eq, Debug, Hash, PartialOrd, Ord)]
pub struct MType {
    pub off: i32,
    pub dst: bool,
    /// designation bytes (first `len`); len 0 = no designation
    pub name_buf: [u8; 8],
    pub len: u8,
}
impl MType {
    pub fn new(off: i32, dst: bool, name: Option<&str>) -> MType {
        MType::from_bytes(off, dst, name.map(|s| s.as_bytes()))
    }
    pub fn from_bytes(off: i32, dst: bool, name: Option<&[u8]>) -> MType {
        let mut name_buf = [0u8; 8];
        let mut len = 0u8;
        if let Some(n) = name {
            assert!(n.len() <= 8 && !n.is_empty());
            name_buf[..n.len()].copy_from_slice(n);
            len = n.len() as u8;
        }
        MType { off, dst, name_buf, len }
    }
    pub fn name(&self) -> Option<&[u8]> {
        if self.len == 0 {
            None
        } else {
            Some(&self.name_buf[..self.len as usize])
        }
    }
}

#[derive(Clone, Debug, PartialEq)]
pub enum MRule {
    Fixed(MType),
    Alt { spec: RuleSpec, std: MType, dst: MType, class: Class, line: Option<std::sync::Arc<Timeline>> },
}

impl MRule {
    pub fn alt(cyc: &Cycle, spec: RuleSpec, std: MType, dst: MType) -> MRule {
        let class = Timeline::build(cyc, &spec, 2000, 402).classify();
        MRule::Alt { spec, std, dst, class, line: None }
    }
    /// same, with a precomputed table of the start/end instants (a cache of spec.s / spec.e over its window)
    pub fn alt_with_line(spec: RuleSpec, std: MType, dst: MType, line: std::sync::Arc<Timeline>) -> MRule {
        let class = line.classify();
        MRule::Alt { spec, std, dst, class, line: Some(line) }
    }
}

/// S(y) / E(y) through the cache when y is inside its window
pub fn rule_s(cyc: &Cycle, spec: &RuleSpec, line: &Option<std::sync::Arc<Timeline>>, y: i64) -> i64 {
    if let Some(l) = line {
        if y >= l.y0 && y < l.y0 + l.years() as i64 {
            return l.sy(y);
        }
    }
    spec.s(cyc, y)
}
pub fn rule_e(cyc: &Cycle, spec: &RuleSpec, line: &Option<std::sync::Arc<Timeline>>, y: i64) -> i64 {
    if let Some(l) = line {
        if y >= l.y0 && y < l.y0 + l.years() as i64 {
            return l.ey(y);
        }
    }
    spec.e(cyc, y)
}

#[derive(Clone, Debug, PartialEq)]
pub struct MZone {
    /// (time on the leap-second-counting scale, type index)
    pub trans: Vec<(i64, usize)>,
    pub types: Vec<MType>,
    /// (time on the counting scale, cumulative correction)
    pub leaps: Vec<(i64, i32)>,
    pub rule: Option<MRule>,
}

#[derive(Clone, Copy, Debug, PartialEq, Eq)]
pub enum FwdErr {
    NoType,
    OutOfRange,
}

pub const YEAR_LO: i64 = i32::MIN as i64 + 2;
pub const YEAR_HI: i64 = i32::MAX as i64 - 2;

impl MZone {
    // ------------------------------------------------------------------ leap scale
    /// UTC instant at which leap record i takes effect: U_i = L_i - c_{i-1}
    pub fn leap_utc(&self, i: usize) -> i64 {
        // beyond the i64 range the instant is never reached: saturate
        let prev = if i == 0 { 0 } else { self.leaps[i - 1].1 as i64 };
        self.leaps[i].0.saturating_sub(prev)
    }
    /// UTC -> count: u + c_i for the last i with U_i <= u
    pub fn to_count(&self, u: i64) -> Option<i64> {
        let mut c = 0i64;
        for i in 0..self.leaps.len() {
            // U_i <= u  written without forming U_i when it could overflow
            let ui = (self.leaps[i].0 as i128) - (if i == 0 { 0 } else { self.leaps[i - 1].1 as i128 });
            if ui <= u as i128 {
                c = self.leaps[i].1 as i64;
            } else {
                break;
            }
        }
        u.checked_add(c)
    }
    /// count -> UTC: T - c_i for the last i with L_i < T
    pub fn to_utc(&self, t: i64) -> Option<i64> {
        let mut c = 0i64;
        for &(l, corr) in &self.leaps {
            if l < t {
                c = corr as i64;
            } else {
                break;
            }
        }
        t.checked_sub(c)
    }
    /// first UTC instant whose count is >= T (the instant at which a transition recorded at count T takes effect)
    pub fn switch_instant(&self, t: i64) -> Option<i64> {
        // counts move by 0, 1 or 2 per UTC second, so the switch lies within a few seconds of to_utc(T)
        let guess = self.to_utc(t)?;
        let mut best = None;
        let mut u = guess.checked_sub(4)?;
        for _ in 0..9 {
            if let Some(c) = self.to_count(u) {
                if c >= t {
                    best = Some(u);
                    break;
                }
            }
            u = u.checked_add(1)?;
        }
        best
    }
    /// is UTC label u deleted by a negative leap second?
    pub fn deleted(&self, u: i64) -> bool {
        for i in 0..self.leaps.len() {
            let prev = if i == 0 { 0 } else { self.leaps[i - 1].1 };
            let ui = self.leaps[i].0 as i128 - prev as i128;
            if self.leaps[i].1 < prev && ui == u as i128 {
                return true;
            }
        }
        false
    }

    // ------------------------------------------------------------------ forward
    pub fn rule_type<'a>(&'a self, cyc: &Cycle, u: i64) -> Result<&'a MType, FwdErr> {
        match self.rule.as_ref().unwrap() {
            MRule::Fixed(t) => Ok(t),
            MRule::Alt { spec, std, dst, class, line } => {
                let (c, _, _, _) = cyc.gmtime(u);
                if c.year < YEAR_LO || c.year > YEAR_HI {
                    return Err(FwdErr::OutOfRange);
                }
                if c.year < i32::MIN as i64 || c.year > i32::MAX as i64 {
                    return Err(FwdErr::OutOfRange);
                }
                if is_dst_direct(cyc, spec, line, *class, u, c.year) {
                    Ok(dst)
                } else {
                    Ok(std)
                }
            }
        }
    }

    pub fn forward<'a>(&'a self, cyc: &Cycle, u: i64) -> Result<&'a MType, FwdErr> {
        if self.trans.is_empty() {
            return match &self.rule {
                None => Ok(&self.types[0]),
                Some(_) => self.rule_type(cyc, u),
            };
        }
        let count = match self.to_count(u) {
            Some(c) => c,
            None => return Err(FwdErr::OutOfRange),
        };
        let last = self.trans[self.trans.len() - 1].0;
        if count >= last {
            return match &self.rule {
                None => Err(FwdErr::NoType),
                Some(_) => self.rule_type(cyc, u),
            };
        }
        let mut idx = 0usize;
        for &(t, i) in &self.trans {
            if t <= count {
                idx = i;
            } else {
                break;
            }
        }
        Ok(&self.types[idx])
    }

    /// all distinct offsets the zone can show
    pub fn offsets(&self) -> Vec<i32> {
        let mut v: Vec<i32> = self.types.iter().map(|t| t.off).collect();
        match &self.rule {
            Some(MRule::Fixed(t)) => v.push(t.off),
            Some(MRule::Alt { std, dst, .. }) => {
                v.push(std.off);
                v.push(dst.off);
            }
            None => {}
        }
        v.sort();
        v.dedup();
        v
    }
}

/// C04 definition evaluated directly from the rule (no tables): periods of years year-2..=year+1
pub fn is_dst_direct(cyc: &Cycle, spec: &RuleSpec, line: &Option<std::sync::Arc<Timeline>>, class: Class, u: i64, year: i64) -> bool {
    let mut y = year - 2;
    while y <= year + 1 {
        let s = rule_s(cyc, spec, line, y);
        let e = match class {
            Class::StartFirst | Class::Degenerate => rule_e(cyc, spec, line, y),
            Class::EndFirst => rule_e(cyc, spec, line, y + 1),
            Class::NonInterleaving => rule_e(cyc, spec, line, y),
        };
        if s <= u && u < e {
            return true;
        }
        y += 1;
    }
    false
}

// ---------------------------------------------------------------------------------------------- search model

#[derive(Clone, Debug, PartialEq)]
pub enum Found {
    /// valid instant and its type
    Normal { u: i64, ty: MType },
    /// gap: transition instant, type before, type after
    Skipped { u: i64, before: MType, after: MType },
}
impl Found {
    pub fn instant(&self) -> i64 {
        match self {
            Found::Normal { u, .. } => *u,
            Found::Skipped { u, .. } => *u,
        }
    }
}

/// One clock transition of the zone: at UTC instant `u` the type changes from `before` to `after`.
#[derive(Clone, Debug, PartialEq)]
pub struct Jump {
    pub u: i64,
    pub before: MType,
    pub after: MType,
}

impl MZone {
    /// The zone's clock transitions relevant for local second `l` (seconds since epoch of the local reading):
    /// every table transition (minus the last one when there is no trailing rule, I10) and the rule transitions of
    /// years y-1..=y+1 (y = calendar year of the local reading) strictly after the last table transition.
    /// Zero-length rule periods (start and end at the same instant) are no transitions of the clock.
    pub fn jumps(&self, cyc: &Cycle, l: i64) -> Vec<Jump> {
        let mut v = vec![];
        let n = self.trans.len();
        let mut prev_idx = 0usize;
        for (k, &(t, i)) in self.trans.iter().enumerate() {
            if k + 1 < n || self.rule.is_some() {
                if let Some(u) = self.switch_instant(t) {
                    v.push(Jump { u, before: self.types[prev_idx], after: self.types[i] });
                }
            }
            prev_idx = i;
        }
        if let Some(MRule::Alt { spec, std, dst, class, line }) = &self.rule {
            let last_u = if n > 0 { self.switch_instant(self.trans[n - 1].0) } else { None };
            let (c, _, _, _) = cyc.gmtime(l);
            let mut ev: Vec<(i64, bool)> = vec![]; // (instant, is_start)
            for y in (c.year - 2)..=(c.year + 2) {
                if y - 1 < i32::MIN as i64 || y + 1 > i32::MAX as i64 {
                    continue;
                }
                ev.push((rule_s(cyc, spec, line, y), true));
                ev.push((rule_e(cyc, spec, line, y), false));
            }
            // order: by instant; at equal instants the rule's own order (start-first: start then end; end-first: end then start)
            let start_first = !matches!(class, Class::EndFirst);
            ev.sort_by_key(|&(t, is_start)| (t, if start_first { !is_start } else { is_start }));
            // drop pairs at the same instant (no net change)
            let mut k = 0;
            while k < ev.len() {
                if k + 1 < ev.len() && ev[k].0 == ev[k + 1].0 && ev[k].1 != ev[k + 1].1 {
                    k += 2;
                    continue;
                }
                let (t, is_start) = ev[k];
                let after_table = match last_u {
                    Some(lu) => t > lu,
                    None => n == 0,
                };
                if after_table {
                    if is_start {
                        v.push(Jump { u: t, before: *std, after: *dst });
                    } else {
                        v.push(Jump { u: t, before: *dst, after: *std });
                    }
                }
                k += 1;
            }
        }
        v
    }

    /// Expected search result for the local reading whose seconds-since-epoch value is `l` (second 60 already folded
    /// into the next minute): valid instants = { l - o : o in offsets, forward(l - o) has offset o }, gaps = jumps with
    /// u + a <= l < u + b, everything in ascending order of instant.
    pub fn search(&self, cyc: &Cycle, l: i64) -> Vec<Found> {
        let mut out: Vec<Found> = vec![];
        for o in self.offsets() {
            let u = match l.checked_sub(o as i64) {
                Some(u) => u,
                None => continue,
            };
            if let Ok(t) = self.forward(cyc, u) {
                if t.off == o {
                    out.push(Found::Normal { u, ty: *t });
                }
            }
        }
        for j in self.jumps(cyc, l) {
            let a = j.before.off as i64;
            let b = j.after.off as i64;
            if b > a && j.u.checked_add(a).map_or(false, |x| x <= l) && j.u.checked_add(b).map_or(false, |x| l < x) {
                out.push(Found::Skipped { u: j.u, before: j.before, after: j.after });
            }
        }
        out.sort_by_key(|f| (f.instant(), matches!(f, Found::Normal { .. })));
        out
    }
}
