//! Reference recogniser for POSIX TZ descriptions `std offset[dst[offset][,start[/time],end[/time]]]`
//! (written from POSIX / RFC 8536 section 3.3.1 and property C09, recursive descent, no tz-rs code).

use crate::rule::Day;

#[derive(Clone, Debug, PartialEq, Eq)]
pub enum Tz {
    Reject,
    Fixed { name: Vec<u8>, utoff: i64 },
    Alt { std_name: Vec<u8>, std_utoff: i64, dst_name: Vec<u8>, dst_utoff: i64, start: Day, start_time: i64, end: Day, end_time: i64 },
}

struct P<'a> {
    b: &'a [u8],
    i: usize,
    /// number of recogniser steps (symbols consumed / decisions taken), for evidence
    steps: u64,
}

impl<'a> P<'a> {
    fn peek(&self) -> Option<u8> {
        self.b.get(self.i).copied()
    }
    fn eat(&mut self, c: u8) -> bool {
        if self.peek() == Some(c) {
            self.i += 1;
            self.steps += 1;
            true
        } else {
            false
        }
    }
    fn eof(&self) -> bool {
        self.i >= self.b.len()
    }

    /// name: 3..=7 characters; unquoted = ASCII letters only, quoted in <> = letters, digits, + and -
    fn name(&mut self) -> Option<Vec<u8>> {
        let mut v = vec![];
        if self.eat(b'<') {
            loop {
                match self.peek() {
                    None => return None, // unterminated
                    Some(b'>') => {
                        self.i += 1;
                        self.steps += 1;
                        break;
                    }
                    Some(c) => {
                        v.push(c);
                        self.i += 1;
                        self.steps += 1;
                    }
                }
            }
            if !v.iter().all(|c| c.is_ascii_alphanumeric() || *c == b'+' || *c == b'-') {
                return None;
            }
        } else {
            while let Some(c) = self.peek() {
                if c.is_ascii_alphabetic() {
                    v.push(c);
                    self.i += 1;
                    self.steps += 1;
                } else {
                    break;
                }
            }
        }
        if v.len() < 3 || v.len() > 7 {
            return None;
        }
        Some(v)
    }

    /// one or more decimal digits; value saturates (all ranges are small)
    fn number(&mut self) -> Option<u64> {
        let st = self.i;
        let mut v: u64 = 0;
        while let Some(c) = self.peek() {
            if c.is_ascii_digit() {
                v = v.saturating_mul(10).saturating_add((c - b'0') as u64);
                self.i += 1;
                self.steps += 1;
            } else {
                break;
            }
        }
        if self.i == st {
            None
        } else {
            Some(v)
        }
    }

    /// hh[:mm[:ss]] -> seconds, with the given maximum for hh
    fn hms(&mut self, max_h: u64) -> Option<i64> {
        let h = self.number()?;
        let mut m = 0;
        let mut s = 0;
        if self.eat(b':') {
            m = self.number()?;
            if self.eat(b':') {
                s = self.number()?;
            }
        }
        // numbers that do not fit the implementation's integer width cannot be in range either
        if h > max_h || m > 59 || s > 59 {
            return None;
        }
        Some((h * 3600 + m * 60 + s) as i64)
    }

    fn sign(&mut self) -> i64 {
        if self.eat(b'+') {
            1
        } else if self.eat(b'-') {
            -1
        } else {
            1
        }
    }

    /// offset: [+-]hh[:mm[:ss]], hh <= 24, positive = west of Greenwich; returns the POSIX value (seconds west)
    fn offset(&mut self) -> Option<i64> {
        let sg = self.sign();
        let v = self.hms(24)?;
        Some(sg * v)
    }

    fn day(&mut self) -> Option<Day> {
        if self.eat(b'J') {
            let n = self.number()?;
            if (1..=365).contains(&n) {
                Some(Day::J(n as u16))
            } else {
                None
            }
        } else if self.eat(b'M') {
            let m = self.number()?;
            if !self.eat(b'.') {
                return None;
            }
            let w = self.number()?;
            if !self.eat(b'.') {
                return None;
            }
            let d = self.number()?;
            if (1..=12).contains(&m) && (1..=5).contains(&w) && d <= 6 {
                Some(Day::M(m as u8, w as u8, d as u8))
            } else {
                None
            }
        } else {
            let n = self.number()?;
            if n <= 365 {
                Some(Day::Z(n as u16))
            } else {
                None
            }
        }
    }

    /// date[/time]; time: hh[:mm[:ss]] 0..=24h unsigned, or with extensions [+-]hh.. up to 167h; default 02:00:00
    fn rule(&mut self, ext: bool) -> Option<(Day, i64)> {
        let d = self.day()?;
        let mut t = 7200;
        if self.eat(b'/') {
            if ext {
                let sg = self.sign();
                t = sg * self.hms(167)?;
            } else {
                t = self.hms(24)?;
            }
        }
        Some((d, t))
    }
}

/// Recognise a complete TZ description. `ext` = RFC 8536 extensions allowed (version-3 footers).
/// Returns the decoded rule (UTC offsets already negated) and the number of recogniser steps.
pub fn recognise(s: &[u8], ext: bool) -> (Tz, u64) {
    let mut p = P { b: s, i: 0, steps: 0 };
    let r = recognise_inner(&mut p, ext);
    (r.unwrap_or(Tz::Reject), p.steps + 1)
}

fn recognise_inner(p: &mut P, ext: bool) -> Option<Tz> {
    let std_name = p.name()?;
    let std_off = p.offset()?;
    if p.eof() {
        return Some(Tz::Fixed { name: std_name, utoff: -std_off });
    }
    let dst_name = p.name()?;
    let dst_off = match p.peek() {
        None => return None,            // DST name without rules
        Some(b',') => std_off - 3600, // one hour ahead of standard time
        Some(_) => p.offset()?,
    };
    if p.eof() {
        return None; // DST name and offset without rules
    }
    if !p.eat(b',') {
        return None;
    }
    let (start, start_time) = p.rule(ext)?;
    if !p.eat(b',') {
        return None;
    }
    let (end, end_time) = p.rule(ext)?;
    if !p.eof() {
        return None; // trailing characters
    }
    Some(Tz::Alt { std_name, std_utoff: -std_off, dst_name, dst_utoff: -dst_off, start, start_time, end, end_time })
}

pub fn is_ascii_ws(c: u8) -> bool {
    matches!(c, b' ' | b'\t' | b'\n' | 0x0c | b'\r')
}

pub fn trim_ascii_ws(mut s: &[u8]) -> &[u8] {
    while let Some((&c, rest)) = s.split_first() {
        if is_ascii_ws(c) {
            s = rest;
        } else {
            break;
        }
    }
    while let Some((&c, rest)) = s.split_last() {
        if is_ascii_ws(c) {
            s = rest;
        } else {
            break;
        }
    }
    s
}

#[cfg(test)]
mod tests {
    use super::*;
    #[test]
    fn basics() {
        assert_eq!(recognise(b"UTC0", false).0, Tz::Fixed { name: b"UTC".to_vec(), utoff: 0 });
        assert_eq!(recognise(b"<+03>-3", false).0, Tz::Fixed { name: b"+03".to_vec(), utoff: 10800 });
        match recognise(b"EST5EDT,M3.2.0,M11.1.0", false).0 {
            Tz::Alt { std_utoff, dst_utoff, start, start_time, end_time, .. } => {
                assert_eq!((std_utoff, dst_utoff, start, start_time, end_time), (-18000, -14400, Day::M(3, 2, 0), 7200, 7200));
            }
            x => panic!("{x:?}"),
        }
        assert_eq!(recognise(b"EST5EDT", false).0, Tz::Reject);
        assert_eq!(recognise(b"EST5EDT,M3.2.0/-1,M11.1.0", false).0, Tz::Reject);
        assert_ne!(recognise(b"EST5EDT,M3.2.0/-1,M11.1.0", true).0, Tz::Reject);
        assert_eq!(recognise(b"EST5EDT,M3.2.0,M11.1.0 ", false).0, Tz::Reject);
        assert_eq!(recognise(b"AB5", false).0, Tz::Reject);
        assert_eq!(recognise(b"ABC25", false).0, Tz::Reject);
        assert_ne!(recognise(b"ABC24:59:59", false).0, Tz::Reject);
    }
}
