//! Odometer calendar: the reference model of the proleptic Gregorian calendar.
//!
//! Deliberately naive.  The only calendar knowledge used is
//!   * days in month: 31 28/29 31 30 31 30 31 31 30 31 30 31
//!   * leap iff y%4==0 && (y%100!=0 || y%400==0)
//!   * 1970-01-01 is a Thursday and is day 0
//! Everything else (day numbers of year starts, 400-year periodicity, weekday
//! periodicity) is *derived by walking* and checked, never assumed.

pub const SECS_PER_DAY: i64 = 86_400;
pub const CYCLE_DAYS: i64 = 146_097;

/// floor division written without div_euclid (model independence)
pub fn floor_div(a: i64, b: i64) -> i64 {
    debug_assert!(b > 0);
    let q = a / b;
    if a % b < 0 {
        q - 1
    } else {
        q
    }
}
pub fn floor_mod(a: i64, b: i64) -> i64 {
    let r = a % b;
    if r < 0 {
        r + b
    } else {
        r
    }
}
pub fn floor_div128(a: i128, b: i128) -> i128 {
    let q = a / b;
    if a % b < 0 {
        q - 1
    } else {
        q
    }
}

pub fn is_leap(y: i64) -> bool {
    let m4 = floor_mod(y, 4) == 0;
    let m100 = floor_mod(y, 100) == 0;
    let m400 = floor_mod(y, 400) == 0;
    m4 && (!m100 || m400)
}

pub fn days_in_month(y: i64, m: u8) -> u8 {
    match m {
        1 | 3 | 5 | 7 | 8 | 10 | 12 => 31,
        4 | 6 | 9 | 11 => 30,
        2 => {
            if is_leap(y) {
                29
            } else {
                28
            }
        }
        _ => 0,
    }
}

pub fn days_in_year(y: i64) -> i64 {
    if is_leap(y) {
        366
    } else {
        365
    }
}

/// One calendar day. `wday`: 0 = Sunday. `yday`: 0 = 1 January. `day`: days since 1970-01-01.
#[derive(Clone, Copy, PartialEq, Eq, Debug)]
pub struct Civil {
    pub year: i64,
    pub month: u8,
    pub mday: u8,
    pub wday: u8,
    pub yday: u16,
    pub day: i64,
}

impl Civil {
    pub fn epoch() -> Civil {
        Civil { year: 1970, month: 1, mday: 1, wday: 4, yday: 0, day: 0 }
    }
    /// odometer step forward
    pub fn next(&mut self) {
        self.day += 1;
        self.wday = if self.wday == 6 { 0 } else { self.wday + 1 };
        if self.mday < days_in_month(self.year, self.month) {
            self.mday += 1;
            self.yday += 1;
        } else if self.month < 12 {
            self.month += 1;
            self.mday = 1;
            self.yday += 1;
        } else {
            self.year += 1;
            self.month = 1;
            self.mday = 1;
            self.yday = 0;
        }
    }
    /// odometer step backward
    pub fn prev(&mut self) {
        self.day -= 1;
        self.wday = if self.wday == 0 { 6 } else { self.wday - 1 };
        if self.mday > 1 {
            self.mday -= 1;
            self.yday -= 1;
        } else if self.month > 1 {
            self.month -= 1;
            self.mday = days_in_month(self.year, self.month);
            self.yday -= 1;
        } else {
            self.year -= 1;
            self.month = 12;
            self.mday = 31;
            self.yday = (days_in_year(self.year) - 1) as u16;
        }
    }
    pub fn is_month_edge(&self) -> bool {
        self.mday == 1 || self.mday == days_in_month(self.year, self.month) || (self.month == 2 && self.mday >= 28)
    }
}

#[derive(Clone, Copy)]
struct Ent {
    yic: u16,
    month: u8,
    mday: u8,
    wday: u8,
    yday: u16,
}

/// The walked 400-year cycle 2000-01-01 .. 2399-12-31 and closed forms derived from it.
pub struct Cycle {
    ents: Vec<Ent>,
    /// day number of 2000-01-01 (derived by walking from the epoch)
    pub base_day: i64,
    /// offset of 1 January of year-in-cycle k from the cycle start, k in 0..=400
    year_start: Vec<i64>,
}

impl Cycle {
    /// Build by walking; panics (model self-check) if the periodicity lemma fails.
    pub fn build() -> Cycle {
        // walk forward from the epoch to 2000-01-01
        let mut c = Civil::epoch();
        while c.year < 2000 {
            c.next();
        }
        assert!(c.month == 1 && c.mday == 1 && c.yday == 0);
        let base_day = c.day;
        let start = c;
        let mut ents = Vec::with_capacity(CYCLE_DAYS as usize);
        let mut year_start = Vec::with_capacity(401);
        loop {
            if c.month == 1 && c.mday == 1 {
                year_start.push(c.day - base_day);
            }
            if c.year == 2400 {
                break;
            }
            ents.push(Ent { yic: (c.year - 2000) as u16, month: c.month, mday: c.mday, wday: c.wday, yday: c.yday });
            c.next();
        }
        // periodicity lemma: exactly 146097 steps, same month/day/weekday/yearday, year + 400
        assert_eq!(ents.len() as i64, CYCLE_DAYS);
        assert_eq!(c.day - base_day, CYCLE_DAYS);
        assert!(c.year == start.year + 400 && c.month == 1 && c.mday == 1 && c.wday == start.wday && c.yday == 0);
        assert_eq!(year_start.len(), 401);
        // the leap rule itself is 400-periodic: check it on a window of years around 0, i32 extremes
        for base in [-800i64, 0, 1600, 2000, (i32::MIN as i64) - 3, (i32::MAX as i64) - 400] {
            for k in 0..400 {
                assert_eq!(is_leap(base + k), is_leap(base + k + 400));
            }
        }
        // walking *backwards* from 2000-01-01 through one whole cycle reproduces the same table (prev is the inverse of next
        // and the cycle before 2000 has the same shape)
        let mut b = start;
        for i in (0..CYCLE_DAYS as usize).rev() {
            b.prev();
            let e = ents[i];
            assert!(b.month == e.month && b.mday == e.mday && b.wday == e.wday && b.yday == e.yday && b.year == 1600 + e.yic as i64);
        }
        assert!(b.year == 1600 && b.month == 1 && b.mday == 1 && b.day == base_day - CYCLE_DAYS);
        Cycle { ents, base_day, year_start }
    }

    /// civil date of a day number (total: year is i64)
    pub fn civil(&self, day: i64) -> Civil {
        let d = day - self.base_day;
        let cyc = floor_div(d, CYCLE_DAYS);
        let idx = floor_mod(d, CYCLE_DAYS) as usize;
        let e = self.ents[idx];
        Civil { year: 2000 + 400 * cyc + e.yic as i64, month: e.month, mday: e.mday, wday: e.wday, yday: e.yday, day }
    }

    /// day number of 1 January of `year`
    pub fn year_start_day(&self, year: i64) -> i64 {
        let y = year - 2000;
        let cyc = floor_div(y, 400);
        let yic = floor_mod(y, 400) as usize;
        self.base_day + cyc * CYCLE_DAYS + self.year_start[yic]
    }

    /// day number of a (possibly invalid-overflowing) date: 1 <= month <= 12, mday >= 1; mday may exceed the month
    /// length (e.g. December 32nd) and then simply counts on.
    pub fn day_of(&self, year: i64, month: u8, mday: i64) -> i64 {
        let mut d = self.year_start_day(year);
        let mut m = 1;
        while m < month {
            d += days_in_month(year, m) as i64;
            m += 1;
        }
        d + mday - 1
    }

    pub fn valid_date(&self, year: i64, month: i64, mday: i64) -> bool {
        (1..=12).contains(&month) && mday >= 1 && mday <= days_in_month(year, month as u8) as i64
    }

    /// broken-down UTC time of a Unix time (total)
    pub fn gmtime(&self, t: i64) -> (Civil, u8, u8, u8) {
        let day = floor_div(t, SECS_PER_DAY);
        let sod = floor_mod(t, SECS_PER_DAY);
        let c = self.civil(day);
        ((c), (sod / 3600) as u8, ((sod / 60) % 60) as u8, (sod % 60) as u8)
    }

    /// Unix time of calendar fields (second may be 60; fields assumed to denote a real date)
    pub fn timegm(&self, year: i64, month: u8, mday: u8, h: u8, mi: u8, s: u8) -> i64 {
        self.day_of(year, month, mday as i64) * SECS_PER_DAY + h as i64 * 3600 + mi as i64 * 60 + s as i64
    }
}

#[cfg(test)]
mod tests {
    use super::*;
    #[test]
    fn known_dates() {
        let c = Cycle::build();
        assert_eq!(c.base_day, 10957);
        let x = c.civil(0);
        assert_eq!((x.year, x.month, x.mday, x.wday, x.yday), (1970, 1, 1, 4, 0));
        let x = c.civil(19000); // 2022-01-08 Saturday
        assert_eq!((x.year, x.month, x.mday, x.wday, x.yday), (2022, 1, 8, 6, 7));
        assert_eq!(c.day_of(2022, 1, 8), 19000);
        assert_eq!(c.day_of(1600, 1, 1), 10957 - 146097);
        let x = c.civil(-1);
        assert_eq!((x.year, x.month, x.mday, x.wday, x.yday), (1969, 12, 31, 3, 364));
        assert_eq!(c.gmtime(-1).1, 23);
        assert_eq!(c.timegm(2000, 3, 1, 0, 0, 0), 951868800);
    }
}
