//! Reference models for the tz-rs verification harness.  No dependency on tz-rs.
pub mod cal;
pub mod rule;
pub mod zone;
pub mod tzstr;
pub mod tzif;
