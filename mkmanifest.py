#!/usr/bin/env python3
"""Regenerates /verif/MANIFEST.json from the table below (keeps the manifest valid while checks are added)."""
import json, os
HERE = os.path.dirname(os.path.abspath(__file__))
ALL = [f"C{i:02d}" for i in range(1, 21)]
CHECKS = {}
def chk(pid, engine, category, text, note, technique, design_ref, thorough=True):
    CHECKS[pid] = {
        "property_id": pid,
        "quick_cmd": f"./check {pid} quick",
        **({"thorough_cmd": f"./check {pid} thorough"} if thorough else {}),
        "evidence_file": f"/verif/evidence/{pid}.json",
        "replay_cmd_template": "./check --replay {path}",
        "engine": engine,
        "level_claimed": {"category": category, "text": text, "design_ref": design_ref},
        "level_note": note,
        "technique": technique,
    }

chk("C01", "cal", "model_checking",
    "Explicit-state walk of the odometer calendar model (states = days, transition = next day); at every visited state the real from_timespec is run for a set of seconds (all 86400 on whole 4-year blocks; the complete day-in-cycle x second-of-day quotient in the thorough tier) and compared field by field incl. week_day/year_day; every 400-year cycle of the i32 range is visited at its seams; range gates enumerated on both sides.",
    "Trusted: the odometer model (days-in-month table, leap rule, 1970-01-01 = Thursday); its 400-year periodicity is checked by walking, not assumed. Not every one of the 1.36e17 instants is visited: completeness rests on the (cycle, day-in-cycle, second) factorisation, which is itself probed at every cycle's seams and on day-by-day stretches.",
    "bounded exhaustive state enumeration of an odometer model, every state compared with the implementation", "DESIGN.md 5/C01")
chk("C02", "cal", "model_checking",
    "Same walk as C01: at every state UtcDateTime::new must accept, unix_time() must equal the model's count, both round trips must be the identity, consecutive date-times must be strictly ordered (derived Ord and unix time), second 60 must equal the next minute's second 0; all (month 0..13, day 0..32) per year and products of time fields decide acceptance (the error kind of a refusal is recorded in evidence, not judged: the statement says refused); year seam for every i32 year in the thorough tier.",
    "Trusted: odometer model. Which error a refusal carries is not part of the statement and is not judged.",
    "bounded exhaustive state enumeration of an odometer model, every state compared with the implementation", "DESIGN.md 5/C02")

chk("C03", "table", "exploration",
    "Bounded-exhaustive enumeration of table zones (every table length 0..64 [300 thorough] x 3 time layouts incl. i64 extremes x type-index patterns, all 3^n index sequences for n<=6 [9] x 7 leap tables x {no rule, fixed, DST rule}) probed at every transition -3..+3, leap records, 0 and i64 extremes; each lookup compared with a linear-scan zone model, DateTime::from_timespec fields with the calendar model, owned zone with borrowed zone. Leap tables by length (2..129 records; 1000 thorough) x sign pattern x last record at / within the correction of / far from i64::MAX x 3 transition layouts.",
    "Trusted: linear-scan zone model, calendar model. Outside the supported instant range an OutOfRange refusal is accepted in place of the model's answer (I4). Tables longer than the bound and other time layouts are not explored.",
    "bounded exhaustive enumeration of zone shapes x probe instants against a reference model", "DESIGN.md 5/C03")
chk("C04", "rule", "exploration",
    "Every accepted interleaving rule of the alphabet (56 boundary day notations squared x 12 time/offset combinations; thorough: all 1151x1151 notation pairs and the full 9x9x9 time/offset product) probed over 400 consecutive years at S(y)-1,S(y),S(y)+1,E(y)-1,E(y),E(y)+1, UTC and local New Years and period middles, compared with the rule-timeline model (rule days resolved by walking the calendar); extreme years; string path; time_grid: every pair of 187 day times at +-(2^k-1, 2^k, 2^k+1) and whole-hour marks on 8 day pairs, every pair of 147 such UTC offsets (525 000 rules).",
    "Trusted: rule timeline model, calendar model. Times of day and offsets come from finite alphabets (boundary values, and every numeric threshold +-2^k with its neighbours; not all 1.2M seconds). Finding KF1 was repaired (/repo commit d153b13) and is no longer suppressed; its witness is re-executed on every run.",
    "bounded exhaustive enumeration of rules x instants against a reference model", "DESIGN.md 5/C04")
chk("C05", "find", "model_checking",
    "Inverse-clock model: for every zone of the enumerated alphabets (tiny world: every <=4-subset of 6 transition times x all 3^n type sequences x 4^3 offsets x {no rule, fixed}; leap-second tiny world; real-scale tables with day/year carries and i32-extreme offsets; rule-only zones; table+rule junctions) and every local reading of its window, the valid results of DateTime::find_n must be exactly the instants at which the model clock shows that reading (candidate-set formulation cross-checked against a brute-force walk of every instant), with literal fields, re-projection and uniqueness.",
    "Trusted: zone/rule/leap/calendar models. Zones outside the alphabets are not explored. I4/I5/I11 restrict the judged domain (supported instant range; deleted UTC labels; second 60). Known finding KF2 tallied by input predicate; KF1 and KF3 were repaired (fix commits d153b13, 02bcb6c) and are no longer suppressed.",
    "explicit-state enumeration of (zone, local reading) states of an inverse-clock model, every state compared with the implementation", "DESIGN.md 5/C05")
chk("C06", "find", "model_checking",
    "Same state space as C05: the reported gaps must be exactly the model's forward jumps T with T+a <= local < T+b (once each, both date-times at T carrying old/new type), the result list must ascend by instant, earliest/latest must be the extremes and unique present iff the list is one valid entry.",
    "Trusted: as C05; I10 (last table transition without trailing rule creates no gap). Known finding KF2 tallied by predicate; KF1/KF3 repaired.",
    "explicit-state enumeration of (zone, local reading) states of an inverse-clock model, every state compared with the implementation", "DESIGN.md 5/C06")
chk("C11", "rulecons", "exploration",
    "Complete quotient: all 1151x1151 day-notation pairs x all d = k*86400+{-1,0,1} (|d|<=16d3h) each realised in 2 (quick) / 5 (thorough) different splits into start time, end time and offsets; AlternateTime::new must accept exactly when none of S(y)-E(y), E(y)-S(y+1), S(y)-E(y+1) takes both signs over 409 consecutive model years; window clauses with error kinds.",
    "Trusted: rule-day model (calendar walk). Weak-inequality reading of 'never change sign' (I2). Error kind compared for single-defect inputs only.",
    "exhaustive enumeration of the decision quotient against a brute-force definition", "DESIGN.md 5/C11")
chk("C16", "nanos", "exploration",
    "Every integer nanosecond count in [-2^28,2^28] (thorough [-2^33,2^33]) and in windows of +-2^20 around k*1e9, the supported-range ends, i64 second ends and i128 extremes; boundary seconds x boundary nanoseconds product; compared with a reference floor split, recombination and the (s,ns) constructors; ns>=1e9 refusals on every validating entry point.",
    "Trusted: reference split (truncating division corrected by sign). Counts outside the enumerated ranges rely on the linearity of the split.",
    "bounded exhaustive enumeration of inputs against a reference function", "DESIGN.md 5/C16")
chk("C17", "find", "model_checking",
    "Same state space as C05/C06; for every state and every buffer length 0..k+2 a stale-prefilled buffer must receive exactly the first min(n,k) results of the allocating search, count k, exhaustive iff n>=k, untouched tail, equal unique/earliest/latest when exhaustive; failing searches fail alike through both entry points.",
    "Trusted: the allocating search as reference (itself checked by C05/C06).",
    "explicit-state enumeration of (zone, local reading, buffer length) against the allocating search", "DESIGN.md 5/C17")
chk("C18", "fmt", "exploration",
    "Every offset in [-200000,200000] plus all boundaries (thorough: every i32 offset) and products of dates, times, nanoseconds and offsets rendered with Display into a stack buffer and read back by an independent strict reader (fixed widths, no padding of year, >=2 hour digits, Z iff 0, :SS iff not whole minutes).",
    "Trusted: the strict reader (self-tested against near-miss strings).",
    "bounded exhaustive enumeration of inputs with an independent reader as oracle", "DESIGN.md 5/C18")

chk("C07", "nopanic", "exploration",
    "Supervised child processes (crash/hang attributed to the in-flight chunk) with a counting allocator run: every symbol string up to length 5 (6) through 3 decoding paths; one-edit deviations, numeric bombs and 100 KB inputs for 30 core sentences; every truncation and 6 byte values at every offset of every distinct corpus file (1341 files); hostile header counts singly and in pairs, extreme time fields; boundary-value products through every public constructor, query, getter and Display on 659 zones with extreme transitions/leap records; every accepted input is then used; products: leap-table length x sign pattern x last record near i64::MAX x transition layout (2016 zones), and configured directories (0..3000) x name length (1..65 536) under the allocation bound. Both with overflow checks + debug assertions and without.",
    "Oracle is 'returns a value or an error within the allocation and time bounds'; values are not judged here. Inputs outside the enumerated deviation bound are not explored. Allocation bound: peak live bytes <= 8 x input + 4 KiB per parser call, single request <= 1 GiB.",
    "deviation-bounded exhaustive enumeration of hostile inputs under a fault-observing supervisor", "DESIGN.md 5/C07")
chk("C08", "tzif", "exploration",
    "Independent writer: 1728 zone shapes (counts, designation pools with shared/overlapping/empty strings, indicator layouts, 32/64-bit extreme times, footers) encoded as v1/v2/v3 with a different zone in the 32-bit block of v2+ files, decoded zone compared with TimeZone::new(expected parts); independent reader: all 1796 corpus files (fat + slim, incl. right/ and v3); every corruption class of the property applied to the synthesised files must be rejected (the error kind is recorded, not judged: the statement says rejected); every truncation and 6 byte values at every offset of the corpus files (1.0 M mutants quick) decoded by both the implementation and the independent reader, which must agree on acceptance and on the decoded zone; well-formed files with up to 300 000 transitions / 1000 leap records / 1000 types, with a transition to every type index an octet can name.",
    "Trusted: the independent writer/reader (RFC 8536) and the TZ-string recogniser. One slim corpus file (America/Ojinaga as produced by this image's zic) violates RFC 8536 3.3 (footer inconsistent with last transition) and is expected to be refused (C13); it is listed in evidence. Finding KF4 (single-newline footer accepted) was repaired by /repo commit 80cdbde; every truncation incl. every cut inside the footer is judged.",
    "bounded exhaustive enumeration of file shapes and single-field corruptions against an independent codec", "DESIGN.md 5/C08")
chk("C09", "tzstr", "model_checking",
    "Reference recogniser (recursive descent, states = recogniser steps) vs the implementation on: every string of <=6 (7) symbols over an 18-symbol TZ alphabet, alone and behind 11 grammar prefixes (<=5 (6) symbols); 178k sentences of a bounded grammar (names x offsets x DST parts x 17 day notations^2 x 12 times^2 x trailing); all one-edit (two-edit for the shortest) deviations of 30 core sentences; each through three decoding paths (settings = extensions off, v2 footer = off, v3 footer = on); accept/reject and the decoded zone must match.",
    "Trusted: the recogniser. AlternateTime::new is used as a sub-oracle for the consistency condition (C11's subject) and cross-checked against the model on a subset.",
    "exhaustive enumeration of short strings and bounded-grammar sentences against a reference recogniser", "DESIGN.md 5/C09")
chk("C12", "leap", "model_checking",
    "Two-scale clock model: every +-1 sign sequence of length 1..4 (5) x 3 first-record times x 3 spacings plus the real 27-record table; probe zones with transitions at record-3..record+3, +-1h and far; every UTC second of a +-40 s walk around the switch (forward lookup must switch exactly at the model's instant) and the local readings around the gap (search must report the transition at that instant and return every walked instant).",
    "Trusted: leap model (U_i = L_i - c_(i-1)). I5: the label deleted by a negative leap second is identified with its successor; readings whose candidate instant is a deleted label are not judged.",
    "explicit-state walk of a two-scale clock model, every state compared with the implementation", "DESIGN.md 5/C12")
chk("C13", "zonecons", "exploration",
    "Small world, complete: all transition sequences of length 0..3 over 5 times x 4 indices with 0..2 types, 5 leap tables and 4-5 trailing rules; all leap sequences of length 0..3 over 8 times x 7 corrections; trailing rules differing from the last type in exactly one attribute; DST rule agreeing/disagreeing around rule transitions; all designations up to length 7 (9) over 8 symbols x 4 offsets. Reference validator decides accept / error kind (single-defect inputs); owned and borrowed constructors must agree.",
    "Trusted: reference validator, rule model. The KF1-tagged case (repaired in /repo by d153b13) is judged like any other.",
    "bounded exhaustive enumeration of constructor inputs against a reference validator", "DESIGN.md 5/C13")
chk("C14", "dtinv", "exploration",
    "Boundary instants x boundary offsets through every construction path (fields, timestamp+type, timestamp+zone, total nanoseconds, projections) must agree with the calendar model and with each other; projection chains over 6 zones cubed keep (unix_time, ns); all pairs of a value set for == / partial_cmp; DateTime::new refusals on a field product; plus the invariant on every DateTime (both halves of every gap entry) returned by the search sweeps of engine find (monitor).",
    "Trusted: calendar model. from_timespec paths are judged on 'fields representable', DateTime::new additionally on 'instant in supported range' (the only clause the statement makes).",
    "bounded exhaustive enumeration with an invariant monitor on every produced value", "DESIGN.md 5/C14")
chk("C20", "resolve", "model_checking",
    "Protocol model of TZ resolution (states = configurations, transitions = file-open requests): complete product of 32 TZ values x 18 ordered directory lists x every assignment of 6 file states to the candidate paths plus a path that must never be opened (258k configurations); the logged sequence of read requests and the outcome (incl. decoded zone) must equal the model's; parse_local == parse_posix_tz(\"localtime\").",
    "Trusted: the protocol model written from the property statement; injectable reader (the real file system is not involved).",
    "exhaustive enumeration of environment answers (virtual file systems) against a protocol model", "DESIGN.md 5/C20")

chk("C10", "py/e2e.py + tzmc dump", "exploration",
    "Every distinct TZif file of the vendored IANA corpus (fat posix tree, slim tree) x {every transition -1/0/+1, footer-rule transitions -1/0/+1 for 2038..2137 (..2437), calendar grid 1900..2500} compared with CPython zoneinfo (offset, abbreviation) and glibc localtime (offset, abbreviation, isdst) - 3.1 M instants per reference in the quick tier; right/ files against glibc through an independent leap-table mapping; local times around transitions since 1970: tz-rs valid instants must equal the inverse image under each reference; well-formed POSIX TZ strings vs glibc's TZ parser. No random instants: complete enumeration of the listed sets.",
    "Oracles are external (python3 3.11 zoneinfo, glibc of this image). Written exclusions, listed in evidence: files without footer after their last transition (I6); one slim file whose footer contradicts its last transition (RFC 8536 3.3); TZ-string instants within 2 days of New Year (glibc evaluates rules per calendar year).",
    "complete enumeration of transition-adjacent instants on a real corpus against two independent reference implementations", "DESIGN.md 5/C10")
chk("C15", "hist (tzmc) + conc (shuttle)", "model_checking",
    "History exploration: every sequence of <= 3 operations over a 32-op collision alphabet (33 824 histories; thorough adds all length-4 histories over 16 ops) in one process; after every operation the result digest must equal the run-alone digest from a fresh process (under 4 TZ/TZDIR environments), no byte of the executable's .data/.bss/TLS may change, no store into .data/.bss may happen at all (write trap: the pages are read-only during the operation, every store is logged through SIGSEGV + single step, so a value written and restored is seen), no getenv call and no libc call that changes process-wide state (environment, current directory, file system, child processes, signal dispositions, standard input) may occur, raw bytes of all shared values must be unchanged. Schedule exploration: shuttle check_dfs explores ALL interleavings of 2 threads x 2 ops (every ordered pair per thread over 12 ops) and 3 threads x 1 op (10 804 bodies, 214 k schedules) on a copy of the crate whose std::sync / core::sync::atomic / thread_local! uses are rerouted to shuttle's, oracle: every op returns its run-alone result; a failing schedule is replayed twice.",
    "I9: the structural clauses ('no static', 'no interior mutability') are decided through their observable consequences; hidden state that no explored operation ever writes is invisible. Primitives the rewriting cannot reroute (nested-brace imports, OnceLock/LazyLock, Cell-based statics) are counted in evidence; if the rerouted copy does not compile the unrerouted copy is explored at operation granularity and evidence says so. Monitors are self-tested on every run (injected static write, restored static write, TLS write, getenv, setenv, chdir, file creation / removal, child process, sigaction). The write trap covers .data/.bss; the TLS block is compared by snapshot only (its pages hold libc's and the kernel's per-thread data).",
    "exhaustive history-tree enumeration with write monitors + exhaustive DFS schedule exploration under a controlled scheduler (shuttle)", "DESIGN.md 5/C15")
chk("C19", "check_c19 + tzmc", "exploration",
    "tz-rs is built with no features, with alloc and with std; the harness is built against each; the deterministic workloads of 11 allocation-free engines (C01-C05, C11-C14, C16, C18 workloads) run in all three configurations and of 3 alloc-level engines (C08, C09, C20) in alloc and std, in digest mode: the exit status of each engine's own oracle and the order-independent result digests must be identical across configurations (thorough: both build profiles).",
    "Host build with #![no_std] (no bare-metal target is installed): compile success without `extern crate alloc` shows no alloc/std path is used. A workload that fails identically in every configuration is not a C19 violation.",
    "complete enumeration of feature configurations x deterministic workloads with digest comparison", "DESIGN.md 5/C19")

NOT_YET = "check not built yet in this revision (see DESIGN.md for the planned engine)"
manifest = {
    "version": 1,
    "setup_cmd": "./check --setup",
    "hooks": {
        "guard": "tz_rs_verif",
        "enable": "none needed: every mechanism is observable through the public API; /repo is built unmodified as a path dependency of /verif/harness (C15 additionally builds a rerouted scratch COPY of /repo under /tmp, never /repo itself)",
        "baseline_off_cmd": "cd /repo && cargo test --workspace --no-fail-fast --offline",
        "source_commits": [],
        "add_only": True,
    },
    "engines": [
        {"name": "tzmc", "path": "/verif/harness/tzmc", "serves_properties": sorted(CHECKS), "kind_free_text": "Rust explorers: enumerate bounded input/state spaces completely, run the real tz-rs on every element, compare with the reference models in /verif/harness/refmodel"},
    ],
    "checks": [CHECKS[k] for k in sorted(CHECKS)],
    "not_applicable": [{"property_id": p, "reason": NOT_YET} for p in ALL if p not in CHECKS],
    "notes": "Exit codes: 0 held, 1 violation (VIOLATION line), >=2 machinery failure. Known findings: /verif/known_findings.json (KF2 open; KF1 fixed by /repo commit d153b13, KF3 by 02bcb6c, KF4 by 80cdbde). Seeded changes and which checks catch them: /verif/seeded/*/meta.json and DESIGN.md section 8.",
}
json.dump(manifest, open(os.path.join(HERE, "MANIFEST.json"), "w"), indent=1)
print("claimed:", sorted(CHECKS))
