#!/usr/bin/env python3
"""Regenerates /verif/MANIFEST.json from the table below (keeps the manifest valid while checks are added)."""
import json, os
HERE = os.path.dirname(os.path.abspath(__file__))
ALL = [f"C{i:02d}" for i in range(1, 21)]
CHECKS = {}
def chk(pid, engine, category, text, note, technique, design_ref, thorough=True):
    CHECKS[pid] = {
        "property_id": pid,
        "quick_cmd": f"./check {pid} quick",
        **({"thorough_cmd": f"./check {pid} thorough"} if thorough else {}),
        "evidence_file": f"/verif/evidence/{pid}.json",
        "replay_cmd_template": "./check --replay {path}",
        "engine": engine,
        "level_claimed": {"category": category, "text": text, "design_ref": design_ref},
        "level_note": note,
        "technique": technique,
    }

chk("C01", "cal", "model_checking",
    "Explicit-state walk of the odometer calendar model (states = days, transition = next day); at every visited state the real from_timespec is run for a set of seconds (all 86400 on whole 4-year blocks; the complete day-in-cycle x second-of-day quotient in the thorough tier) and compared field by field incl. week_day/year_day; every 400-year cycle of the i32 range is visited at its seams; range gates enumerated on both sides.",
    "Trusted: the odometer model (days-in-month table, leap rule, 1970-01-01 = Thursday); its 400-year periodicity is checked by walking, not assumed. Not every one of the 1.36e17 instants is visited: completeness rests on the (cycle, day-in-cycle, second) factorisation, which is itself probed at every cycle's seams and on day-by-day stretches.",
    "bounded exhaustive state enumeration of an odometer model, every state compared with the implementation", "DESIGN.md 5/C01")
chk("C02", "cal", "model_checking",
    "Same walk as C01: at every state UtcDateTime::new must accept, unix_time() must equal the model's count, both round trips must be the identity, consecutive date-times must be strictly ordered (derived Ord and unix time), second 60 must equal the next minute's second 0; all (month 0..13, day 0..32) per year and products of time fields decide acceptance and error kind; year seam for every i32 year in the thorough tier.",
    "Trusted: odometer model. Error kind is compared for single-defect inputs only (precedence among simultaneous defects is unspecified).",
    "bounded exhaustive state enumeration of an odometer model, every state compared with the implementation", "DESIGN.md 5/C02")

NOT_YET = "check not built yet in this revision (see DESIGN.md for the planned engine)"
manifest = {
    "version": 1,
    "setup_cmd": "./check --setup",
    "hooks": {
        "guard": "tz_rs_verif",
        "enable": "none needed: every mechanism is observable through the public API; /repo is built unmodified as a path dependency of /verif/harness",
        "baseline_off_cmd": "cd /repo && cargo test --workspace --no-fail-fast --offline",
        "source_commits": [],
        "add_only": True,
    },
    "engines": [
        {"name": "tzmc", "path": "/verif/harness/tzmc", "serves_properties": sorted(CHECKS), "kind_free_text": "Rust explorers: enumerate bounded input/state spaces completely, run the real tz-rs on every element, compare with the reference models in /verif/harness/refmodel"},
    ],
    "checks": [CHECKS[k] for k in sorted(CHECKS)],
    "not_applicable": [{"property_id": p, "reason": NOT_YET} for p in ALL if p not in CHECKS],
    "notes": "Exit codes: 0 held, 1 violation (VIOLATION line), >=2 machinery failure. Known findings: /verif/known_findings.json.",
}
json.dump(manifest, open(os.path.join(HERE, "MANIFEST.json"), "w"), indent=1)
print("claimed:", sorted(CHECKS))
