#!/usr/bin/env python3
"""C10 end-to-end: tz-rs vs CPython zoneinfo and glibc (time.tzset/localtime) on the vendored IANA corpus.

usage: e2e.py <quick|thorough> <tzmc-exe> <evidence.json> <replay-dir>
exit 0 = agreement everywhere, 1 = VIOLATION lines printed, >=2 machinery failure.

No random instants: complete enumeration of the listed instant sets per file.
"""
import datetime
import hashlib
import json
import shutil
import os
import struct
import subprocess
import sys
import tempfile
import time
import zoneinfo

DATA = os.environ.get("VERIF_DATA", "/verif/data/tzdb")
UTC = datetime.timezone.utc


# ------------------------------------------------------------------------------------------ independent TZif reading
def read_tzif(path):
    b = open(path, "rb").read()

    def hdr(p):
        assert b[p:p + 4] == b"TZif"
        return b[p + 4:p + 5], struct.unpack(">6I", b[p + 20:p + 44])

    ver, (isut, isstd, leap, tcnt, typ, ch) = hdr(0)
    p = 44 + tcnt * 4 + tcnt + typ * 6 + ch + leap * 8 + isstd + isut
    ts = 4
    q = 44
    footer = None
    if ver != b"\0":
        ver, (isut, isstd, leap, tcnt, typ, ch) = hdr(p)
        q = p + 44
        ts = 8
    fmt = ">%d%s" % (tcnt, "q" if ts == 8 else "i")
    times = struct.unpack(fmt, b[q:q + ts * tcnt])
    q += ts * tcnt
    idx = list(b[q:q + tcnt])
    q += tcnt
    types = []
    tq = q
    q += 6 * typ
    chars = b[q:q + ch]
    q += ch
    for k in range(typ):
        off, dst, ai = struct.unpack(">iBB", b[tq + 6 * k:tq + 6 * k + 6])
        name = chars[ai:chars.index(b"\0", ai)].decode()
        types.append((off, dst, name))
    leaps = []
    for k in range(leap):
        if ts == 8:
            t, c = struct.unpack(">qi", b[q:q + 12])
        else:
            t, c = struct.unpack(">ii", b[q:q + 8])
        q += ts + 4
        leaps.append((t, c))
    q += isstd + isut
    if ts == 8:
        footer = b[q:].strip(b"\n").decode()
    return {"version": ver, "trans": list(zip(times, idx)), "types": types, "leaps": leaps, "footer": footer}


def files_of(sub):
    out = []
    for root, dirs, files in os.walk(os.path.join(DATA, sub)):
        dirs.sort()
        for f in sorted(files):
            out.append(os.path.join(root, f))
    return out


def distinct(paths):
    seen, out = set(), []
    for p in paths:
        h = hashlib.sha1(open(p, "rb").read()).hexdigest()
        if h not in seen:
            seen.add(h)
            out.append(p)
    return out


def tzmc_dump(exe, lines):
    d = tempfile.mkdtemp(prefix="tzrs-e2e-")
    try:
        req, out = os.path.join(d, "req"), os.path.join(d, "out")
        with open(req, "w") as f:
            f.write("\n".join(lines) + "\n")
        p = subprocess.run([exe, "dump", "--requests", req, "--out", out], stdout=subprocess.PIPE, stderr=subprocess.PIPE, text=True)
        if p.returncode != 0:
            print("MACHINERY: tzmc dump failed", p.stderr[-2000:])
            sys.exit(4)
        res = open(out).read().split("\n")
        if res and res[-1] == "":
            res.pop()
        assert len(res) == len(lines), (len(res), len(lines))
        return res
    finally:
        for f in os.listdir(d):
            os.remove(os.path.join(d, f))
        os.rmdir(d)


# ------------------------------------------------------------------------------------------ references
DT_MIN = -62135596800 + 86400 * 2      # year 1 + margin
DT_MAX = 253402300799 - 86400 * 2      # year 9999 - margin


EPOCH = datetime.datetime(1970, 1, 1, tzinfo=UTC)


def utc_fields(t):
    """calendar fields of a Unix time by pure arithmetic (never through libc: a right/ TZ would shift gmtime)"""
    return EPOCH + datetime.timedelta(seconds=t)


def zi_lookup(zi, t):
    d = utc_fields(t).astimezone(zi)
    off = d.utcoffset()
    return int(off.total_seconds()), d.tzname()


def glibc_select(path_or_string, is_file=True):
    os.environ["TZ"] = (":" + path_or_string) if is_file else path_or_string
    time.tzset()


def glibc_lookup(t):
    lt = time.localtime(t)
    return lt.tm_gmtoff, lt.tm_zone, lt.tm_isdst


def month_grid(y0, y1, months):
    out = []
    for y in range(y0, y1 + 1):
        for m in months:
            out.append(int(datetime.datetime(y, m, 1, tzinfo=UTC).timestamp()))
    return out


class Report:
    def __init__(self, replay_dir):
        self.violations = []
        self.replay_dir = replay_dir
        self.counts = {}
        self.excluded = {}
        self.samples = []

    def add(self, key, n=1):
        self.counts[key] = self.counts.get(key, 0) + n

    def exclude(self, key, n=1):
        self.excluded[key] = self.excluded.get(key, 0) + n

    def violation(self, case, expected, got):
        self.violations.append({"engine": "e2e", "property": "C10", "case": case, "expected": expected, "got": got})


def parse_T(line):
    p = line.split(" ")
    if p[1] == "ERR":
        return None, " ".join(p[2:])
    return (int(p[1]), "" if p[2] == "-" else p[2], int(p[3])), None


# ------------------------------------------------------------------------------------------ phases
def phase_forward(exe, rep, files, tier, label):
    """offset + abbreviation at every transition -1/0/+1, footer-rule transitions 2038..2437, calendar grid 1900..2500, far grid ..9998"""
    grid_full = month_grid(1900, 2500, range(1, 13))
    grid_quarter = month_grid(1900, 2500, (1, 4, 7, 10))
    # far future (the footer rule is periodic in the year, an implementation need not be): the 15th of four months in every
    # 97th year up to 9998 (thorough: every 11th)
    grid_far = []
    for y in range(2600, 9999, 11 if tier == "thorough" else 97):
        for m in (1, 4, 7, 10):
            grid_far.append(int(datetime.datetime(y, m, 15, 12, tzinfo=UTC).timestamp()))
    # pass 1: footer rule transitions (instants chosen by the reference model inside tzmc; values come from the implementations)
    req = []
    for p in files:
        req.append("F " + p)
        req.append("X 2038 2437" if tier == "thorough" else "X 2038 2137")
    res = tzmc_dump(exe, req)
    rule_instants = {}
    for i, p in enumerate(files):
        if not res[2 * i].startswith("OK"):
            rep.violation({"kind": "load", "file": p}, "file loads", res[2 * i])
            rule_instants[p] = []
            continue
        xs = res[2 * i + 1].split(" ")[1:]
        rule_instants[p] = [int(x) for x in xs if x]
    # pass 2: values
    req, plan = [], []
    for k, p in enumerate(files):
        z = read_tzif(p)
        inst = set()
        for t, _ in z["trans"]:
            inst.update((t - 1, t, t + 1))
        for t in rule_instants[p]:
            inst.update((t - 1, t, t + 1))
        inst.update(grid_full if (tier == "thorough" or k % 6 == 0) else grid_quarter)
        if z["footer"]:
            inst.update(grid_far)
        inst = sorted(x for x in inst if -(2 ** 62) < x < 2 ** 62)
        req.append("F " + p)
        plan.append((p, None, z))
        for t in inst:
            req.append("T %d" % t)
            plan.append((p, t, None))
    res = tzmc_dump(exe, req)
    cur_zi = None
    last_trans = None
    for (p, t, z), line in zip(plan, res):
        if t is None:
            cur_zi = zoneinfo.ZoneInfo.from_file(open(p, "rb"), key=os.path.basename(p))
            glibc_select(p)
            last_trans = z["trans"][-1][0] if z["trans"] else None
            has_footer = bool(z["footer"])
            continue
        got, err = parse_T(line)
        rep.add(label + "_instants")
        if got is None:
            # I6: no footer -> tz-rs has no local time type at or after the last transition (C03); references extrapolate
            if not has_footer and last_trans is not None and t >= last_trans and "NoAvailableLocalTimeType" in err:
                rep.exclude("no_footer_after_last_transition")
                continue
            rep.violation({"kind": "forward", "file": p, "t": t}, "a local time type", err)
            continue
        off, abbr, isdst = got
        if DT_MIN <= t <= DT_MAX:
            zo, zn = zi_lookup(cur_zi, t)
            rep.add("zoneinfo_comparisons")
            if (zo, zn) != (off, abbr):
                rep.violation({"kind": "forward", "file": p, "t": t, "reference": "zoneinfo"}, {"offset": zo, "abbr": zn}, {"offset": off, "abbr": abbr})
        try:
            go, gn, gd = glibc_lookup(t)
        except (OverflowError, OSError, ValueError):
            rep.exclude("glibc_localtime_overflow")
            continue
        rep.add("glibc_comparisons")
        if (go, gn, 1 if gd > 0 else 0) != (off, abbr, isdst):
            rep.violation({"kind": "forward", "file": p, "t": t, "reference": "glibc"}, {"offset": go, "abbr": gn, "isdst": gd}, {"offset": off, "abbr": abbr, "isdst": isdst})
    if len(rep.samples) < 4 and plan:
        rep.samples.append({"phase": label, "file": files[0], "instants_for_this_file": sum(1 for x in plan if x[0] == files[0]) - 1})


def to_count(leaps, u):
    c = 0
    prev = 0
    for (l, corr) in leaps:
        if l - prev <= u:
            c = corr
            prev = corr
        else:
            break
    return u + c


def phase_right(exe, rep, files, tier):
    """right/ tree (leap seconds) vs glibc: the UTC instant is mapped to the leap-count scale by an independent reading of the table"""
    req, plan = [], []
    for p in files:
        z = read_tzif(p)
        last = z["trans"][-1][0] if z["trans"] else None
        inst = set()
        for t, _ in z["trans"]:
            # transition times are on the count scale; probe UTC instants around the corresponding UTC value
            for d in range(-30, 31, 1 if tier == "thorough" else 3):
                inst.add(t + d)
        for l, _ in z["leaps"]:
            for d in range(-3, 4):
                inst.add(l + d)
        req.append("F " + p)
        plan.append((p, None, z))
        for u in sorted(inst):
            if u < -(2 ** 40):
                continue
            T = to_count(z["leaps"], u)
            if last is not None and T >= last and not z["footer"]:
                continue  # I6
            req.append("T %d" % u)
            plan.append((p, u, T))
    res = tzmc_dump(exe, req)
    for (p, u, T), line in zip(plan, res):
        if u is None:
            glibc_select(p)
            continue
        got, err = parse_T(line)
        rep.add("right_tree_instants")
        if got is None:
            rep.violation({"kind": "right", "file": p, "utc": u}, "a local time type", err)
            continue
        go, gn, gd = glibc_lookup(T)
        if (go, gn, 1 if gd > 0 else 0) != got:
            rep.violation({"kind": "right", "file": p, "utc": u, "count": T, "reference": "glibc"}, {"offset": go, "abbr": gn, "isdst": gd}, {"offset": got[0], "abbr": got[1], "isdst": got[2]})
    # mktime direction on the right/ tree: local readings around every transition since 1972 (incl. the seconds between the
    # transition's count and its UTC value: a bound computed on the wrong scale loses a result there); the valid instants
    # found by tz-rs == the inverse image under glibc (UTC instant mapped to the count scale independently)
    req, plan = [], []
    for p in files:
        z = read_tzif(p)
        offs = sorted(set(o for o, _, _ in z["types"]))
        last = z["trans"][-1][0] if z["trans"] else None
        req.append("F " + p)
        plan.append((p, None, z, offs))
        trans = [t for t, _ in z["trans"] if t >= 78796800]
        if tier != "thorough":
            trans = trans[::4]
        for t in trans:
            if last is not None and t >= last - 86400 * 2:
                continue  # the period after the last transition belongs to the footer rule (not in the type list of slim files)
            for o in offs:
                for d in (-1, 0, 1, 9, 10, 26, 27, 28, 1800):
                    c = t + o + d
                    dt = utc_fields(c)
                    req.append("L %d %d %d %d %d %d" % (dt.year, dt.month, dt.day, dt.hour, dt.minute, dt.second))
                    plan.append((p, c, None, None))
    res = tzmc_dump(exe, req)
    z, offs = None, None
    for (p, c, z2, o2), line in zip(plan, res):
        if c is None:
            glibc_select(p)
            z, offs = z2, o2
            continue
        rep.add("right_tree_searches")
        if line.startswith("L ERR"):
            rep.violation({"kind": "right_mktime", "file": p, "local": c}, "search succeeds", line)
            continue
        valid_part = line[2:].partition("|")[0]
        got = sorted(int(x.split(":")[0]) for x in valid_part.split(",") if x)
        exp = sorted(set(c - o for o in offs if glibc_lookup(to_count(z["leaps"], c - o))[0] == o))
        if got != exp:
            rep.violation({"kind": "right_mktime", "file": p, "local": c, "reference": "glibc"}, exp, got)
    os.environ["TZ"] = "UTC0"
    time.tzset()
    if files:
        rep.samples.append({"phase": "right", "file": files[0]})


def ref_gap(ref_off, c, offs):
    """instant at which the reference changes offset so that local reading c is skipped: (T, a, b) or None"""
    lo, hi = c - max(offs) - 1, c - min(offs) + 1
    a, b = ref_off(lo), ref_off(hi)
    if a == b or b <= a:
        return None
    # bisect for the first instant with an offset different from a (one change assumed; verified below)
    l, h = lo, hi
    while h - l > 1:
        m = (l + h) // 2
        if ref_off(m) == a:
            l = m
        else:
            h = m
    t = h
    if ref_off(t) != b or ref_off(t - 1) != a:
        return "complex"
    if t + a <= c < t + b:
        return (t, a, b)
    return None


def phase_mktime(exe, rep, files, tier):
    """local times around every transition since 1970 (table and footer rule): valid instants found by tz-rs == inverse image
    under each reference; a skipped local time must be reported at the instant where each reference changes offset"""
    deltas = [-10800, -3600, -900, 0, 900, 3600, 10800] if tier != "thorough" else list(range(-10800, 10801, 900))
    # pass 1: footer-rule transitions after the table (instants picked by the reference model inside tzmc)
    req = []
    for p in files:
        req.append("F " + p)
        req.append("X 2038 2041")
        req.append("X 1972 1975")
    res = tzmc_dump(exe, req)
    rule_trans = {}
    for i, p in enumerate(files):
        xs = []
        for line in (res[3 * i + 1], res[3 * i + 2]):
            xs += [int(x) for x in line.split(" ")[1:] if x]
        rule_trans[p] = xs
    req, plan = [], []
    for k, p in enumerate(files):
        z = read_tzif(p)
        last = z["trans"][-1][0] if z["trans"] else -2 ** 62
        # candidate offsets = offsets of the file's types + offsets the references themselves show around the footer-rule
        # transitions (a slim file need not carry a type for an offset that only its footer uses)
        seen = set(o for o, _, _ in z["types"])
        zi = zoneinfo.ZoneInfo.from_file(open(p, "rb"), key=os.path.basename(p))
        glibc_select(p)
        for t in rule_trans[p]:
            if t > last:
                for u in (t - 1, t):
                    seen.add(zi_lookup(zi, u)[0])
                    seen.add(glibc_lookup(u)[0])
        offs = sorted(seen)
        trans = [t for t, _ in z["trans"] if 0 <= t < 2 ** 33]
        if tier != "thorough":
            trans = trans[::3] if len(trans) > 60 else trans
        trans = trans + [t for t in rule_trans[p] if t > last]
        req.append("F " + p)
        plan.append((p, None, offs, z))
        for t in trans:
            # local readings: transition instant shifted by each offset of the zone, +- the deltas, +-1 s
            for o in offs:
                for d in deltas:
                    for e in (-1, 0, 1):
                        c = t + o + d + e
                        dt = utc_fields(c)
                        req.append("L %d %d %d %d %d %d" % (dt.year, dt.month, dt.day, dt.hour, dt.minute, dt.second))
                        plan.append((p, c, None, None))
    res = tzmc_dump(exe, req)
    cur_zi, offs, z = None, None, None
    for (p, c, o2, z2), line in zip(plan, res):
        if c is None:
            cur_zi = zoneinfo.ZoneInfo.from_file(open(p, "rb"), key=os.path.basename(p))
            glibc_select(p)
            offs, z = o2, z2
            last = z["trans"][-1][0] if z["trans"] else None
            nofoot = not z["footer"]
            continue
        rep.add("mktime_searches")
        if line.startswith("L ERR"):
            rep.violation({"kind": "mktime", "file": p, "local": c}, "search succeeds", line)
            continue
        valid_part, _, skipped_part = line[2:].partition("|")
        found = sorted((int(x.split(":")[0]), int(x.split(":")[1]), x.split(":")[2], int(x.split(":")[3])) for x in valid_part.split(",") if x)
        got = [f[0] for f in found]
        got_skipped = sorted(tuple(int(v) for v in x.split(":")) for x in skipped_part.split(",") if x)
        cands = [c - o for o in offs]
        if nofoot and last is not None and any(u >= last - 1 for u in cands):
            rep.exclude("mktime_candidate_after_last_transition_without_footer")
            continue
        for name, fwd in (("zoneinfo", lambda u: zi_lookup(cur_zi, u)[0]), ("glibc", lambda u: glibc_lookup(u)[0])):
            exp = sorted(set(u for u, o in zip(cands, offs) if fwd(u) == o))
            if got != exp:
                rep.violation({"kind": "mktime", "file": p, "local": c, "reference": name}, exp, got)
            elif name == "zoneinfo":
                # every found date-time carries the local time type the references report at its instant
                for (u, o, n, d) in found:
                    if DT_MIN <= u <= DT_MAX:
                        zo, zn = zi_lookup(cur_zi, u)
                        rep.add("mktime_type_comparisons")
                        if (zo, zn) != (o, n):
                            rep.violation({"kind": "mktime", "file": p, "local": c, "reference": "zoneinfo (type of the found result)"}, {"instant": u, "offset": zo, "abbr": zn}, {"instant": u, "offset": o, "abbr": n})
            elif not exp:
                # skipped local time: the reported gap must sit where the reference changes offset
                g = ref_gap(fwd, c, offs)
                if g == "complex":
                    rep.exclude("mktime_gap_with_several_reference_transitions_in_window")
                    continue
                exp_sk = [g] if g else []
                rep.add("mktime_gap_comparisons")
                if got_skipped != exp_sk:
                    rep.violation({"kind": "mktime_gap", "file": p, "local": c, "reference": name}, {"skipped_at(instant, offset before, offset after)": exp_sk}, {"skipped": got_skipped})
        if len(got) != 1:
            rep.add("mktime_nontrivial")


TZ_STRINGS = [
    "EST5EDT,M3.2.0,M11.1.0", "CET-1CEST,M3.5.0,M10.5.0/3", "NZST-12NZDT,M9.5.0,M4.1.0/3", "<+1030>-10:30<+11>-11,M10.1.0,M4.1.0", "IST-1GMT0,M10.5.0,M3.5.0/1",
    "EET-2EEST,M3.5.0/3,M10.5.0/4", "PST8PDT,M3.2.0,M11.1.0", "AEST-10AEDT,M10.1.0,M4.1.0/3", "WET0WEST,M3.5.0/1,M10.5.0", "<-04>4<-03>,M9.1.6/24,M4.1.6/24",
    "GMT0BST,M3.5.0/1,M10.5.0", "XXX3YYY,J60/0,J300/0", "XXX-3YYY,59,300", "ABC5DEF,J1/0,J365/24", "ABC5DEF4:30,M1.1.0/0,M12.5.6/23:59:59",
    "<+03>-3", "CST6", "HST10", "JST-9", "<+0330>-3:30", "UTC0", "<-0930>9:30", "ABC-24:59:59", "ABC24:59:59",
    "ABC-12DEF,M10.5.0/2,M3.5.0/3", "ABC12DEF,M4.1.1/1,M9.4.5/5:15", "ABC0DEF-0:20,M2.5.3,M8.3.1", "AAA-1BBB,J59/12,J61/12", "AAA-1BBB,58/12,60/12",
]


NY = {y: int(datetime.datetime(y, 1, 1, tzinfo=UTC).timestamp()) for y in range(1969, 2110)}


def phase_strings(exe, rep, tier):
    """well-formed POSIX TZ strings without extensions vs glibc's TZ-environment parser"""
    req = []
    for s in TZ_STRINGS:
        req.append("S " + s)
        req.append("X 1970 2100")
    res = tzmc_dump(exe, req)
    req, plan = [], []
    for i, s in enumerate(TZ_STRINGS):
        if not res[2 * i].startswith("OK"):
            rep.violation({"kind": "string", "tz": s}, "well-formed POSIX string is accepted", res[2 * i])
            continue
        inst = set(int(x) for x in res[2 * i + 1].split(" ")[1:] if x)
        pts = set()
        for t in inst:
            pts.update((t - 1, t, t + 1))
        pts.update(month_grid(1970, 2100, (1, 7)))
        req.append("S " + s)
        plan.append((s, None))
        for t in sorted(pts):
            if 0 <= t < 2 ** 32:
                req.append("T %d" % t)
                plan.append((s, t))
    res = tzmc_dump(exe, req)
    for (s, t), line in zip(plan, res):
        if t is None:
            glibc_select(s, is_file=False)
            continue
        # written exclusion: glibc evaluates a TZ-string rule per calendar year (a DST period that straddles New Year is cut at
        # 1 January), which departs from POSIX; instants within 2 days of a UTC New Year are therefore not compared with glibc
        # (they are covered by C04's model)
        y = utc_fields(t).year
        if min(abs(t - NY[y]), abs(t - NY[y + 1])) < 2 * 86400:
            rep.exclude("tz_string_instant_within_2_days_of_new_year(glibc evaluates rules per calendar year)")
            continue
        got, err = parse_T(line)
        rep.add("tz_string_instants")
        if got is None:
            rep.violation({"kind": "string", "tz": s, "t": t}, "a local time type", err)
            continue
        go, gn, gd = glibc_lookup(t)
        if (go, gn, 1 if gd > 0 else 0) != got:
            rep.violation({"kind": "string", "tz": s, "t": t, "reference": "glibc"}, {"offset": go, "abbr": gn, "isdst": gd}, {"offset": got[0], "abbr": got[1], "isdst": got[2]})
    rep.samples.append({"phase": "strings", "tz": TZ_STRINGS[0]})


# ------------------------------------------------------------------------------------------ TZ strings, mktime direction
def footer_only_file(tz):
    """bytes of a version-2 TZif file without transitions whose footer is `tz` (read by zoneinfo, which has its own TZ-string reader)"""
    def block(v):
        return b"TZif" + v + b"\0" * 15 + struct.pack(">6I", 0, 0, 0, 0, 1, 4) + struct.pack(">iBB", 0, 0, 0) + b"UTC\0"
    return block(b"2") + block(b"2") + b"\n" + tz.encode() + b"\n"


def new_year_strings():
    """rules with a transition within hours of a local New Year (the clock is set back into / forward out of the other calendar year)"""
    out = []
    names = [("EST5EDT", -18000, -14400), ("AAA-10BBB", 36000, 39600), ("<+0330>-3:30<+05>-5", 12600, 18000), ("XXX3YYY4", -10800, -14400)]
    far = ["M3.2.0", "M10.1.0/3", "J120", "180/1:30"]
    near = ["J1/0", "J1/0:30", "J1/1", "0/0", "0/0:45", "0/2", "M1.1.0/0", "M1.1.1/0:20", "M1.1.6/1", "J365/23", "J365/24", "364/23:30", "M12.5.6/23", "M12.5.0/24", "M12.4.2/2"]
    for nm, so, do in names:
        for f in far:
            for k, n in enumerate(near):
                # both references evaluate a rule per UTC calendar year (I13). That is exact for an instant u near a New Year when the
                # transitions around it belong, by rule day, to the UTC year of u: zones west of Greenwich (local New Year after the UTC
                # one) whose New-Year transition is written with a start-of-year notation (J1, 0, M1.1.d) and a non-negative time
                same_year = so < 0 and do < 0 and k < 9
                out.append(("%s,%s,%s" % (nm, f, n), so, same_year))
                out.append(("%s,%s,%s" % (nm, n, f), so, same_year))
    return out


def phase_strings_mktime(exe, rep, tier):
    """the mktime direction for TZ strings: local readings around every rule transition of 2023..2025; the valid instants tz-rs finds
    must be the inverse image under glibc and under zoneinfo (reading a footer-only file); judged only where the two references
    agree with each other (each has its own quirks near New Year for exotic rules)"""
    strings = [(s, None, False) for s in TZ_STRINGS if "," in s] + new_year_strings()
    if tier != "thorough":
        strings = strings[:len([s for s in TZ_STRINGS if "," in s])] + new_year_strings()[::2]
    req = []
    for s, _, _ in strings:
        req.append("S " + s)
        req.append("X 2023 2026")
    res = tzmc_dump(exe, req)
    req, plan = [], []
    tmpdir = tempfile.mkdtemp(prefix="tzrs-e2e-foot-")
    try:
        for i, (s, so, do) in enumerate(strings):
            if not res[2 * i].startswith("OK"):
                rep.violation({"kind": "string", "tz": s}, "well-formed POSIX string is accepted", res[2 * i])
                continue
            trans = [int(x) for x in res[2 * i + 1].split(" ")[1:] if x]
            fpath = os.path.join(tmpdir, "z%d" % i)
            open(fpath, "wb").write(footer_only_file(s))
            try:
                zi = zoneinfo.ZoneInfo.from_file(open(fpath, "rb"), key="z%d" % i)
            except Exception as e:
                rep.exclude("tz_string_not_read_by_zoneinfo")
                continue
            glibc_select(s, is_file=False)
            offs = set()
            for t in trans:
                for u in (t - 1, t):
                    offs.add(glibc_lookup(u)[0])
                    offs.add(zi_lookup(zi, u)[0])
            offs = sorted(offs)
            if not offs:
                continue
            req.append("S " + s)
            plan.append((s, None, offs, (zi, do)))
            span = max(offs) - min(offs)
            for t in trans:
                for o in offs:
                    for d in sorted(set([-span - 1, -span, -span // 2, -1, 0, 1, span // 2, span - 1, span, span + 1, -3600, 3600])):
                        c = t + o + d
                        dt = utc_fields(c)
                        req.append("L %d %d %d %d %d %d" % (dt.year, dt.month, dt.day, dt.hour, dt.minute, dt.second))
                        plan.append((s, c, t, None))
        res = tzmc_dump(exe, req)
        offs, zi, same_year = None, None, False
        for (s, c, o2, z2), line in zip(plan, res):
            if c is None:
                offs, (zi, same_year) = o2, z2
                glibc_select(s, is_file=False)
                continue
            # I13 (see phase_strings), with the one family of New-Year transitions for which per-year evaluation is exact
            ys = set(utc_fields(c - o).year for o in offs)
            near_ny = any(min(abs(c - o - NY[y]), abs(c - o - NY[y + 1])) < 2 * 86400 for o in offs for y in (utc_fields(c - o).year,))
            if near_ny and not (same_year and ys == {utc_fields(o2).year}):
                rep.exclude("tz_string_instant_within_2_days_of_new_year(glibc evaluates rules per calendar year)")
                continue
            rep.add("tz_string_mktime_searches")
            if line.startswith("L ERR"):
                rep.violation({"kind": "string_mktime", "tz": s, "local": c}, "search succeeds", line)
                continue
            valid_part, _, _ = line[2:].partition("|")
            got = sorted(int(x.split(":")[0]) for x in valid_part.split(",") if x)
            cands = [c - o for o in offs]
            exp_g = sorted(set(u for u, o in zip(cands, offs) if glibc_lookup(u)[0] == o))
            exp_z = sorted(set(u for u, o in zip(cands, offs) if zi_lookup(zi, u)[0] == o))
            if exp_g != exp_z:
                if same_year and near_ny:
                    # the family for which glibc's per-year evaluation is exact (see new_year_strings): zoneinfo places the end of
                    # a period that is written as a New-Year day differently; glibc alone is the reference here
                    rep.add("tz_string_mktime_judged_against_glibc_alone")
                else:
                    rep.exclude("tz_string_mktime_reading_on_which_glibc_and_zoneinfo_disagree")
                    continue
            if len(exp_g) != 1:
                rep.add("mktime_nontrivial")
            if got != exp_g:
                rep.violation({"kind": "string_mktime", "tz": s, "local": c, "reference": "glibc" + (" and zoneinfo (in agreement)" if exp_g == exp_z else "")}, exp_g, got)
    finally:
        for f in os.listdir(tmpdir):
            os.remove(os.path.join(tmpdir, f))
        os.rmdir(tmpdir)
    rep.samples.append({"phase": "strings_mktime", "tz": strings[-1][0]})


# ------------------------------------------------------------------------------------------ resolution of TZ values, end to end
def phase_resolution(exe, rep, tier):
    """TZ values resolved against a zoneinfo directory, tz-rs (TimeZoneSettings with that directory, real file system) vs glibc
    (TZDIR): real zone names, POSIX descriptions, and files stored under names that are themselves POSIX descriptions (the file
    wins over the description: tzset(3) tries the file first)"""
    d = tempfile.mkdtemp(prefix="tzrs-e2e-tzdir-")
    fat = os.path.join(DATA, "fat")
    probes = [1751328000, 1735689600 + 86400 * 20, 1700000000, 1600000000, 1500000000 + 86400 * 10]
    try:
        decoys = [("HST10HDT,M3.2.0,M11.1.0", "Pacific/Honolulu"), ("EST5EDT,M3.2.0,M11.1.0", "Asia/Tokyo"), ("CET-1CEST,M3.5.0,M10.5.0", "Europe/London"),
                  ("UTC0", "Asia/Kolkata"), ("JST-9", "America/New_York"), ("AAA-3BBB,J60,J300", "Australia/Sydney"), ("Europe", None)]
        for name, src in decoys:
            if src is not None:
                with open(os.path.join(d, name), "wb") as f:
                    f.write(open(os.path.join(fat, src), "rb").read())
        os.makedirs(os.path.join(d, "Europe"), exist_ok=True)
        for z in ("Paris", "London"):
            with open(os.path.join(d, "Europe", z), "wb") as f:
                f.write(open(os.path.join(fat, "Europe", z), "rb").read())
        values = [n for n, s in decoys if s is not None] + [":" + n for n, s in decoys if s is not None] + ["Europe/Paris", ":Europe/London", "Europe/Nowhere", "PST8PDT,M3.2.0,M11.1.0", "NZST-12NZDT,M9.5.0,M4.1.0/3", "<+0530>-5:30", os.path.join(d, "UTC0"), ":" + os.path.join(d, "Europe", "Paris"), "HST10HDT,M3.2.0,M11.1.1"]
        req = []
        for v in values:
            req.append("R %s\t%s" % (d, v))
            for t in probes:
                req.append("T %d" % t)
        res = tzmc_dump(exe, req)
        old_tzdir = os.environ.get("TZDIR")
        os.environ["TZDIR"] = d
        try:
            k = 0
            for v in values:
                head = res[k]
                k += 1
                os.environ["TZ"] = v
                time.tzset()
                # glibc falls back to UTC for a value it cannot resolve; tz-rs reports an error: only resolvable values are compared
                for t in probes:
                    line = res[k]
                    k += 1
                    rep.add("resolution_instants")
                    go, gn, gd = glibc_lookup(t)
                    if not head.startswith("OK"):
                        if v in ("Europe/Nowhere",) or v.startswith(":") and not os.path.exists(os.path.join(d, v[1:])) and not os.path.isabs(v[1:]):
                            continue
                        rep.violation({"kind": "resolution", "tzdir_layout": "decoys", "tz": v, "t": t}, {"offset": go, "abbr": gn}, head)
                        continue
                    got, err = parse_T(line)
                    if got is None or (go, gn) != (got[0], got[1]):
                        rep.violation({"kind": "resolution", "tzdir_layout": "decoys", "tz": v, "t": t, "reference": "glibc with TZDIR"}, {"offset": go, "abbr": gn}, {"got": got, "err": err})
        finally:
            if old_tzdir is None:
                os.environ.pop("TZDIR", None)
            else:
                os.environ["TZDIR"] = old_tzdir
            time.tzset()
    finally:
        shutil.rmtree(d, ignore_errors=True)
    rep.samples.append({"phase": "resolution", "value": "HST10HDT,M3.2.0,M11.1.0 (a file of that name holds Pacific/Honolulu)"})


# ------------------------------------------------------------------------------------------ TZ string grid
MDAYS = (31, 28, 31, 30, 31, 30, 31, 31, 30, 31, 30, 31)
GRID_Y0, GRID_Y1 = 2000, 2401          # one whole 400-year cycle plus one year


def m_rule_midnights(m, w, d):
    """epoch seconds of 00:00 (as if UTC) of 'M m.w.d' in every year of the grid window (plain calendar arithmetic)"""
    out = []
    for y in range(GRID_Y0, GRID_Y1 + 1):
        first = (datetime.date(y, m, 1).weekday() + 1) % 7          # 0 = Sunday
        day = 1 + (d - first) % 7 + 7 * (w - 1)
        mdays = MDAYS[m - 1] + (1 if m == 2 and (y % 4 == 0 and (y % 100 != 0 or y % 400 == 0)) else 0)
        if day > mdays:
            day -= 7
        out.append((datetime.date(y, m, day).toordinal() - 719163) * 86400)
    return out


def grid_order_never_flips(S, E):
    """C11's acceptance criterion evaluated over the whole cycle: none of S(y)-E(y), E(y)-S(y+1), S(y)-E(y+1) takes both signs"""
    for f in (lambda k: S[k] - E[k], lambda k: E[k] - S[k + 1], lambda k: S[k] - E[k + 1]):
        neg = pos = False
        for k in range(len(S) - 1):
            v = f(k)
            if v < 0:
                neg = True
            elif v > 0:
                pos = True
        if neg and pos:
            return False
    return True


def phase_string_grid(exe, rep, tier):
    """every pair of Mm.w.d notations (quick: same or adjacent months) in TZ strings with default and (quick: same month only) with day-apart
    offsets and times: a string tz-rs refuses must be refused by C11's criterion (evaluated here independently over a whole 400-year cycle);
    a string it accepts is compared with glibc 1 s before and at each of its transitions in a common and in a leap year"""
    nots = [(m, w, d) for m in range(1, 13) for w in range(1, 6) for d in range(7)]
    mid = {n: m_rule_midnights(*n) for n in nots}
    # (text before the rules, start time text, end time text, std offset east, dst offset east, start time s, end time s)
    variants = [("AAA-1BBB", "", "", 3600, 7200, 7200, 7200),
                ("AAA-12BBB12", "/0", "/24:30", 43200, -43200, 0, 88200),
                ("AAA12BBB-12", "/24", "/0", -43200, 43200, 86400, 0)]
    if tier == "thorough":
        variants += [("AAA0BBB-0:30", "/12", "/12", 0, 1800, 43200, 43200), ("AAA-23BBB-24", "/1:30", "/23", 82800, 86400, 5400, 82800)]
    years = (2023, 2024)
    idx = [y - GRID_Y0 for y in years]
    strings = []
    for a in nots:
        for b in nots:
            dm = (a[0] - b[0]) % 12
            if tier != "thorough" and dm not in (0, 1, 11):
                continue
            for vi, v in enumerate(variants):
                # quick: the day-apart variants only for rules in the same month (where a day matters)
                if tier != "thorough" and vi > 0 and dm != 0:
                    continue
                strings.append((a, b, v))
    for c0 in range(0, len(strings), 40000):
        grid_chunk(exe, rep, strings[c0:c0 + 40000], mid, idx)
    rep.samples.append({"phase": "string_grid", "tz": "%s,M%d.%d.%d%s,M%d.%d.%d%s" % ((strings[len(strings) // 3][2][0],) + strings[len(strings) // 3][0] + (strings[len(strings) // 3][2][1],) + strings[len(strings) // 3][1] + (strings[len(strings) // 3][2][2],))})


def grid_chunk(exe, rep, strings, mid, idx):
    req, plan = [], []
    for a, b, v in strings:
        text = "%s,M%d.%d.%d%s,M%d.%d.%d%s" % ((v[0],) + a + (v[1],) + b + (v[2],))
        S = [x + v[5] - v[3] for x in mid[a]]
        E = [x + v[6] - v[4] for x in mid[b]]
        req.append("S " + text)
        pts = []
        for k in idx:
            pts += [S[k] - 1, S[k], E[k] - 1, E[k]]
        for t in pts:
            req.append("T %d" % t)
        plan.append((text, S, E, pts))
    res = tzmc_dump(exe, req)
    i = 0
    for text, S, E, pts in plan:
        head = res[i]
        lines = res[i + 1:i + 1 + len(pts)]
        i += 1 + len(pts)
        rep.add("tz_string_grid_strings")
        if not head.startswith("OK"):
            if grid_order_never_flips(S, E):
                rep.violation({"kind": "string_grid", "tz": text}, "accepted: the order of its transitions never flips in 400 years and glibc answers for it", head)
            else:
                rep.add("tz_string_grid_refused_inconsistent")
            continue
        if any(S[k] == E[k] or E[k] == S[k + 1] or S[k] == E[k + 1] for k in range(len(S) - 1)):
            # written exclusion: start and end fall on the same instant in some year; POSIX gives such a rule no meaning and
            # glibc and tz-rs resolve it differently (C04's model pins tz-rs's reading)
            rep.exclude("tz_string_grid_rule_with_coinciding_start_and_end")
            continue
        glibc_select(text, is_file=False)
        for t, line in zip(pts, lines):
            y = utc_fields(t).year
            if min(abs(t - NY[y]), abs(t - NY[y + 1])) < 2 * 86400:
                rep.exclude("tz_string_instant_within_2_days_of_new_year(glibc evaluates rules per calendar year)")
                continue
            got, err = parse_T(line)
            rep.add("tz_string_grid_instants")
            if got is None:
                rep.violation({"kind": "string", "tz": text, "t": t}, "a local time type", err)
                continue
            go, gn, gd = glibc_lookup(t)
            if (go, gn, 1 if gd > 0 else 0) != got:
                rep.violation({"kind": "string", "tz": text, "t": t, "reference": "glibc"}, {"offset": go, "abbr": gn, "isdst": gd}, {"offset": got[0], "abbr": got[1], "isdst": got[2]})


def replay(exe, path):
    """re-run one recorded disagreement twice: tz-rs answer vs both references"""
    v = json.load(open(path))
    c = v["case"]
    bad = False
    for _ in range(2):
        if c["kind"] in ("forward", "right", "load"):
            f = c["file"]
            t = c.get("t", c.get("utc", 0))
            r = tzmc_dump(exe, ["F " + f, "T %d" % t])
            z = read_tzif(f)
            glibc_select(f)
            T = to_count(z["leaps"], t) if c["kind"] == "right" else t
            gl = glibc_lookup(T)
            zi = None
            if c["kind"] == "forward" and DT_MIN <= t <= DT_MAX:
                zi = zi_lookup(zoneinfo.ZoneInfo.from_file(open(f, "rb"), key="x"), t)
            print("tz-rs:", r, "| glibc:", gl, "| zoneinfo:", zi)
            got, _ = parse_T(r[1]) if r[0].startswith("OK") else (None, None)
            if got is None or (got[0], got[1]) != (gl[0], gl[1]) or (zi is not None and zi != (got[0], got[1])):
                bad = True
        elif c["kind"] in ("mktime", "mktime_gap"):
            f, loc = c["file"], c["local"]
            dt = utc_fields(loc)
            r = tzmc_dump(exe, ["F " + f, "L %d %d %d %d %d %d" % (dt.year, dt.month, dt.day, dt.hour, dt.minute, dt.second)])
            z = read_tzif(f)
            offs = sorted(set(o for o, _, _ in z["types"]))
            zi = zoneinfo.ZoneInfo.from_file(open(f, "rb"), key="x")
            glibc_select(f)
            exp_zi = sorted(set(loc - o for o in offs if zi_lookup(zi, loc - o)[0] == o))
            exp_gl = sorted(set(loc - o for o in offs if glibc_lookup(loc - o)[0] == o))
            gaps = (ref_gap(lambda u: zi_lookup(zi, u)[0], loc, offs), ref_gap(lambda u: glibc_lookup(u)[0], loc, offs))
            print("tz-rs:", r[1], "| zoneinfo valid:", exp_zi, "| glibc valid:", exp_gl, "| reference gaps:", gaps)
            valid_part, _, sk = r[1][2:].partition("|")
            found = sorted((int(x.split(":")[0]), int(x.split(":")[1]), x.split(":")[2], int(x.split(":")[3])) for x in valid_part.split(",") if x)
            got = [f[0] for f in found]
            for (u, o, n, d) in found:
                if DT_MIN <= u <= DT_MAX and zi_lookup(zi, u) != (o, n if n != "-" else None):
                    print("found result carries", (o, n), "zoneinfo says", zi_lookup(zi, u))
                    bad = True
            got_sk = sorted(tuple(int(q) for q in x.split(":")) for x in sk.split(",") if x)
            if got != exp_zi or got != exp_gl:
                bad = True
            if not exp_zi and gaps[0] != "complex" and got_sk != ([gaps[0]] if gaps[0] else []):
                bad = True
        elif c["kind"] == "right_mktime":
            f, loc = c["file"], c["local"]
            dt = utc_fields(loc)
            r = tzmc_dump(exe, ["F " + f, "L %d %d %d %d %d %d" % (dt.year, dt.month, dt.day, dt.hour, dt.minute, dt.second)])
            z = read_tzif(f)
            offs = sorted(set(o for o, _, _ in z["types"]))
            glibc_select(f)
            exp = sorted(set(loc - o for o in offs if glibc_lookup(to_count(z["leaps"], loc - o))[0] == o))
            got = sorted(int(x.split(":")[0]) for x in r[1][2:].partition("|")[0].split(",") if x)
            print("tz-rs:", r[1], "| glibc valid:", exp)
            if got != exp:
                bad = True
        elif c["kind"] == "string":
            s_, t = c["tz"], c.get("t", 0)
            r = tzmc_dump(exe, ["S " + s_, "T %d" % t])
            glibc_select(s_, is_file=False)
            gl = glibc_lookup(t)
            print("tz-rs:", r, "| glibc:", gl)
            got, _ = parse_T(r[1]) if r[0].startswith("OK") else (None, None)
            if got is None or got != (gl[0], gl[1], 1 if gl[2] > 0 else 0):
                bad = True
        elif c["kind"] == "string_mktime":
            s_, loc = c["tz"], c["local"]
            dt = utc_fields(loc)
            r = tzmc_dump(exe, ["S " + s_, "L %d %d %d %d %d %d" % (dt.year, dt.month, dt.day, dt.hour, dt.minute, dt.second)])
            glibc_select(s_, is_file=False)
            got = sorted(int(x.split(":")[0]) for x in r[1][2:].partition("|")[0].split(",") if x) if r[1].startswith("L ") and not r[1].startswith("L ERR") else None
            exp = sorted(set(u for u in range(loc - 100000, loc + 100001, 900) if False))
            offs = sorted(set(glibc_lookup(loc + k * 3600)[0] for k in range(-30, 31)))
            exp = sorted(set(loc - o for o in offs if glibc_lookup(loc - o)[0] == o))
            print("tz-rs:", r[1], "| glibc valid:", exp)
            if got != exp:
                bad = True
        elif c["kind"] == "resolution":
            r2 = Report(os.path.join(tempfile.gettempdir(), "tzrs-e2e-replay"))
            phase_resolution(exe, r2, "quick")
            hits = [x for x in r2.violations if x["case"].get("tz") == c["tz"] and x["case"].get("t") == c["t"]]
            print("resolution phase re-run:", len(r2.violations), "disagreements,", len(hits), "for this case")
            if hits:
                bad = True
        elif c["kind"] == "string_grid":
            r = tzmc_dump(exe, ["S " + c["tz"]])
            print("tz-rs:", r, "| expected: accepted (glibc accepts it and the order of its transitions never flips)")
            if not r[0].startswith("OK"):
                bad = True
    print("REPLAY: violation reproduced" if bad else "REPLAY: case passes")
    return 1 if bad else 0


def main():
    if sys.argv[1] == "--replay":
        return replay(sys.argv[2], sys.argv[3])
    tier, exe, evidence, replay_dir = sys.argv[1], sys.argv[2], sys.argv[3], sys.argv[4]
    t0 = time.time()
    rep = Report(replay_dir)
    fat_posix = [p for p in files_of("fat") if "/right/" not in p]
    fat_right = [p for p in files_of("fat") if "/right/" in p]
    slim = files_of("slim")
    n_all = len(fat_posix) + len(fat_right) + len(slim)
    fat_posix_d, fat_right_d, slim_d = distinct(fat_posix), distinct(fat_right), distinct(slim)
    # slim files that violate RFC 8536 3.3 (footer inconsistent with the last transition) are refused by design (C13/C08)
    slim_ok = []
    for p in slim_d:
        r = tzmc_dump(exe, ["F " + p])
        if r[0].startswith("OK"):
            slim_ok.append(p)
        elif "InconsistentExtraRule" in r[0]:
            rep.exclude("slim_file_with_footer_inconsistent_with_last_transition(" + os.path.relpath(p, DATA) + ")")
        else:
            rep.violation({"kind": "load", "file": p}, "file loads", r[0])
    phase_forward(exe, rep, fat_posix_d, tier, "fat")
    phase_forward(exe, rep, slim_ok, tier, "slim")
    phase_right(exe, rep, fat_right_d if tier == "thorough" else fat_right_d[::4], tier)
    phase_mktime(exe, rep, (fat_posix_d if tier == "thorough" else fat_posix_d[::5]), tier)
    phase_mktime(exe, rep, (slim_ok if tier == "thorough" else slim_ok[::7]), tier)
    phase_strings(exe, rep, tier)
    phase_strings_mktime(exe, rep, tier)
    phase_resolution(exe, rep, tier)
    phase_string_grid(exe, rep, tier)
    os.makedirs(replay_dir, exist_ok=True)
    total = sum(v for k, v in rep.counts.items() if k.endswith("_instants") or k.endswith("_searches"))
    nontrivial = rep.counts.get("mktime_nontrivial", 0) + rep.counts.get("right_tree_instants", 0)
    ev = {
        "property_id": "C10", "tier": tier, "seed": int(os.environ.get("VERIF_SEED", "0") or 0), "level": "exploration", "engine": "py/e2e.py + tzmc dump",
        "coverage": {
            "evaluations": total, "distinct_nontrivial": nontrivial,
            "rule": "every distinct TZif file of the vendored corpus (fat posix tree, slim tree, right/ tree) x {every transition -1/0/+1, footer-rule transitions -1/0/+1 (2038..2137; thorough ..2437), calendar grid 1900..2500 (quarterly; monthly for every 6th file / thorough)} against zoneinfo (offset, abbreviation) and glibc (offset, abbreviation, isdst); right/ files against glibc through an independent leap-table mapping; local times around transitions since 1970: tz-rs valid instants == inverse image under each reference; well-formed POSIX TZ strings vs glibc TZ parser, incl. the grid of all pairs of Mm.w.d notations (quick: same or adjacent months) x offset/time variants: refused only if C11's criterion refuses, accepted ones compared at their transitions of 2023 and 2024; TZ strings in the mktime direction (incl. 240 rules with a transition within hours of a local New Year): local readings around every rule transition of 2023..2025, valid instants == inverse image under glibc and zoneinfo where the two agree. non-trivial = searches with 0 or >=2 valid instants + leap-second (right/) instants",
            "samples": rep.samples or [{"note": "no sample"}], "exhaustive": True,
            "corpus_files": n_all, "distinct_files": {"fat_posix": len(fat_posix_d), "fat_right": len(fat_right_d), "slim": len(slim_d)},
            "counts": rep.counts, "excluded_by_written_rule": rep.excluded,
        },
        "assumptions": ["python3 >= 3.9 zoneinfo and the glibc of this image are the reference implementations", "I6: files without footer are compared only before their last transition"],
        "wall_s": round(time.time() - t0, 1), "violations": len(rep.violations),
    }
    json.dump(ev, open(evidence, "w"), indent=1)
    for i, v in enumerate(rep.violations[:12]):
        path = os.path.join(replay_dir, "C10-e2e-%d.json" % i)
        json.dump(v, open(path, "w"), indent=1)
        print("VIOLATION property=C10 replay=%s" % path)
    print("[C10 e2e %s] comparisons=%d violations=%d excluded=%s wall=%.0fs" % (tier, total, len(rep.violations), json.dumps(rep.excluded), time.time() - t0))
    return 1 if rep.violations else 0


if __name__ == "__main__":
    sys.exit(main())
